//! Shared by every harness crate: attached to each crate root as `crate::verif_common`.
//! Environment stubs (wake-ups are scheduler plumbing, not part of any claimed clause) and helpers
//! that keep `io::Error` / `Waker` drop glue out of the encoding (see DESIGN.md §2.3/§2.4).
#![allow(dead_code)]
use std::task::Waker;

pub fn stub_wake(w: Waker) {
    std::mem::forget(w);
}
pub fn stub_wake_by_ref(_w: &Waker) {}
pub fn stub_waker_drop(_w: &mut Waker) {}
pub fn stub_waker_clone(w: &Waker) -> Waker {
    // bitwise copy; sound here because the stubbed Drop never releases anything
    unsafe { std::ptr::read(w) }
}
pub fn stub_fmt_format(_a: std::fmt::Arguments<'_>) -> String {
    String::new()
}

/// Classification of an `io::Result` that never drops the error (its drop glue explodes in CBMC).
#[derive(Clone, Copy, PartialEq, Eq, Debug)]
pub enum Outcome {
    Ok,
    AddrInUse,
    AddrNotAvailable,
    ConnectionRefused,
    ConnectionReset,
    NotConnected,
    BrokenPipe,
    TimedOut,
    NotFound,
    AlreadyExists,
    InvalidInput,
    PermissionDenied,
    Os(i32),
    Other,
}

pub fn classify_err(e: &std::io::Error) -> Outcome {
    use std::io::ErrorKind as K;
    if let Some(c) = e.raw_os_error() {
        return Outcome::Os(c);
    }
    match e.kind() {
        K::AddrInUse => Outcome::AddrInUse,
        K::AddrNotAvailable => Outcome::AddrNotAvailable,
        K::ConnectionRefused => Outcome::ConnectionRefused,
        K::ConnectionReset => Outcome::ConnectionReset,
        K::NotConnected => Outcome::NotConnected,
        K::BrokenPipe => Outcome::BrokenPipe,
        K::TimedOut => Outcome::TimedOut,
        K::NotFound => Outcome::NotFound,
        K::AlreadyExists => Outcome::AlreadyExists,
        K::InvalidInput => Outcome::InvalidInput,
        K::PermissionDenied => Outcome::PermissionDenied,
        _ => Outcome::Other,
    }
}

/// Split an `io::Result<T>` into (value, outcome); the error is leaked, never dropped.
pub fn take<T>(r: std::io::Result<T>) -> (Option<T>, Outcome) {
    match r {
        Ok(v) => (Some(v), Outcome::Ok),
        Err(e) => {
            let o = classify_err(&e);
            std::mem::forget(e);
            (None, o)
        }
    }
}

pub fn noop_cx() -> std::task::Context<'static> {
    std::task::Context::from_waker(Waker::noop())
}

/// `Vec::insert` / `Vec::remove` / `VecDeque::remove` at a SYMBOLIC index are symbolic-length
/// memmoves, which CBMC encodes with array theory over the whole buffer (measured: a 1-element insert
/// did not finish in 300 s; the case split below takes 0.2 s). These stubs are semantically identical
/// re-implementations that move elements one by one, TYPED (ptr::read / ptr::write of `T`, never a
/// byte-wise swap: byte-wise copies turn the pointers inside `T` into integers and every later
/// dereference into a case split over all objects - measured 33 GB), at CONCRETE indices under
/// symbolic guards.
pub fn vec_insert_stub<T, A: std::alloc::Allocator>(v: &mut Vec<T, A>, index: usize, element: T) {
    let len = v.len();
    assert!(index <= len, "insertion index out of bounds");
    v.reserve(1);
    unsafe {
        let p = v.as_mut_ptr();
        // shift [index, len) up by one, from the back
        let mut j = len;
        while j > 0 {
            if j > index {
                let x = std::ptr::read(p.add(j - 1));
                std::ptr::write(p.add(j), x);
            }
            j -= 1;
        }
        let mut k = 0;
        let mut e = Some(element);
        while k <= len {
            if k == index {
                if let Some(x) = e.take() {
                    std::ptr::write(p.add(k), x);
                }
            }
            k += 1;
        }
        std::mem::forget(e);
        v.set_len(len + 1);
    }
}
pub fn vec_remove_stub<T, A: std::alloc::Allocator>(v: &mut Vec<T, A>, index: usize) -> T {
    let len = v.len();
    assert!(index < len, "removal index out of bounds");
    unsafe {
        let p = v.as_mut_ptr();
        let mut out: Option<T> = None;
        let mut j = 0;
        while j < len {
            if j == index {
                out = Some(std::ptr::read(p.add(j)));
            }
            if j > index {
                let x = std::ptr::read(p.add(j));
                std::ptr::write(p.add(j - 1), x);
            }
            j += 1;
        }
        v.set_len(len - 1);
        match out {
            Some(t) => t,
            None => unreachable!(),
        }
    }
}
pub fn vecdeque_remove_stub<T, A: std::alloc::Allocator>(v: &mut std::collections::VecDeque<T, A>, index: usize) -> Option<T> {
    let len = v.len();
    if index >= len {
        return None;
    }
    let s = v.make_contiguous();
    let mut out: Option<T> = None;
    unsafe {
        let p = s.as_mut_ptr();
        let mut j = 0;
        while j < len {
            if j == index {
                out = Some(std::ptr::read(p.add(j)));
            }
            if j > index {
                let x = std::ptr::read(p.add(j));
                std::ptr::write(p.add(j - 1), x);
            }
            j += 1;
        }
    }
    // the last slot now holds a bitwise duplicate of its predecessor (or of the removed element):
    // pop it without running its destructor
    let dup = v.pop_back();
    std::mem::forget(dup);
    out
}

/// `VecDeque::swap_remove_back`: std swaps with `ptr::swap` (byte-wise, destroys pointer
/// provenance). Typed re-implementation: the element at `index` is replaced by the last one.
/// Stubbed alongside `remove` so that a change of the removal API in the code under test stays
/// decidable instead of running out of memory.
pub fn vecdeque_swap_remove_back_stub<T, A: std::alloc::Allocator>(v: &mut std::collections::VecDeque<T, A>, index: usize) -> Option<T> {
    let len = v.len();
    if index >= len {
        return None;
    }
    let last = match v.pop_back() {
        Some(x) => x,
        None => unreachable!(),
    };
    if index == len - 1 {
        return Some(last);
    }
    let s = v.make_contiguous();
    let mut out: Option<T> = None;
    let mut e = Some(last);
    unsafe {
        let p = s.as_mut_ptr();
        let mut j = 0;
        while j + 1 < len {
            if j == index {
                out = Some(std::ptr::read(p.add(j)));
                if let Some(x) = e.take() {
                    std::ptr::write(p.add(j), x);
                }
            }
            j += 1;
        }
    }
    std::mem::forget(e);
    out
}
pub fn vecdeque_swap_remove_front_stub<T, A: std::alloc::Allocator>(v: &mut std::collections::VecDeque<T, A>, index: usize) -> Option<T> {
    let len = v.len();
    if index >= len {
        return None;
    }
    let first = match v.pop_front() {
        Some(x) => x,
        None => unreachable!(),
    };
    if index == 0 {
        return Some(first);
    }
    let s = v.make_contiguous();
    let mut out: Option<T> = None;
    let mut e = Some(first);
    unsafe {
        let p = s.as_mut_ptr();
        let mut j = 0;
        while j + 1 < len {
            if j + 1 == index {
                out = Some(std::ptr::read(p.add(j)));
                if let Some(x) = e.take() {
                    std::ptr::write(p.add(j), x);
                }
            }
            j += 1;
        }
    }
    std::mem::forget(e);
    out
}

/// Path stubs for the filesystem harnesses (DESIGN.md 2.3). std compares and splits paths by
/// iterating `Components` backwards byte by byte; on heap-stored `PathBuf`s the symbolic executor
/// unwinds those parser loops at every comparison (measured: one create+write+read did not finish in
/// 10 min, 1293 unwindings of `parse_next_component_back`). Under the stated assumption that every
/// path a harness uses is ABSOLUTE and NORMALISED (no `.`/`..`/`//`/trailing slash; the concrete
/// path pools guarantee it) byte equality and "cut at the last slash" are equivalent.
pub fn stub_components_eq(a: &std::path::Components<'_>, b: &std::path::Components<'_>) -> bool {
    let x = a.as_path().as_os_str().as_encoded_bytes();
    let y = b.as_path().as_os_str().as_encoded_bytes();
    if x.len() != y.len() {
        return false;
    }
    let mut i = 0;
    while i < x.len() {
        if x[i] != y[i] {
            return false;
        }
        i += 1;
    }
    true
}
pub fn stub_path_parent(p: &std::path::Path) -> Option<&std::path::Path> {
    let b = p.as_os_str().as_encoded_bytes();
    if b.len() <= 1 {
        return None; // "/" (or empty) has no parent
    }
    let mut i = b.len() - 1;
    while i > 0 && b[i] != b'/' {
        i -= 1;
    }
    let cut = if i == 0 { 1 } else { i };
    Some(std::path::Path::new(unsafe { std::ffi::OsStr::from_encoded_bytes_unchecked(&b[..cut]) }))
}

#[macro_export]
macro_rules! verif_proof {
    (unwind = $u:expr; $($item:tt)*) => {
        #[kani::proof]
        #[kani::unwind($u)]
        #[kani::stub(std::task::Waker::wake, crate::verif_common::stub_wake)]
        #[kani::stub(std::task::Waker::wake_by_ref, crate::verif_common::stub_wake_by_ref)]
        #[kani::stub(<std::task::Waker as std::ops::Drop>::drop, crate::verif_common::stub_waker_drop)]
        #[kani::stub(<std::task::Waker as std::clone::Clone>::clone, crate::verif_common::stub_waker_clone)]
        $($item)*
    };
}
