//! Shared by every harness crate: attached to each crate root as `crate::verif_common`.
//! Environment stubs (wake-ups are scheduler plumbing, not part of any claimed clause) and helpers
//! that keep `io::Error` / `Waker` drop glue out of the encoding (see DESIGN.md §2.3/§2.4).
#![allow(dead_code)]
use std::task::Waker;

pub fn stub_wake(w: Waker) {
    std::mem::forget(w);
}
pub fn stub_wake_by_ref(_w: &Waker) {}
pub fn stub_waker_drop(_w: &mut Waker) {}
pub fn stub_waker_clone(w: &Waker) -> Waker {
    // bitwise copy; sound here because the stubbed Drop never releases anything
    unsafe { std::ptr::read(w) }
}
pub fn stub_fmt_format(_a: std::fmt::Arguments<'_>) -> String {
    String::new()
}

/// Classification of an `io::Result` that never drops the error (its drop glue explodes in CBMC).
#[derive(Clone, Copy, PartialEq, Eq, Debug)]
pub enum Outcome {
    Ok,
    AddrInUse,
    AddrNotAvailable,
    ConnectionRefused,
    ConnectionReset,
    NotConnected,
    BrokenPipe,
    TimedOut,
    NotFound,
    AlreadyExists,
    InvalidInput,
    PermissionDenied,
    Os(i32),
    Other,
}

pub fn classify_err(e: &std::io::Error) -> Outcome {
    use std::io::ErrorKind as K;
    if let Some(c) = e.raw_os_error() {
        return Outcome::Os(c);
    }
    match e.kind() {
        K::AddrInUse => Outcome::AddrInUse,
        K::AddrNotAvailable => Outcome::AddrNotAvailable,
        K::ConnectionRefused => Outcome::ConnectionRefused,
        K::ConnectionReset => Outcome::ConnectionReset,
        K::NotConnected => Outcome::NotConnected,
        K::BrokenPipe => Outcome::BrokenPipe,
        K::TimedOut => Outcome::TimedOut,
        K::NotFound => Outcome::NotFound,
        K::AlreadyExists => Outcome::AlreadyExists,
        K::InvalidInput => Outcome::InvalidInput,
        K::PermissionDenied => Outcome::PermissionDenied,
        _ => Outcome::Other,
    }
}

/// Split an `io::Result<T>` into (value, outcome); the error is leaked, never dropped.
pub fn take<T>(r: std::io::Result<T>) -> (Option<T>, Outcome) {
    match r {
        Ok(v) => (Some(v), Outcome::Ok),
        Err(e) => {
            let o = classify_err(&e);
            std::mem::forget(e);
            (None, o)
        }
    }
}

pub fn noop_cx() -> std::task::Context<'static> {
    std::task::Context::from_waker(Waker::noop())
}

/// `Vec::insert` / `Vec::remove` at a SYMBOLIC index are symbolic-length memmoves, which CBMC encodes
/// with array theory over the whole buffer (measured: a 1-element insert did not finish in 300 s, the
/// case-split below takes 0.2 s). These stubs are semantically identical re-implementations with
/// element-wise swaps at concrete indices under symbolic guards.
pub fn vec_insert_stub<T, A: std::alloc::Allocator>(v: &mut Vec<T, A>, index: usize, element: T) {
    let len = v.len();
    assert!(index <= len, "insertion index out of bounds");
    v.push(element);
    let mut j = len;
    while j > index {
        v.swap(j, j - 1);
        j -= 1;
    }
}
pub fn vec_remove_stub<T, A: std::alloc::Allocator>(v: &mut Vec<T, A>, index: usize) -> T {
    let len = v.len();
    assert!(index < len, "removal index out of bounds");
    let mut j = index;
    while j + 1 < len {
        v.swap(j, j + 1);
        j += 1;
    }
    match v.pop() {
        Some(t) => t,
        None => unreachable!(),
    }
}

#[macro_export]
macro_rules! verif_proof {
    (unwind = $u:expr; $($item:tt)*) => {
        #[kani::proof]
        #[kani::unwind($u)]
        #[kani::stub(std::task::Waker::wake, crate::verif_common::stub_wake)]
        #[kani::stub(std::task::Waker::wake_by_ref, crate::verif_common::stub_wake_by_ref)]
        #[kani::stub(<std::task::Waker as std::ops::Drop>::drop, crate::verif_common::stub_waker_drop)]
        #[kani::stub(<std::task::Waker as std::clone::Clone>::clone, crate::verif_common::stub_waker_clone)]
        $($item)*
    };
}
