//! Kani harnesses for crates/turmoil-fs/src/lib.rs (the real `Fs`), built against the inline-storage
//! model of std::path (/verif/models/path; DESIGN.md 2.2). Paths are concrete per instance and at
//! most 6 bytes; file contents, offsets inside small ranges and timestamps are symbolic.
use super::*;

fn p(s: &'static str) -> &'static Path {
    Path::new(s)
}

fn fresh() -> Fs {
    Fs::new(FsConfig::default(), 7)
}

const T0: Duration = Duration::ZERO;

// @verif id=PROBE tier=quick role=probe timeout=600
#[kani::proof]
#[kani::unwind(10)]
fn probe_write_read() {
    let mut fs = empty(FsConfig::default());
    let f = p("/f");
    fs.create_file(f, T0);
    let d: [u8; 2] = kani::any();
    fs.write_file(f, 0, &d, T0);
    assert!(fs.file_exists(f));
    assert!(fs.file_len(f) == 2);
    let mut buf = [0u8; 2];
    let n = fs.read_file(f, &mut buf, 0);
    assert!(n == 2 && buf[0] == d[0] && buf[1] == d[1]);
    kani::cover!(n == 2, "read reached");
    std::mem::forget(fs);
}

/// rng whose words are symbolic: "for every seed" (rand 0.9 RngCore)
struct AnyRng;
impl RngCore for AnyRng {
    fn next_u32(&mut self) -> u32 {
        kani::any()
    }
    fn next_u64(&mut self) -> u64 {
        kani::any()
    }
    fn fill_bytes(&mut self, dst: &mut [u8]) {
        for b in dst.iter_mut() {
            *b = kani::any();
        }
    }
}

/// An empty filesystem built field by field (same values as `Fs::new`, minus the SmallRng seeding).
fn empty(cfg: FsConfig) -> Fs {
    let mut persisted_dirs = IndexMap::new();
    let mut synced_entries = IndexSet::new();
    persisted_dirs.insert(PathBuf::from("/"), DirData::new(Duration::ZERO));
    synced_entries.insert(PathBuf::from("/"));
    Fs {
        rng: Box::new(AnyRng),
        persisted_files: IndexMap::new(),
        persisted_dirs,
        persisted_symlinks: IndexMap::new(),
        synced_entries,
        pending: Vec::new(),
        open_handles: IndexMap::new(),
        direct_io_fds: indexmap::IndexSet::new(),
        next_fd: SIM_FD_BASE,
        sync_probability: cfg.sync_probability,
        capacity: cfg.capacity,
        io_error_probability: cfg.io_error_probability,
        corruption_probability: cfg.corruption_probability,
        short_read_probability: cfg.short_read_probability,
        direct_io_alignment: cfg.direct_io_alignment,
        block_size: cfg.block_size,
        io_latency: cfg.io_latency,
        page_cache: cfg.page_cache.map(PageCache::new),
    }
}

// @verif id=PROBE tier=quick role=probe timeout=900
#[kani::proof]
#[kani::unwind(10)]
fn probe_truncate_extend() {
    let mut fs = empty(FsConfig::default());
    let f = p("/f");
    fs.create_file(f, T0);
    let d: [u8; 2] = kani::any();
    fs.write_file(f, 0, &d, T0);
    fs.set_file_len(f, 0, T0);
    fs.set_file_len(f, 2, T0);
    assert!(fs.file_len(f) == 2);
    let mut buf = [7u8; 2];
    let n = fs.read_file(f, &mut buf, 0);
    assert!(n == 2);
    assert!(buf[0] == 0 && buf[1] == 0, "bytes cut off by a truncation do not come back when the file is extended");
    std::mem::forget(fs);
}

// @verif id=PROBE tier=quick role=probe timeout=900
#[kani::proof]
#[kani::unwind(10)]
fn probe_crash_keeps_synced() {
    let mut fs = empty(FsConfig::default());
    let f = p("/f");
    fs.create_file(f, T0);
    let d1: [u8; 2] = kani::any();
    let d2: [u8; 2] = kani::any();
    fs.write_file(f, 0, &d1, T0);
    assert!(fs.sync_file(f).is_ok());
    assert!(fs.sync_dir(p("/"), T0).is_ok());
    fs.write_file(f, 0, &d2, T0);
    fs.crash();
    assert!(fs.file_exists(f));
    assert!(fs.file_len(f) == 2);
    let mut buf = [7u8; 2];
    let n = fs.read_file(f, &mut buf, 0);
    assert!(n == 2 && buf[0] == d1[0] && buf[1] == d1[1]);
    kani::cover!(n == 2, "reached");
    std::mem::forget(fs);
}

// @verif id=PROBE tier=quick role=probe timeout=900
#[kani::proof]
#[kani::unwind(10)]
fn probe_crash_drops_unsynced_entry() {
    let mut fs = empty(FsConfig::default());
    let f = p("/f");
    fs.create_file(f, T0);
    let d1: [u8; 2] = kani::any();
    fs.write_file(f, 0, &d1, T0);
    assert!(fs.sync_file(f).is_ok());
    fs.crash();
    assert!(!fs.file_exists(f));
    assert!(fs.persisted_files.len() == 0);
    kani::cover!(true, "reached");
    std::mem::forget(fs);
}


fn file_with(content: &[u8]) -> FileData {
    let mut fd = FileData::with_mode(T0, 0o644);
    fd.content = content.to_vec();
    fd
}

fn read2(fs: &Fs, path: &Path) -> (usize, [u8; 2]) {
    let mut buf = [7u8; 2];
    let n = fs.read_file(path, &mut buf, 0);
    (n, buf)
}

// @verif id=PROBE tier=quick role=probe timeout=900
#[kani::proof]
#[kani::unwind(10)]
fn probe_crash_step() {
    // pre-state written directly: /f durable (inode + entry), /g inode durable but entry not,
    // pending: an unsynced overwrite of /f and an unsynced create of /h
    let mut fs = empty(FsConfig::default());
    let ab: [u8; 2] = kani::any();
    let xy: [u8; 2] = kani::any();
    fs.persisted_files.insert(PathBuf::from("/f"), file_with(&ab));
    fs.persisted_files.insert(PathBuf::from("/g"), file_with(&xy));
    fs.synced_entries.insert(PathBuf::from("/f"));
    fs.pending.push(PendingOp::Write { path: PathBuf::from("/f"), offset: 0, data: xy.to_vec(), time: T0 });
    fs.pending.push(PendingOp::CreateFile { path: PathBuf::from("/h"), time: T0, mode: 0o644 });
    fs.crash();
    assert!(fs.pending.is_empty());
    assert!(fs.file_exists(p("/f")) && !fs.file_exists(p("/g")) && !fs.file_exists(p("/h")));
    let (n, buf) = read2(&fs, p("/f"));
    assert!(n == 2 && buf[0] == ab[0] && buf[1] == ab[1]);
    kani::cover!(n == 2, "reached");
    std::mem::forget(fs);
}

// @verif id=PROBE tier=quick role=probe timeout=900
#[kani::proof]
#[kani::unwind(10)]
fn probe_sync_file_step() {
    let mut fs = empty(FsConfig::default());
    let d: [u8; 2] = kani::any();
    fs.pending.push(PendingOp::CreateFile { path: PathBuf::from("/f"), time: T0, mode: 0o644 });
    fs.pending.push(PendingOp::Write { path: PathBuf::from("/f"), offset: 0, data: d.to_vec(), time: T0 });
    let r = fs.sync_file(p("/f"));
    assert!(r.is_ok());
    assert!(fs.pending.len() == 1);
    let fd = fs.persisted_files.get(p("/f"));
    assert!(fd.is_some());
    let c = &fd.unwrap().content;
    assert!(c.len() == 2 && c[0] == d[0] && c[1] == d[1]);
    assert!(!fs.synced_entries.contains(p("/f")));
    kani::cover!(true, "reached");
    std::mem::forget(fs);
}

// @verif id=PROBE tier=quick role=probe timeout=900
#[kani::proof]
#[kani::unwind(10)]
fn probe_sync_dir_step() {
    let mut fs = empty(FsConfig::default());
    let d: [u8; 2] = kani::any();
    fs.persisted_files.insert(PathBuf::from("/f"), file_with(&d));
    fs.pending.push(PendingOp::CreateFile { path: PathBuf::from("/f"), time: T0, mode: 0o644 });
    let r = fs.sync_dir(p("/"), T0);
    assert!(r.is_ok());
    assert!(fs.pending.is_empty());
    assert!(fs.synced_entries.contains(p("/f")));
    let c = &fs.persisted_files.get(p("/f")).unwrap().content;
    assert!(c.len() == 2 && c[0] == d[0] && c[1] == d[1]);
    kani::cover!(true, "reached");
    std::mem::forget(fs);
}

// @verif id=PROBE tier=quick role=probe timeout=900
#[kani::proof]
#[kani::unwind(10)]
fn probe_rename_read() {
    let mut fs = empty(FsConfig::default());
    let d: [u8; 2] = kani::any();
    fs.create_file(p("/f"), T0);
    fs.write_file(p("/f"), 0, &d, T0);
    assert!(fs.rename(p("/f"), p("/g")).is_ok());
    assert!(!fs.file_exists(p("/f")) && fs.file_exists(p("/g")));
    let (n, buf) = read2(&fs, p("/g"));
    assert!(n == 2 && buf[0] == d[0] && buf[1] == d[1]);
    assert!(fs.file_len(p("/g")) == 2);
    kani::cover!(n == 2, "reached");
    std::mem::forget(fs);
}
