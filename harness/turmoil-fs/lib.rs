//! Kani harnesses for crates/turmoil-fs/src/lib.rs (the real `Fs`), built against the inline-storage
//! model of std::path (/verif/models/path; DESIGN.md 2.2). Paths are concrete per instance and at
//! most 6 bytes; file contents, offsets inside small ranges and timestamps are symbolic.
use super::*;

fn p(s: &'static str) -> &'static Path {
    Path::new(s)
}

const T0: Duration = Duration::ZERO;

/// rng whose words are symbolic: "for every seed" (rand 0.9 RngCore)
struct AnyRng;
impl RngCore for AnyRng {
    fn next_u32(&mut self) -> u32 {
        kani::any()
    }
    fn next_u64(&mut self) -> u64 {
        kani::any()
    }
    fn fill_bytes(&mut self, dst: &mut [u8]) {
        for b in dst.iter_mut() {
            *b = kani::any();
        }
    }
}

/// An empty filesystem built field by field (same values as `Fs::new`, minus the SmallRng seeding).
fn empty(cfg: FsConfig) -> Fs {
    let mut persisted_dirs = IndexMap::new();
    let mut synced_entries = IndexSet::new();
    persisted_dirs.insert(PathBuf::from("/"), DirData::new(Duration::ZERO));
    synced_entries.insert(PathBuf::from("/"));
    Fs {
        rng: Box::new(AnyRng),
        persisted_files: IndexMap::new(),
        persisted_dirs,
        persisted_symlinks: IndexMap::new(),
        synced_entries,
        pending: Vec::new(),
        open_handles: IndexMap::new(),
        direct_io_fds: indexmap::IndexSet::new(),
        next_fd: SIM_FD_BASE,
        sync_probability: cfg.sync_probability,
        capacity: cfg.capacity,
        io_error_probability: cfg.io_error_probability,
        corruption_probability: cfg.corruption_probability,
        short_read_probability: cfg.short_read_probability,
        direct_io_alignment: cfg.direct_io_alignment,
        block_size: cfg.block_size,
        io_latency: cfg.io_latency,
        page_cache: cfg.page_cache.map(PageCache::new),
    }
}


fn file_with(content: &[u8]) -> FileData {
    let mut fd = FileData::with_mode(T0, 0o644);
    fd.content = content.to_vec();
    fd
}

fn pb(s: &'static str) -> PathBuf {
    PathBuf::from(s)
}

fn read2(fs: &Fs, path: &Path) -> (usize, [u8; 2]) {
    let mut buf = [7u8; 2];
    let n = fs.read_file(path, &mut buf, 0);
    (n, buf)
}

fn write_op(path: &'static str, offset: u64, data: &[u8]) -> PendingOp {
    PendingOp::Write { path: pb(path), offset, data: data.to_vec(), time: T0 }
}
fn create_op(path: &'static str) -> PendingOp {
    PendingOp::CreateFile { path: pb(path), time: T0, mode: 0o644 }
}

// =====================================================================================================
// C10: without a crash the filesystem behaves like a plain in-memory POSIX file tree. Histories of
// 3-5 operations of the real `Fs` on concrete paths, symbolic file contents.

// @verif id=C10 tier=quick role=write_read timeout=900
#[kani::proof]
#[kani::unwind(10)]
fn c10_read_returns_what_was_written() {
    let mut fs = empty(FsConfig::default());
    let f = p("/f");
    fs.create_file(f, T0);
    let d: [u8; 2] = kani::any();
    fs.write_file(f, 0, &d, T0);
    assert!(fs.file_exists(f) && !fs.dir_exists(f) && !fs.file_exists(p("/g")));
    assert!(fs.file_len(f) == 2);
    let (n, buf) = read2(&fs, f);
    assert!(n == 2 && buf[0] == d[0] && buf[1] == d[1]);
    kani::cover!(n == 2, "read reached");
    std::mem::forget(fs);
}

// F-C10-1 (fixed): bytes cut off by a truncation must not come back when the file is extended.
// @verif id=C10 tier=quick role=truncate_extend timeout=900
#[kani::proof]
#[kani::unwind(10)]
fn c10_truncate_then_extend_reads_zeros() {
    let mut fs = empty(FsConfig::default());
    let f = p("/f");
    fs.create_file(f, T0);
    let d: [u8; 2] = kani::any();
    fs.write_file(f, 0, &d, T0);
    fs.set_file_len(f, 0, T0);
    fs.set_file_len(f, 2, T0);
    assert!(fs.file_len(f) == 2);
    let (n, buf) = read2(&fs, f);
    assert!(n == 2);
    assert!(buf[0] == 0 && buf[1] == 0, "bytes cut off by a truncation do not come back when the file is extended");
    kani::cover!(d[0] != 0, "non-zero data was written before the truncation");
    std::mem::forget(fs);
}

// a partial truncation keeps the prefix and only the prefix; the same with the first write already
// synced (persisted) - sync never changes anything observable
fn partial_truncate(synced: bool) {
    let mut fs = empty(FsConfig::default());
    let d: [u8; 2] = kani::any();
    if synced {
        fs.persisted_files.insert(pb("/f"), file_with(&d));
        fs.synced_entries.insert(pb("/f"));
    } else {
        fs.pending.push(create_op("/f"));
        fs.pending.push(write_op("/f", 0, &d));
    }
    let f = p("/f");
    fs.set_file_len(f, 1, T0);
    fs.set_file_len(f, 2, T0);
    assert!(fs.file_len(f) == 2);
    let (n, buf) = read2(&fs, f);
    assert!(n == 2 && buf[0] == d[0], "the kept prefix is unaltered");
    assert!(buf[1] == 0, "the cut-off byte reads as zero after the extension");
    kani::cover!(d[1] != 0, "non-zero cut-off byte");
    std::mem::forget(fs);
}
// @verif id=C10 tier=quick role=truncate_extend timeout=900
#[kani::proof]
#[kani::unwind(10)]
fn c10_partial_truncate_keeps_the_prefix_only_pending_data() {
    partial_truncate(false);
}
// @verif id=C10 tier=quick role=truncate_extend timeout=900
#[kani::proof]
#[kani::unwind(10)]
fn c10_partial_truncate_keeps_the_prefix_only_synced_data() {
    partial_truncate(true);
}

// @verif id=C10 tier=unshipped role=rename timeout=3000 mem=24
#[kani::proof]
#[kani::unwind(10)]
fn c10_rename_moves_the_contents() {
    let mut fs = empty(FsConfig::default());
    let d: [u8; 2] = kani::any();
    fs.create_file(p("/f"), T0);
    fs.write_file(p("/f"), 0, &d, T0);
    assert!(fs.rename(p("/f"), p("/g")).is_ok());
    assert!(!fs.file_exists(p("/f")) && fs.file_exists(p("/g")));
    let (n, buf) = read2(&fs, p("/g"));
    assert!(n == 2 && buf[0] == d[0] && buf[1] == d[1]);
    assert!(fs.file_len(p("/g")) == 2);
    assert!(fs.rename(p("/x"), p("/y")).is_err(), "renaming what does not exist fails");
    kani::cover!(n == 2, "reached");
    std::mem::forget(fs);
}

fn later_write_wins(synced: bool, fixed_off: Option<u64>) {
    let mut fs = empty(FsConfig::default());
    let d: [u8; 2] = kani::any();
    let c: [u8; 1] = kani::any();
    if synced {
        fs.persisted_files.insert(pb("/f"), file_with(&d));
        fs.synced_entries.insert(pb("/f"));
    } else {
        fs.pending.push(create_op("/f"));
        fs.pending.push(write_op("/f", 0, &d));
    }
    let off: u64 = match fixed_off {
        Some(o) => o,
        None => kani::any(),
    };
    kani::assume(off <= 2);
    fs.write_file(p("/f"), off, &c, T0);
    let want_len = if off == 2 { 3 } else { 2 };
    assert!(fs.file_len(p("/f")) == want_len);
    let mut buf = [7u8; 3];
    let n = fs.read_file(p("/f"), &mut buf, 0);
    assert!(n as u64 == want_len);
    let want = [if off == 0 { c[0] } else { d[0] }, if off == 1 { c[0] } else { d[1] }, c[0]];
    assert!(buf[0] == want[0] && buf[1] == want[1] && (off != 2 || buf[2] == want[2]));
    if synced {
        // a read at an offset returns the tail; a read past the end returns nothing (with three
        // pending operations these two extra reads ran out of memory at 8 GB, measured)
        let mut b1 = [7u8; 1];
        assert!(fs.read_file(p("/f"), &mut b1, 1) == 1 && b1[0] == want[1]);
        assert!(fs.read_file(p("/f"), &mut b1, want_len) == 0);
    }
    kani::cover!(n as u64 == want_len, "reached");
    std::mem::forget(fs);
}
// three pending operations with a symbolic offset ran out of memory at 8 GB (measured): the offset
// is concrete per instance for pending data and symbolic over persisted data
// @verif id=C10 tier=quick role=overlay timeout=900
#[kani::proof]
#[kani::unwind(10)]
fn c10_later_write_wins_over_pending_data_overwrite() {
    later_write_wins(false, Some(1));
}
// @verif id=C10 tier=quick role=overlay timeout=900
#[kani::proof]
#[kani::unwind(10)]
fn c10_later_write_wins_over_pending_data_append() {
    later_write_wins(false, Some(2));
}
// @verif id=C10 tier=unshipped role=overlay timeout=3000 mem=24
#[kani::proof]
#[kani::unwind(10)]
fn c10_later_write_wins_over_pending_data_any_offset() {
    later_write_wins(false, None);
}
// @verif id=C10 tier=quick role=overlay timeout=900
#[kani::proof]
#[kani::unwind(10)]
fn c10_later_write_wins_over_synced_data() {
    later_write_wins(true, None);
}

// the cut of a truncation may lie BELOW the offset a later read starts at
// @verif id=C10 tier=quick role=truncate_extend timeout=900
#[kani::proof]
#[kani::unwind(10)]
fn c10_truncate_then_extend_reads_zeros_beyond_the_cut_at_an_offset() {
    let mut fs = empty(FsConfig::default());
    let d: [u8; 2] = kani::any();
    fs.persisted_files.insert(pb("/f"), file_with(&d));
    fs.synced_entries.insert(pb("/f"));
    let f = p("/f");
    fs.set_file_len(f, 0, T0);
    fs.set_file_len(f, 2, T0);
    let mut b1 = [7u8; 1];
    let n = fs.read_file(f, &mut b1, 1);
    assert!(n == 1 && b1[0] == 0, "a read that starts beyond the cut sees zeros");
    kani::cover!(d[1] != 0, "non-zero byte was cut off");
    std::mem::forget(fs);
}

// a chain of renames (none of them synced) keeps length and contents under the final name
// @verif id=C10 tier=quick role=rename_chain timeout=900
#[kani::proof]
#[kani::unwind(10)]
fn c10_rename_chain_keeps_the_contents() {
    let mut fs = empty(FsConfig::default());
    let d: [u8; 2] = kani::any();
    fs.persisted_files.insert(pb("/f"), file_with(&d));
    fs.synced_entries.insert(pb("/f"));
    fs.pending.push(PendingOp::Rename { from: pb("/f"), to: pb("/g") });
    fs.pending.push(PendingOp::Rename { from: pb("/g"), to: pb("/h") });
    assert!(fs.file_exists(p("/h")) && !fs.file_exists(p("/f")) && !fs.file_exists(p("/g")));
    assert!(fs.file_len(p("/h")) == 2);
    let (n, buf) = read2(&fs, p("/h"));
    assert!(n == 2 && buf[0] == d[0] && buf[1] == d[1]);
    kani::cover!(n == 2, "reached");
    std::mem::forget(fs);
}

// a file that is removed and created again under the same name is a NEW, empty file (the history
// create, write, unlink, create is written into the pending log directly - exactly what the four
// calls push - because four calls plus the queries ran out of memory at 8 GB, measured)
// @verif id=C10 tier=quick role=recreate timeout=900
#[kani::proof]
#[kani::unwind(10)]
fn c10_recreated_file_is_empty() {
    let mut fs = empty(FsConfig::default());
    let d: [u8; 2] = kani::any();
    let f = p("/f");
    fs.pending.push(create_op("/f"));
    fs.pending.push(write_op("/f", 0, &d));
    fs.pending.push(PendingOp::RemoveFile { path: pb("/f") });
    fs.pending.push(create_op("/f"));
    assert!(fs.file_exists(f));
    assert!(fs.file_len(f) == 0, "a re-created file does not inherit the removed file's data");
    let (n, _buf) = read2(&fs, f);
    assert!(n == 0);
    kani::cover!(true, "reached");
    std::mem::forget(fs);
}

// @verif id=C10 tier=quick role=unlink timeout=900 mem=12
#[kani::proof]
#[kani::unwind(10)]
fn c10_unlink_removes_and_fails_on_missing_names() {
    let mut fs = empty(FsConfig::default());
    let d: [u8; 2] = kani::any();
    let f = p("/f");
    fs.pending.push(create_op("/f"));
    fs.pending.push(write_op("/f", 0, &d));
    // (a third call - removing it twice - ran out of memory at 8 GB, measured)
    assert!(fs.unlink(p("/g")).is_err(), "removing what does not exist fails");
    assert!(fs.unlink(f).is_ok());
    assert!(!fs.file_exists(f));
    kani::cover!(true, "reached");
    std::mem::forget(fs);
}

// @verif id=C10 tier=quick role=dirs timeout=900
#[kani::proof]
#[kani::unwind(10)]
fn c10_mkdir_needs_its_parent_and_a_free_name() {
    let mut fs = empty(FsConfig::default());
    assert!(fs.dir_exists(p("/")) && !fs.dir_exists(p("/d")));
    assert!(fs.mkdir(p("/d/e"), T0).is_err(), "parent must exist");
    assert!(fs.mkdir(p("/d"), T0).is_ok());
    assert!(fs.dir_exists(p("/d")) && !fs.file_exists(p("/d")));
    assert!(fs.mkdir(p("/d"), T0).is_err(), "already exists");
    assert!(fs.parent_exists(p("/d/f")) && !fs.parent_exists(p("/x/f")));
    kani::cover!(true, "reached");
    std::mem::forget(fs);
}

// (out of memory at 8 GB after 572 s, measured: thorough tier)
// @verif id=C10 tier=unshipped role=dirs timeout=3000 mem=24
#[kani::proof]
#[kani::unwind(10)]
fn c10_rmdir_needs_an_empty_directory() {
    let mut fs = empty(FsConfig::default());
    fs.pending.push(PendingOp::CreateDir { path: pb("/d"), time: T0, mode: 0o755 });
    fs.pending.push(create_op("/d/f"));
    assert!(fs.rmdir(p("/d")).is_err(), "not empty");
    assert!(fs.rmdir(p("/x")).is_err(), "no such directory");
    fs.pending.push(PendingOp::RemoveFile { path: pb("/d/f") });
    assert!(fs.rmdir(p("/d")).is_ok());
    assert!(!fs.dir_exists(p("/d")) && fs.dir_exists(p("/")));
    kani::cover!(true, "reached");
    std::mem::forget(fs);
}

// sync operations never change anything observable
fn sync_invisible(which: u8) {
    let mut fs = empty(FsConfig::default());
    let d: [u8; 2] = kani::any();
    fs.pending.push(create_op("/f"));
    fs.pending.push(write_op("/f", 0, &d));
    let r = match which {
        0 => fs.sync_file(p("/f")),
        1 => fs.sync_file_data(p("/f")),
        _ => fs.sync_dir(p("/"), T0),
    };
    assert!(r.is_ok());
    assert!(fs.file_exists(p("/f")) && fs.file_len(p("/f")) == 2);
    let (n, buf) = read2(&fs, p("/f"));
    assert!(n == 2 && buf[0] == d[0] && buf[1] == d[1]);
    kani::cover!(n == 2, "reached");
    std::mem::forget(fs);
}
// @verif id=C10 tier=unshipped role=sync_invisible timeout=3000 mem=24
#[kani::proof]
#[kani::unwind(10)]
fn c10_sync_all_changes_nothing_observable() {
    sync_invisible(0);
}
// @verif id=C10 tier=unshipped role=sync_invisible timeout=3000 mem=24
#[kani::proof]
#[kani::unwind(10)]
fn c10_sync_data_changes_nothing_observable() {
    sync_invisible(1);
}
// @verif id=C10 tier=unshipped role=sync_invisible timeout=3000 mem=24
#[kani::proof]
#[kani::unwind(10)]
fn c10_directory_sync_changes_nothing_observable() {
    sync_invisible(2);
}

// =====================================================================================================
// C07: after a crash the filesystem holds exactly what was made durable. Inductive-step style: the
// pre-state (persisted inodes, durable entries, pending log) is written directly, ONE of crash /
// sync_file / sync_data / sync_dir runs, and the durable image is compared with the model.

/// pre-state: /f durable (inode + entry) with content ab; /g inode durable but its entry is not
/// (orphan); plus one pending, unsynced operation `op`.
fn durable_f_orphan_g(ab: &[u8; 2], xy: &[u8; 2], cfg: FsConfig) -> Fs {
    let mut fs = empty(cfg);
    fs.persisted_files.insert(pb("/f"), file_with(ab));
    fs.persisted_files.insert(pb("/g"), file_with(xy));
    fs.synced_entries.insert(pb("/f"));
    fs
}

fn crash_rolls_back(which: u8) {
    let ab: [u8; 2] = kani::any();
    let xy: [u8; 2] = kani::any();
    let mut fs = durable_f_orphan_g(&ab, &xy, FsConfig::default());
    match which {
        0 => {
            fs.pending.push(write_op("/f", 0, &xy));
            fs.pending.push(create_op("/h"));
        }
        1 => fs.pending.push(PendingOp::Rename { from: pb("/f"), to: pb("/h") }),
        2 => fs.pending.push(PendingOp::RemoveFile { path: pb("/f") }),
        3 => fs.pending.push(PendingOp::SetLen { path: pb("/f"), len: 0, time: T0 }),
        _ => {
            fs.pending.push(PendingOp::CreateDir { path: pb("/d"), time: T0, mode: 0o755 });
            fs.pending.push(create_op("/d/f"));
        }
    }
    fs.crash();
    assert!(fs.pending.is_empty());
    assert!(fs.file_exists(p("/f")), "a durable file survives");
    assert!(!fs.file_exists(p("/g")), "an inode whose entry was never made durable is gone");
    assert!(!fs.file_exists(p("/h")) && !fs.dir_exists(p("/d")) && !fs.file_exists(p("/d/f")),
            "unsynced creates / renames are rolled back");
    assert!(fs.dir_exists(p("/")));
    assert!(fs.file_len(p("/f")) == 2);
    let (n, buf) = read2(&fs, p("/f"));
    assert!(n == 2 && buf[0] == ab[0] && buf[1] == ab[1], "contents are those of the last data sync");
    assert!(fs.persisted_files.len() == 1 && fs.persisted_dirs.len() == 1);
    std::mem::forget(fs);
}
// @verif id=C07 tier=quick role=crash_step timeout=900
#[kani::proof]
#[kani::unwind(10)]
fn c07_crash_rolls_back_unsynced_write_and_create() {
    crash_rolls_back(0);
    kani::cover!(true, "reached");
}
// @verif id=C07 tier=quick role=crash_step timeout=900
#[kani::proof]
#[kani::unwind(10)]
fn c07_crash_rolls_back_unsynced_rename() {
    crash_rolls_back(1);
    kani::cover!(true, "reached");
}
// @verif id=C07 tier=quick role=crash_step timeout=900
#[kani::proof]
#[kani::unwind(10)]
fn c07_crash_rolls_back_unsynced_remove() {
    crash_rolls_back(2);
    kani::cover!(true, "reached");
}
// @verif id=C07 tier=quick role=crash_step timeout=900
#[kani::proof]
#[kani::unwind(10)]
fn c07_crash_rolls_back_unsynced_truncate() {
    crash_rolls_back(3);
    kani::cover!(true, "reached");
}
// @verif id=C07 tier=quick role=crash_step timeout=900
#[kani::proof]
#[kani::unwind(10)]
fn c07_crash_rolls_back_unsynced_directory_tree() {
    crash_rolls_back(4);
    kani::cover!(true, "reached");
}

// torn writes (block size 1): after the crash the file holds a block-aligned prefix of the pending
// write laid over the durable contents. With a SYMBOLIC rng word the number of surviving bytes is
// symbolic and `data[..n].to_vec()` becomes a symbolic-length allocation + copy: no verdict in 900 s
// at 8 GB (measured) - that instance is in the thorough tier; the quick tier fixes the rng word per
// instance (one word per outcome: no block, one block, both blocks) and keeps the contents symbolic.
struct ConstRng(u64);
impl RngCore for ConstRng {
    fn next_u32(&mut self) -> u32 {
        (self.0 >> 32) as u32
    }
    fn next_u64(&mut self) -> u64 {
        self.0
    }
    fn fill_bytes(&mut self, dst: &mut [u8]) {
        for b in dst.iter_mut() {
            *b = self.0 as u8;
        }
    }
}

fn torn_write(word: Option<u64>) -> u8 {
    let ab: [u8; 2] = kani::any();
    let xy: [u8; 2] = kani::any();
    kani::assume(ab[0] != xy[0] && ab[1] != xy[1]); // so that the outcomes can be told apart
    let mut cfg = FsConfig::default();
    cfg.block_size = Some(1);
    let mut fs = durable_f_orphan_g(&ab, &xy, cfg);
    if let Some(w) = word {
        fs.rng = Box::new(ConstRng(w));
    }
    fs.pending.push(write_op("/f", 0, &xy));
    fs.pending.push(write_op("/g", 0, &ab));
    fs.crash();
    assert!(fs.pending.is_empty() && fs.file_exists(p("/f")) && !fs.file_exists(p("/g")));
    assert!(fs.file_len(p("/f")) == 2, "a torn overwrite never changes the length");
    let (n, buf) = read2(&fs, p("/f"));
    assert!(n == 2);
    let k0 = buf[0] == ab[0] && buf[1] == ab[1];
    let k1 = buf[0] == xy[0] && buf[1] == ab[1];
    let k2 = buf[0] == xy[0] && buf[1] == xy[1];
    assert!(k0 || k1 || k2, "durable contents overlaid with 0, 1 or 2 whole blocks of the pending write");
    std::mem::forget(fs);
    if k0 { 0 } else if k1 { 1 } else { 2 }
}
// @verif id=C07 tier=quick role=torn_write timeout=900
#[kani::proof]
#[kani::unwind(10)]
fn c07_torn_write_rng_word_zero() {
    let k = torn_write(Some(0));
    kani::cover!(k == 0, "no block survived");
}
// (no verdict after 500 s at 5.7 GB, measured: thorough tier)
// @verif id=C07 tier=unshipped role=torn_write timeout=3000 mem=24
#[kani::proof]
#[kani::unwind(10)]
fn c07_torn_write_rng_word_middle() {
    let k = torn_write(Some(u64::MAX / 2));
    kani::cover!(k == 1, "exactly one block survived");
}
// (no verdict after 500 s at 5.7 GB, measured: thorough tier)
// @verif id=C07 tier=unshipped role=torn_write timeout=3000 mem=24
#[kani::proof]
#[kani::unwind(10)]
fn c07_torn_write_rng_word_max() {
    let k = torn_write(Some(u64::MAX));
    kani::cover!(k == 2, "both blocks survived");
}
// @verif id=C07 tier=unshipped role=torn_write timeout=3000 mem=24
#[kani::proof]
#[kani::unwind(10)]
fn c07_torn_write_leaves_a_block_aligned_prefix_for_every_rng_word() {
    let k = torn_write(None);
    kani::cover!(k == 0, "no block survived");
    kani::cover!(k == 1, "exactly one block survived");
    kani::cover!(k == 2, "both blocks survived");
}

// sync_all / sync_data make the DATA durable, not the directory entry: a crash right afterwards
// loses the never-synced entry; with the entry durable the synced data is what survives
fn file_sync_step(data_only: bool) {
    let mut fs = empty(FsConfig::default());
    let d: [u8; 2] = kani::any();
    fs.pending.push(create_op("/f"));
    fs.pending.push(write_op("/f", 0, &d));
    let r = if data_only { fs.sync_file_data(p("/f")) } else { fs.sync_file(p("/f")) };
    assert!(r.is_ok());
    {
        let fd = fs.persisted_files.get(p("/f"));
        assert!(fd.is_some());
        let c = &fd.unwrap().content;
        assert!(c.len() == 2 && c[0] == d[0] && c[1] == d[1], "the synced data is durable");
    }
    assert!(!fs.synced_entries.contains(p("/f")));
    fs.crash();
    assert!(!fs.file_exists(p("/f")), "the entry was never made durable");
    kani::cover!(true, "reached");
    std::mem::forget(fs);
}
// @verif id=C07 tier=unshipped role=sync_file_step timeout=3000 mem=24
#[kani::proof]
#[kani::unwind(10)]
fn c07_sync_all_makes_data_durable_but_not_the_entry() {
    file_sync_step(false);
}
// @verif id=C07 tier=unshipped role=sync_file_step timeout=3000 mem=24
#[kani::proof]
#[kani::unwind(10)]
fn c07_sync_data_makes_data_durable_but_not_the_entry() {
    file_sync_step(true);
}

// @verif id=C07 tier=unshipped role=sync_file_step timeout=3000 mem=24
#[kani::proof]
#[kani::unwind(10)]
fn c07_synced_data_survives_and_later_writes_do_not() {
    let ab: [u8; 2] = kani::any();
    let xy: [u8; 2] = kani::any();
    let z: [u8; 1] = kani::any();
    let mut fs = durable_f_orphan_g(&ab, &xy, FsConfig::default());
    fs.pending.push(write_op("/f", 0, &xy));
    assert!(fs.sync_file(p("/f")).is_ok());
    fs.pending.push(write_op("/f", 1, &z));
    fs.crash();
    assert!(fs.file_exists(p("/f")) && fs.file_len(p("/f")) == 2);
    let (n, buf) = read2(&fs, p("/f"));
    assert!(n == 2 && buf[0] == xy[0] && buf[1] == xy[1], "contents at the last data sync");
    kani::cover!(z[0] != xy[1], "the lost write differed");
    std::mem::forget(fs);
}

// syncing the parent directory makes entries durable: creation, removal and rename
// @verif id=C07 tier=unshipped role=sync_dir_step timeout=3000 mem=24
#[kani::proof]
#[kani::unwind(10)]
fn c07_directory_sync_makes_a_created_entry_durable() {
    let mut fs = empty(FsConfig::default());
    let d: [u8; 2] = kani::any();
    fs.persisted_files.insert(pb("/f"), file_with(&d)); // data already synced
    fs.pending.push(create_op("/f"));
    fs.pending.push(create_op("/d/x")); // another directory's entry: not covered by this sync
    assert!(fs.sync_dir(p("/"), T0).is_ok());
    assert!(fs.synced_entries.contains(p("/f")) && !fs.synced_entries.contains(p("/d/x")));
    assert!(fs.pending.len() == 1);
    fs.crash();
    assert!(fs.file_exists(p("/f")) && !fs.file_exists(p("/d/x")));
    let (n, buf) = read2(&fs, p("/f"));
    assert!(n == 2 && buf[0] == d[0] && buf[1] == d[1]);
    kani::cover!(true, "reached");
    std::mem::forget(fs);
}

fn dir_sync_step(rename: bool) {
    let ab: [u8; 2] = kani::any();
    let xy: [u8; 2] = kani::any();
    let mut fs = durable_f_orphan_g(&ab, &xy, FsConfig::default());
    if rename {
        fs.pending.push(PendingOp::Rename { from: pb("/f"), to: pb("/h") });
    } else {
        fs.pending.push(PendingOp::RemoveFile { path: pb("/f") });
    }
    assert!(fs.sync_dir(p("/"), T0).is_ok());
    fs.crash();
    assert!(!fs.file_exists(p("/f")), "durably removed / renamed away");
    assert!(fs.file_exists(p("/h")) == rename);
    if rename {
        let (n, buf) = read2(&fs, p("/h"));
        assert!(n == 2 && buf[0] == ab[0] && buf[1] == ab[1], "the renamed file keeps its durable contents");
    }
    kani::cover!(true, "reached");
    std::mem::forget(fs);
}
// @verif id=C07 tier=unshipped role=sync_dir_step timeout=3000 mem=24
#[kani::proof]
#[kani::unwind(10)]
fn c07_directory_sync_makes_a_rename_durable() {
    dir_sync_step(true);
}
// @verif id=C07 tier=unshipped role=sync_dir_step timeout=3000 mem=24
#[kani::proof]
#[kani::unwind(10)]
fn c07_directory_sync_makes_a_remove_durable() {
    dir_sync_step(false);
}

// sync steps with ONE pending operation (two pending operations had no verdict, see above)
// @verif id=C07 tier=unshipped role=sync_file_step timeout=1200 mem=16
#[kani::proof]
#[kani::unwind(10)]
fn c07_sync_all_makes_one_pending_write_durable() {
    let ab: [u8; 2] = kani::any();
    let xy: [u8; 2] = kani::any();
    let mut fs = durable_f_orphan_g(&ab, &xy, FsConfig::default());
    fs.pending.push(write_op("/f", 0, &xy));
    assert!(fs.sync_file(p("/f")).is_ok());
    assert!(fs.pending.is_empty());
    fs.crash();
    assert!(fs.file_exists(p("/f")) && fs.file_len(p("/f")) == 2);
    let (n, buf) = read2(&fs, p("/f"));
    assert!(n == 2 && buf[0] == xy[0] && buf[1] == xy[1], "contents at the last data sync");
    kani::cover!(n == 2, "reached");
    std::mem::forget(fs);
}

// @verif id=C07 tier=unshipped role=sync_dir_step timeout=1200 mem=16
#[kani::proof]
#[kani::unwind(10)]
fn c07_directory_sync_makes_one_created_entry_durable() {
    let mut fs = empty(FsConfig::default());
    let d: [u8; 2] = kani::any();
    fs.persisted_files.insert(pb("/f"), file_with(&d)); // data already synced
    fs.pending.push(create_op("/f"));
    assert!(fs.sync_dir(p("/"), T0).is_ok());
    assert!(fs.synced_entries.contains(p("/f")) && fs.pending.is_empty());
    fs.crash();
    assert!(fs.file_exists(p("/f")));
    let (n, buf) = read2(&fs, p("/f"));
    assert!(n == 2 && buf[0] == d[0] && buf[1] == d[1]);
    kani::cover!(n == 2, "reached");
    std::mem::forget(fs);
}

// a durable directory tree survives the crash together with its durable file; the unsynced removal of
// both is rolled back
// @verif id=C07 tier=quick role=crash_step timeout=900
#[kani::proof]
#[kani::unwind(10)]
fn c07_crash_keeps_a_durable_directory_tree() {
    let ab: [u8; 2] = kani::any();
    let mut fs = empty(FsConfig::default());
    fs.persisted_dirs.insert(pb("/d"), DirData::new(T0));
    fs.synced_entries.insert(pb("/d"));
    fs.persisted_files.insert(pb("/d/f"), file_with(&ab));
    fs.synced_entries.insert(pb("/d/f"));
    fs.pending.push(PendingOp::RemoveFile { path: pb("/d/f") });
    fs.pending.push(PendingOp::RemoveDir { path: pb("/d") });
    assert!(!fs.file_exists(p("/d/f")) && !fs.dir_exists(p("/d")), "before the crash the removals are visible");
    fs.crash();
    assert!(fs.pending.is_empty());
    assert!(fs.dir_exists(p("/d")) && fs.dir_exists(p("/")) && fs.file_exists(p("/d/f")), "unsynced removals are rolled back");
    let (n, buf) = read2(&fs, p("/d/f"));
    assert!(n == 2 && buf[0] == ab[0] && buf[1] == ab[1]);
    assert!(fs.persisted_files.len() == 1 && fs.persisted_dirs.len() == 2);
    kani::cover!(n == 2, "reached");
    std::mem::forget(fs);
}
