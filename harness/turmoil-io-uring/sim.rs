//! Kani harnesses for crates/turmoil-io-uring/src/sim.rs (RingState accounting; child module).
//! The crate is built against the REAL tokio; `Notify::notify_waiters` (wake-up plumbing of the
//! AsyncFd shim, not part of the completion accounting) is stubbed to a no-op.
use super::*;

pub(crate) fn stub_notify_waiters(_n: &Notify) {}

struct SymRng;
impl RngCore for SymRng {
    fn next_u32(&mut self) -> u32 {
        kani::any()
    }
    fn next_u64(&mut self) -> u64 {
        kani::any()
    }
    fn fill_bytes(&mut self, d: &mut [u8]) {
        for b in d {
            *b = kani::any();
        }
    }
}

fn ms(x: u8) -> Duration {
    Duration::new(0, x as u32 * 1_000_000)
}
fn err_of(c: &ScheduledCqe) -> Option<i32> {
    match c.apply {
        PendingApply::ImmediateError(e) => Some(e),
        _ => None,
    }
}
/// how many entries with this user_data are anywhere in the ring
fn count(r: &RingState, ud: u64) -> usize {
    r.inflight.iter().filter(|s| s.user_data == ud).count() + r.ready.iter().filter(|s| s.user_data == ud).count()
}

/// Ring with two in-flight fsyncs (user data 1, 2; symbolic completion instants) and one matured
/// completion (user data 3) waiting in the ready queue.
fn ring(w1: u8, w2: u8) -> RingState {
    let mut r = RingState::new(4);
    r.inflight.push(ScheduledCqe { when: ms(w1), user_data: 1, apply: PendingApply::Fsync { fd: 7 } });
    r.inflight.push(ScheduledCqe { when: ms(w2), user_data: 2, apply: PendingApply::Fsync { fd: 7 } });
    r.ready.push_back(ScheduledCqe { when: ms(0), user_data: 3, apply: PendingApply::Fsync { fd: 7 } });
    r
}

// cancel(c, t): if an operation with user data t is anywhere in the ring (in flight OR already
// matured) it is removed WITHOUT being executed and replaced by exactly one -ECANCELED completion
// for t plus one 0 completion for c, both due now; otherwise exactly one -ENOENT completion for c.
// Every other entry stays exactly once.
fn cancel_step(target: u64) -> bool {
    // the cancelled user_data is concrete per instance (it is the key of a position() search followed
    // by a removal at that index); completion instants and `now` are symbolic
    let mut r = ring(kani::any(), kani::any());
    let now = ms(kani::any());
    r.cancel(9, target, now);
    let found = target <= 3;
    let total = r.inflight.len() + r.ready.len();
    assert!(total == if found { 4 } else { 4 }, "3 - 1 + 2 when found, 3 + 1 otherwise");
    assert!(count(&r, 9) == 1, "the cancel itself completes exactly once");
    let mut ud = 1u64;
    while ud <= 3 {
        assert!(count(&r, ud) == 1, "every submission still has exactly one pending completion");
        ud += 1;
    }
    // the target's remaining entry is the cancellation error, due now; it is never an executable op
    let mut i = 0;
    while i < r.inflight.len() {
        let c = &r.inflight[i];
        if c.user_data == target {
            assert!(err_of(c) == Some(-ECANCELED) && c.when == now, "cancelled op completes with ECANCELED and is not executed");
        }
        if c.user_data == 9 {
            assert!(err_of(c) == Some(if found { 0 } else { -ENOENT }) && c.when == now);
        }
        i += 1;
    }
    let mut j = 0;
    while j < r.ready.len() {
        assert!(r.ready[j].user_data != target, "a matured target must not stay executable in the ready queue");
        j += 1;
    }
    std::mem::forget(r);
    found
}
// @verif id=C18 tier=quick role=ring_cancel timeout=900 desc=target-in-flight
#[kani::proof]
#[kani::unwind(8)]
#[kani::stub(tokio::sync::Notify::notify_waiters, stub_notify_waiters)]
#[kani::stub(std::collections::VecDeque::remove, crate::verif_common::vecdeque_remove_stub)]
#[kani::stub(std::collections::VecDeque::swap_remove_back, crate::verif_common::vecdeque_swap_remove_back_stub)]
#[kani::stub(std::collections::VecDeque::swap_remove_front, crate::verif_common::vecdeque_swap_remove_front_stub)]
fn c18_cancel_in_flight_operation() {
    let found = cancel_step(1);
    kani::cover!(found, "target in flight");
}
// @verif id=C18 tier=quick role=ring_cancel timeout=900 desc=target-already-matured
#[kani::proof]
#[kani::unwind(8)]
#[kani::stub(tokio::sync::Notify::notify_waiters, stub_notify_waiters)]
#[kani::stub(std::collections::VecDeque::remove, crate::verif_common::vecdeque_remove_stub)]
#[kani::stub(std::collections::VecDeque::swap_remove_back, crate::verif_common::vecdeque_swap_remove_back_stub)]
#[kani::stub(std::collections::VecDeque::swap_remove_front, crate::verif_common::vecdeque_swap_remove_front_stub)]
fn c18_cancel_matured_operation() {
    let found = cancel_step(3);
    kani::cover!(found, "target had already matured");
}
// @verif id=C18 tier=quick role=ring_cancel timeout=900 desc=no-such-operation
#[kani::proof]
#[kani::unwind(8)]
#[kani::stub(tokio::sync::Notify::notify_waiters, stub_notify_waiters)]
#[kani::stub(std::collections::VecDeque::remove, crate::verif_common::vecdeque_remove_stub)]
#[kani::stub(std::collections::VecDeque::swap_remove_back, crate::verif_common::vecdeque_swap_remove_back_stub)]
#[kani::stub(std::collections::VecDeque::swap_remove_front, crate::verif_common::vecdeque_swap_remove_front_stub)]
fn c18_cancel_unknown_operation() {
    let found = cancel_step(4);
    kani::cover!(!found, "no such operation");
}

// Two outstanding operations that SHARE a user_data, one still in flight and one already matured:
// a cancel of that user_data cancels exactly ONE of them (one -ECANCELED completion); the other keeps
// its own, still executable, completion - exactly one completion per submission, none lost.
// @verif id=C18 tier=quick role=ring_cancel timeout=900 desc=duplicate-user_data(in-flight+matured)
#[kani::proof]
#[kani::unwind(8)]
#[kani::stub(tokio::sync::Notify::notify_waiters, stub_notify_waiters)]
#[kani::stub(std::collections::VecDeque::remove, crate::verif_common::vecdeque_remove_stub)]
#[kani::stub(std::collections::VecDeque::swap_remove_back, crate::verif_common::vecdeque_swap_remove_back_stub)]
#[kani::stub(std::collections::VecDeque::swap_remove_front, crate::verif_common::vecdeque_swap_remove_front_stub)]
fn c18_cancel_with_duplicate_user_data_cancels_one() {
    let mut r = RingState::new(4);
    r.inflight.push(ScheduledCqe { when: ms(kani::any()), user_data: 1, apply: PendingApply::Fsync { fd: 7 } });
    r.inflight.push(ScheduledCqe { when: ms(kani::any()), user_data: 2, apply: PendingApply::Fsync { fd: 7 } });
    r.ready.push_back(ScheduledCqe { when: ms(0), user_data: 1, apply: PendingApply::Fsync { fd: 8 } });
    let now = ms(kani::any());
    r.cancel(9, 1, now);
    assert!(count(&r, 9) == 1 && count(&r, 2) == 1);
    assert!(count(&r, 1) == 2, "two submissions, two completions: the one that was not cancelled is not lost");
    let mut cancelled = 0;
    let mut executable = 0;
    let mut i = 0;
    while i < r.inflight.len() {
        let c = &r.inflight[i];
        if c.user_data == 1 {
            if err_of(c) == Some(-ECANCELED) { cancelled += 1; } else { executable += 1; }
        }
        if c.user_data == 9 {
            assert!(err_of(c) == Some(0));
        }
        i += 1;
    }
    let mut j = 0;
    while j < r.ready.len() {
        let c = &r.ready[j];
        if c.user_data == 1 {
            if err_of(c) == Some(-ECANCELED) { cancelled += 1; } else { executable += 1; }
        }
        j += 1;
    }
    assert!(cancelled == 1 && executable == 1, "exactly one of the two is cancelled");
    kani::cover!(cancelled == 1, "one cancelled, one kept");
    std::mem::forget(r);
}

// pop_ready(now): yields a completion iff one is visible (already matured, or in flight with
// when <= now); never one whose instant is still in the future; removes exactly the yielded entry;
// ready_cq_count(now) equals the number of completions that can be drained at `now`; whatever the
// shuffle (symbolic rng), nothing is lost or duplicated.
fn pop_step(w1: u8, w2: u8, now_ms: u8, have_ready: bool) -> usize {
    // completion instants and `now` are concrete per instance (symbolic instants make the promotion
    // list symbolic-length: 170 s of symex, then out of memory); the shuffle rng is symbolic
    let (due1, due2) = (w1 <= now_ms, w2 <= now_ms);
    let mut r = ring(w1, w2);
    if !have_ready {
        let x = r.ready.pop_front();
        std::mem::forget(x);
    }
    let now = ms(now_ms);
    let due = due1 as usize + due2 as usize + have_ready as usize;
    assert!(r.ready_cq_count(now) == due, "count of visible completions");
    let mut rng = SymRng;
    let mut seen = [0u8; 4];
    let mut popped = 0;
    // exactly `due` pops must succeed, the next one must not (concrete trip count)
    while popped < due {
        match r.pop_ready(now, &mut rng) {
            Some(c) => {
                assert!(c.user_data >= 1 && c.user_data <= 3);
                seen[c.user_data as usize] += 1;
                if c.user_data == 1 {
                    assert!(w1 <= now_ms, "not visible before its latency elapsed");
                }
                if c.user_data == 2 {
                    assert!(w2 <= now_ms);
                }
                std::mem::forget(c);
            }
            None => panic!("a visible completion was not yielded"),
        }
        popped += 1;
    }
    let extra = r.pop_ready(now, &mut rng);
    assert!(extra.is_none(), "nothing beyond the visible completions is yielded");
    std::mem::forget(extra);
    assert!(popped == due, "every visible completion is yielded, nothing else");
    assert!(seen[1] <= 1 && seen[2] <= 1 && seen[3] <= 1, "each exactly once");
    assert!(r.inflight.len() + r.ready.len() == 3 - (!have_ready as usize) - due, "the rest stays pending");
    assert!(r.ready_cq_count(now) == 0);
    std::mem::forget(r);
    due
}
// @verif id=C18 tier=quick role=ring_pop timeout=900 desc=one-matured-one-in-flight-one-ready
#[kani::proof]
#[kani::unwind(8)]
#[kani::stub(tokio::sync::Notify::notify_waiters, stub_notify_waiters)]
fn c18_pop_ready_one_matured_one_pending() {
    let due = pop_step(2, 7, 4, true);
    kani::cover!(due == 2, "two drained, one stays");
}
// @verif id=C18 tier=quick role=ring_pop timeout=900 desc=nothing-visible
#[kani::proof]
#[kani::unwind(8)]
#[kani::stub(tokio::sync::Notify::notify_waiters, stub_notify_waiters)]
fn c18_pop_ready_nothing_before_latency_elapsed() {
    let due = pop_step(2, 7, 1, false);
    kani::cover!(due == 0, "nothing visible yet");
}
// @verif id=C18 tier=thorough role=ring_pop timeout=1800 mem=16 desc=both-matured(shuffled)
#[kani::proof]
#[kani::unwind(8)]
#[kani::stub(tokio::sync::Notify::notify_waiters, stub_notify_waiters)]
fn c18_pop_ready_two_matured_shuffled() {
    let due = pop_step(2, 7, 7, true);
    kani::cover!(due == 3, "all three drained");
}

// @verif id=C18 tier=thorough role=ring_pop timeout=1800 mem=16 desc=first-in-flight-due-exactly-now,no-ready
#[kani::proof]
#[kani::unwind(8)]
#[kani::stub(tokio::sync::Notify::notify_waiters, stub_notify_waiters)]
fn c18_pop_ready_completion_visible_at_exactly_its_instant() {
    let due = pop_step(4, 9, 4, false);
    kani::cover!(due == 1, "visible at its own instant, the later one is not");
}
// @verif id=C18 tier=thorough role=ring_pop timeout=1800 mem=16 desc=second-in-flight-due-first
#[kani::proof]
#[kani::unwind(8)]
#[kani::stub(tokio::sync::Notify::notify_waiters, stub_notify_waiters)]
fn c18_pop_ready_later_submission_matures_first() {
    let due = pop_step(9, 3, 5, true);
    kani::cover!(due == 2, "the ready one and the second submission");
}

// @verif id=C18 tier=quick role=ring_schedule timeout=900
#[kani::proof]
#[kani::unwind(8)]
#[kani::stub(tokio::sync::Notify::notify_waiters, stub_notify_waiters)]
fn c18_schedule_adds_exactly_one_completion_at_its_instant() {
    let mut r = ring(kani::any(), kani::any());
    let when = ms(kani::any());
    let immediate: bool = kani::any();
    if immediate {
        r.post_immediate_error(8, -22, when);
    } else {
        r.schedule(8, when, PendingApply::Fsync { fd: 7 });
    }
    assert!(r.inflight.len() == 3 && r.ready.len() == 1 && count(&r, 8) == 1);
    let c = &r.inflight[2];
    assert!(c.user_data == 8 && c.when == when);
    assert!(err_of(c) == if immediate { Some(-22) } else { None });
    assert!(r.ready_cq_count(when) >= 2, "visible at its own instant");
    if when > Duration::ZERO {
        let before = when - Duration::new(0, 1);
        let mut n = 1; // the already matured one
        if r.inflight[0].when <= before { n += 1; }
        if r.inflight[1].when <= before { n += 1; }
        assert!(r.ready_cq_count(before) == n, "not visible one nanosecond earlier");
    }
    kani::cover!(immediate, "immediate error completion");
    kani::cover!(!immediate && when > Duration::ZERO, "scheduled in the future");
    std::mem::forget(r);
}

// ---------------------------------------------------------------------------------------------------
// C18 effect parity: "the result and filesystem effect of each read and write equal those of the
// same operation performed through the synchronous file API". The completion-time executors
// `exec_write` / `exec_read` run against a REAL turmoil-fs `Fs` (built against the std::path model,
// DESIGN.md 2.2) and are compared with `Fs::write_file` / `Fs::read_file` / `Fs::file_len` applied
// to a twin filesystem: same CQE result, same bytes, same length; a bad fd completes with -EBADF
// and neither the buffer nor the filesystem is touched. Fault knobs are off (defaults).
use turmoil_fs::verif_path::PathBuf as MPathBuf;

fn fs_with_open_file(fd_out: &mut RawFd) -> Fs {
    let mut fs = Fs::new(turmoil_fs::FsConfig::default(), 7);
    let fd = fs.alloc_fd();
    fs.open_handles.insert(fd, MPathBuf::from("/f"));
    *fd_out = fd;
    fs
}

// @verif id=C18 tier=quick role=effect_parity timeout=1500 mem=12
#[kani::proof]
#[kani::stub(tokio::sync::Notify::notify_waiters, stub_notify_waiters)]
#[kani::unwind(10)]
fn c18_ring_write_and_read_equal_the_file_api() {
    let mut fd: RawFd = 0;
    let mut ring_fs = fs_with_open_file(&mut fd);
    let mut twin = fs_with_open_file(&mut fd);
    let path = MPathBuf::from("/f");
    let d: [u8; 2] = kani::any();
    let off: u64 = kani::any();
    kani::assume(off <= 1);
    let now = ms(kani::any());
    let mut rng = SymRng;
    // write through the ring executor vs the file API
    let res = exec_write(&mut ring_fs, &mut rng, fd, d.as_ptr(), 2, off, now);
    twin.write_file(&path, off, &d, now);
    assert!(res == 2, "CQE result = bytes written");
    assert!(ring_fs.file_len(&path) == twin.file_len(&path) && twin.file_len(&path) == off + 2);
    // read through the ring executor vs the file API
    let mut rb = [7u8; 3];
    let mut tb = [7u8; 3];
    let rn = exec_read(&mut ring_fs, &mut rng, fd, rb.as_mut_ptr(), 3, 0);
    let tn = twin.read_file(&path, &mut tb, 0);
    assert!(rn >= 0 && rn as usize == tn, "CQE result = bytes read by the file API");
    assert!(rb[0] == tb[0] && rb[1] == tb[1] && rb[2] == tb[2], "same bytes, same untouched tail");
    assert!(rb[off as usize] == d[0] && rb[off as usize + 1] == d[1]);
    // a bad fd: -EBADF, buffer and filesystem untouched
    let mut bb = [7u8; 2];
    assert!(exec_read(&mut ring_fs, &mut rng, fd + 1, bb.as_mut_ptr(), 2, 0) == -EBADF && bb[0] == 7 && bb[1] == 7);
    assert!(exec_write(&mut ring_fs, &mut rng, fd + 1, d.as_ptr(), 2, 0, now) == -EBADF);
    assert!(ring_fs.file_len(&path) == off + 2);
    kani::cover!(off == 1 && rn == 3, "write at an offset, read of the whole file");
    std::mem::forget(ring_fs);
    std::mem::forget(twin);
}

// capacity: a ring write is refused with -ENOSPC exactly when the GROWTH of the file does not fit
// (the synchronous API charges only the bytes by which the file grows), and a refused write has no
// effect. Disk of `cap` bytes holding one 2-byte file; the ring writes 2 bytes at offset 1 (growth 1).
// With a symbolic capacity 2..4 the harness ran out of memory at 12 GB (measured): the capacity is
// concrete per instance.
fn capacity_step(cap: u64) -> i32 {
    let mut cfg = turmoil_fs::FsConfig::default();
    cfg.capacity(cap);
    let mut fs = Fs::new(cfg, 7);
    let fd = fs.alloc_fd();
    fs.open_handles.insert(fd, MPathBuf::from("/f"));
    let path = MPathBuf::from("/f");
    let d: [u8; 2] = kani::any();
    let now = ms(3);
    let mut rng = SymRng;
    fs.write_file(&path, 0, &d, now); // 2 bytes used
    let res = exec_write(&mut fs, &mut rng, fd, d.as_ptr(), 2, 1, now);
    let fits = 2 + 1 <= cap;
    assert!((res == 2) == fits && (res == -ENOSPC) == !fits, "refused exactly when the growth does not fit");
    assert!(fs.file_len(&path) == if fits { 3 } else { 2 }, "a refused write has no effect");
    std::mem::forget(fs);
    res
}
// @verif id=C18 tier=unshipped role=effect_parity timeout=1500 mem=12
#[kani::proof]
#[kani::stub(tokio::sync::Notify::notify_waiters, stub_notify_waiters)]
#[kani::unwind(10)]
fn c18_ring_write_charges_only_the_growth_against_capacity() {
    let res = capacity_step(3);
    kani::cover!(res == 2, "growth fits exactly although the whole write would not");
}
// @verif id=C18 tier=unshipped role=effect_parity timeout=1500 mem=12
#[kani::proof]
#[kani::stub(tokio::sync::Notify::notify_waiters, stub_notify_waiters)]
#[kani::unwind(10)]
fn c18_ring_write_is_refused_when_the_disk_is_full() {
    let res = capacity_step(2);
    kani::cover!(res == -ENOSPC, "disk full");
}
