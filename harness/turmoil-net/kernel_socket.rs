//! Kani harnesses for crates/turmoil-net/src/kernel/socket.rs (child module: sees private items).
use super::*;

// @verif id=C17 tier=quick role=port_allocator
// PortAllocator::allocate on a 4-port range, symbolic cursor and symbolic in-use set:
// returns the first free port cyclically from the cursor, None iff all in use, cursor stays in range.
#[kani::proof]
#[kani::unwind(6)]
fn c17_port_allocator_first_free() {
    let lo: u16 = kani::any();
    kani::assume(lo >= 1 && lo <= u16::MAX - 3);
    let hi = lo + 3;
    let mut a = PortAllocator::new(lo..=hi);
    let off: u16 = kani::any();
    kani::assume(off <= 3);
    a.cursor = lo + off;
    let used: [bool; 4] = kani::any();
    let r = a.allocate(|p| {
        assert!(p >= lo && p <= hi, "predicate consulted outside the range");
        used[(p - lo) as usize]
    });
    // reference: first free cyclically from cursor
    let mut expect: Option<u16> = None;
    let mut i = 0u16;
    while i < 4 {
        let p = lo + (off + i) % 4;
        if !used[(p - lo) as usize] {
            expect = Some(p);
            break;
        }
        i += 1;
    }
    assert!(r == expect);
    assert!(a.cursor >= lo && a.cursor <= hi);
    if let Some(p) = r {
        assert!(!used[(p - lo) as usize]);
        // cursor moved just past the returned port
        assert!(a.cursor == if p == hi { lo } else { p + 1 });
    } else {
        assert!(used[0] && used[1] && used[2] && used[3]);
    }
    kani::cover!(r.is_some() && r.unwrap() < lo + off, "wrapped around");
    kani::cover!(r.is_none(), "exhausted");
}

// ---------------------------------------------------------------------------------------------------
// C17-S1: bind matrix. A kernel owning {A, B} (plus implicit loopback) with ONE existing binding of
// concrete shape (per instance) and one new `bind` whose address/port/type are symbolic over a pool:
// the result equals the reference predicate, `local_addr` reports what was bound, and the table
// gains exactly one socket on success and nothing on failure.
use crate::kernel::Kernel;
use crate::verif_common::{take, Outcome};
use std::net::{Ipv4Addr, Ipv6Addr, SocketAddr};

const A: IpAddr = IpAddr::V4(Ipv4Addr::new(10, 0, 0, 1));
const B: IpAddr = IpAddr::V4(Ipv4Addr::new(10, 0, 0, 2));
const C_NONLOCAL: IpAddr = IpAddr::V4(Ipv4Addr::new(10, 0, 0, 3));
const WILD4: IpAddr = IpAddr::V4(Ipv4Addr::UNSPECIFIED);
const LO4: IpAddr = IpAddr::V4(Ipv4Addr::LOCALHOST);
const WILD6: IpAddr = IpAddr::V6(Ipv6Addr::UNSPECIFIED);
const LO6: IpAddr = IpAddr::V6(Ipv6Addr::LOCALHOST);

fn pool_ip(sel: u8) -> IpAddr {
    match sel % 7 {
        0 => A,
        1 => B,
        2 => C_NONLOCAL,
        3 => WILD4,
        4 => LO4,
        5 => WILD6,
        _ => LO6,
    }
}

fn install(k: &mut Kernel, ip: IpAddr, port: u16, ty: Type) -> Fd {
    let domain = if ip.is_ipv4() { Domain::Inet } else { Domain::Inet6 };
    let key = BindKey { domain, ty, local_addr: ip, local_port: port };
    let mut st = Socket::new(domain, ty);
    st.bound = Some(key.clone());
    let fd = k.sockets.insert(st);
    k.sockets.insert_binding(key, fd);
    fd
}

fn bind_matrix(ex_ip: IpAddr, ex_ty: Type) {
    let mut k = Kernel::new();
    k.add_address(A);
    k.add_address(B);
    let ex_port: u16 = 5000;
    let _ex = install(&mut k, ex_ip, ex_port, ex_ty);
    let ip = pool_ip(kani::any());
    let port: u16 = if kani::any() { 5000 } else { 5001 };
    let ty = if kani::any() { Type::Stream } else { Type::Dgram };
    let n_before = k.sockets.iter().count();
    let (fd, o) = take(k.bind(&Addr::Inet(SocketAddr::new(ip, port)), ty));
    let local = ip.is_unspecified() || ip.is_loopback() || ip == A || ip == B;
    let same_proto = ty == ex_ty && ip.is_ipv4() == ex_ip.is_ipv4();
    let conflict = same_proto && port == ex_port && (ip == ex_ip || ip.is_unspecified() || ex_ip.is_unspecified());
    let expect = if !local {
        Outcome::AddrNotAvailable
    } else if conflict {
        Outcome::AddrInUse
    } else {
        Outcome::Ok
    };
    assert!(o == expect);
    if o == Outcome::Ok {
        let fd = fd.unwrap();
        assert!(k.sockets.iter().count() == n_before + 1);
        let (la, lo) = take(k.local_addr(fd));
        assert!(lo == Outcome::Ok && la == Some(Addr::Inet(SocketAddr::new(ip, port))), "local_addr reports what was bound");
        let st = k.sockets.get(fd).unwrap();
        assert!(st.ty == ty && st.tcb.is_none() && st.listen.is_none());
        // closing frees the key: the same bind succeeds again
        k.close(fd);
        assert!(k.sockets.iter().count() == n_before);
        let (fd2, o2) = take(k.bind(&Addr::Inet(SocketAddr::new(ip, port)), ty));
        assert!(o2 == Outcome::Ok && fd2.is_some(), "close frees the binding");
    } else {
        assert!(fd.is_none() && k.sockets.iter().count() == n_before, "a failed bind leaves no trace");
    }
    kani::cover!(o == Outcome::AddrInUse, "conflict detected");
    kani::cover!(o == Outcome::AddrNotAvailable, "foreign address refused");
    kani::cover!(o == Outcome::Ok && port == ex_port && ty == ex_ty, "same port coexists");
    std::mem::forget(k);
}

// @verif id=C17 tier=quick role=bind_matrix timeout=900 desc=existing=A:5000/udp
crate::verif_proof! { unwind = 18;
fn c17_bind_matrix_vs_specific_udp() { bind_matrix(A, Type::Dgram); }
}
// @verif id=C17 tier=quick role=bind_matrix timeout=900 desc=existing=0.0.0.0:5000/tcp
crate::verif_proof! { unwind = 18;
fn c17_bind_matrix_vs_wildcard_tcp() { bind_matrix(WILD4, Type::Stream); }
}
// @verif id=C17 tier=thorough role=bind_matrix timeout=1800 desc=existing=[::]:5000/udp
crate::verif_proof! { unwind = 18;
fn c17_bind_matrix_vs_wildcard6_udp() { bind_matrix(WILD6, Type::Dgram); }
}
// @verif id=C17 tier=thorough role=bind_matrix timeout=1800 desc=existing=127.0.0.1:5000/tcp
crate::verif_proof! { unwind = 18;
fn c17_bind_matrix_vs_loopback_tcp() { bind_matrix(LO4, Type::Stream); }
}

// C17-S2 (port 0): an ephemeral bind yields a port in the range that is not bound at ANY local
// address for that protocol, starting from the allocator cursor with wrap-around.
fn bind_ephemeral(ex_ip: IpAddr) {
    let mut k = Kernel::new();
    k.add_address(A);
    k.add_address(B);
    k.sockets.ports = PortAllocator::new(50000..=50002);
    let off: u16 = kani::any();
    kani::assume(off <= 2);
    k.sockets.ports.cursor = 50000 + off;
    let ex_off: u16 = kani::any();
    kani::assume(ex_off <= 2);
    let ex_port = 50000 + ex_off;
    let ex_ty = if kani::any() { Type::Stream } else { Type::Dgram };
    let _ex = install(&mut k, ex_ip, ex_port, ex_ty);
    let ip = if kani::any() { A } else { LO4 };
    let (fd, o) = take(k.bind(&Addr::Inet(SocketAddr::new(ip, 0)), Type::Dgram));
    assert!(o == Outcome::Ok, "two of three ports are always free");
    let (la, _) = take(k.local_addr(fd.unwrap()));
    let Some(Addr::Inet(sa)) = la else { panic!("bound") };
    assert!(sa.ip() == ip && sa.port() >= 50000 && sa.port() <= 50002);
    let taken = ex_ty == Type::Dgram && ex_ip.is_ipv4();
    if taken {
        assert!(sa.port() != ex_port, "never a port in use at any local address of the protocol");
    }
    let first = 50000 + off;
    let expect = if taken && first == ex_port { if first == 50002 { 50000 } else { first + 1 } } else { first };
    assert!(sa.port() == expect, "first free port from the cursor, cyclically");
    assert!(k.sockets.ports.cursor >= 50000 && k.sockets.ports.cursor <= 50002);
    kani::cover!(taken && first == ex_port && first == 50002, "skipped and wrapped");
    kani::cover!(!taken && first == ex_port, "other protocol does not block");
    std::mem::forget(k);
}
// @verif id=C17 tier=quick role=bind_ephemeral timeout=900 desc=existing-on-B(other-address)
crate::verif_proof! { unwind = 18;
fn c17_bind_ephemeral_skips_port_used_on_other_address() { bind_ephemeral(B); }
}
// @verif id=C17 tier=thorough role=bind_ephemeral timeout=1800 desc=existing-on-wildcard
crate::verif_proof! { unwind = 18;
fn c17_bind_ephemeral_skips_port_used_on_wildcard() { bind_ephemeral(WILD4); }
}
