//! Kani harnesses for crates/turmoil-net/src/kernel/socket.rs (child module: sees private items).
use super::*;

// @verif id=C17 tier=quick role=port_allocator
// PortAllocator::allocate on a 4-port range, symbolic cursor and symbolic in-use set:
// returns a free port of the range whenever one exists (wherever it lies relative to the cursor, so
// wrap-around is covered), None iff all are in use; the cursor stays in range.
#[kani::proof]
#[kani::unwind(6)]
fn c17_port_allocator_returns_a_free_port() {
    let lo: u16 = kani::any();
    kani::assume(lo >= 1 && lo <= u16::MAX - 3);
    let hi = lo + 3;
    let mut a = PortAllocator::new(lo..=hi);
    let off: u16 = kani::any();
    kani::assume(off <= 3);
    a.cursor = lo + off;
    let used: [bool; 4] = kani::any();
    let r = a.allocate(|p| {
        assert!(p >= lo && p <= hi, "predicate consulted outside the range");
        used[(p - lo) as usize]
    });
    // What the property states (and no more: WHICH free port is chosen is the allocator's business,
    // a different scan order or a random pick would be just as right): the port is inside the range
    // and not in use; allocation fails only when every port of the range is in use; the cursor never
    // leaves the range, so the next allocation is well defined too.
    assert!(a.cursor >= lo && a.cursor <= hi);
    if let Some(p) = r {
        assert!(p >= lo && p <= hi, "inside the ephemeral range");
        assert!(!used[(p - lo) as usize], "never a port that is in use");
    } else {
        assert!(used[0] && used[1] && used[2] && used[3], "fails only when the range is exhausted");
    }
    kani::cover!(r.is_some() && r.unwrap() < lo + off, "wrapped around");
    kani::cover!(r.is_none(), "exhausted");
}

// ---------------------------------------------------------------------------------------------------
// C17-S1: bind matrix. A kernel owning {A, B} (plus implicit loopback) with ONE existing binding of
// concrete shape (per instance) and one new `bind` whose address/port/type are symbolic over a pool:
// the result equals the reference predicate, `local_addr` reports what was bound, and the table
// gains exactly one socket on success and nothing on failure.
use crate::kernel::Kernel;
use crate::verif_common::{take, Outcome};
use std::net::{Ipv4Addr, Ipv6Addr, SocketAddr};

const A: IpAddr = IpAddr::V4(Ipv4Addr::new(10, 0, 0, 1));
const B: IpAddr = IpAddr::V4(Ipv4Addr::new(10, 0, 0, 2));
const C_NONLOCAL: IpAddr = IpAddr::V4(Ipv4Addr::new(10, 0, 0, 3));
const WILD4: IpAddr = IpAddr::V4(Ipv4Addr::UNSPECIFIED);
const LO4: IpAddr = IpAddr::V4(Ipv4Addr::LOCALHOST);
const WILD6: IpAddr = IpAddr::V6(Ipv6Addr::UNSPECIFIED);
const LO6: IpAddr = IpAddr::V6(Ipv6Addr::LOCALHOST);

fn pool_ip(sel: u8) -> IpAddr {
    match sel % 7 {
        0 => A,
        1 => B,
        2 => C_NONLOCAL,
        3 => WILD4,
        4 => LO4,
        5 => WILD6,
        _ => LO6,
    }
}

fn install(k: &mut Kernel, ip: IpAddr, port: u16, ty: Type) -> Fd {
    let domain = if ip.is_ipv4() { Domain::Inet } else { Domain::Inet6 };
    let key = BindKey { domain, ty, local_addr: ip, local_port: port };
    let mut st = Socket::new(domain, ty);
    st.bound = Some(key.clone());
    let fd = k.sockets.insert(st);
    k.sockets.insert_binding(key, fd);
    fd
}

/// Bind matrix. The NEW bind (address, port, type) is concrete per instance - it becomes a
/// binding-table key - and so are address and port of the EXISTING binding; the existing binding's
/// socket type is symbolic (measured: one symbolic dimension 2.3 M SAT variables / 100 s, two or
/// three exceed 12 GB). The result must equal the
/// reference predicate; on success the table gains exactly one socket and local_addr reports the
/// binding; on failure nothing changes.
fn bind_matrix(ip: IpAddr, port: u16, ty: Type, ex_ip: IpAddr, ex_port: u16) -> (Outcome, bool) {
    let mut k = Kernel::new();
    k.add_address(A);
    k.add_address(B);
    let ex_ty = if kani::any() { Type::Stream } else { Type::Dgram };
    let _ex = install(&mut k, ex_ip, ex_port, ex_ty);
    let n_before = k.sockets.iter().count();
    let (fd, o) = take(k.bind(&Addr::Inet(SocketAddr::new(ip, port)), ty));
    let local = ip.is_unspecified() || ip.is_loopback() || ip == A || ip == B;
    let same_proto = ty == ex_ty && ip.is_ipv4() == ex_ip.is_ipv4();
    let conflict = same_proto && port == ex_port && (ip == ex_ip || ip.is_unspecified() || ex_ip.is_unspecified());
    let expect = if !local {
        Outcome::AddrNotAvailable
    } else if conflict {
        Outcome::AddrInUse
    } else {
        Outcome::Ok
    };
    assert!(o == expect);
    // (what a successful bind records - local_addr, socket type - is checked by
    // c17_bind_records_its_address; keeping this harness to the decision keeps it under the cap)
    assert!(fd.is_some() == (o == Outcome::Ok));
    assert!(k.sockets.iter().count() == n_before + (o == Outcome::Ok) as usize, "a failed bind leaves no trace");
    std::mem::forget(k);
    (o, ex_ip == WILD4)
}

// @verif id=C17 tier=quick role=bind_matrix timeout=1200 mem=20 desc=new=A:5000/udp-vs-existing-A
crate::verif_proof! { unwind = 18;
fn c17_bind_specific_address_matrix() {
    let (o, ex_wild) = bind_matrix(A, 5000, Type::Dgram, A, 5000);
    kani::cover!(o == Outcome::AddrInUse && !ex_wild, "same address refused");
    kani::cover!(o == Outcome::Ok, "free");
}
}
// @verif id=C17 tier=quick role=bind_matrix timeout=1200 mem=20 desc=new=A:5000/udp-vs-existing-wildcard
crate::verif_proof! { unwind = 18;
fn c17_bind_specific_after_wildcard_matrix() {
    let (o, ex_wild) = bind_matrix(A, 5000, Type::Dgram, WILD4, 5000);
    kani::cover!(o == Outcome::AddrInUse && ex_wild, "specific after wildcard refused");
    kani::cover!(o == Outcome::Ok, "free");
}
}
// @verif id=C17 tier=quick role=bind_matrix timeout=1200 mem=20 desc=new=0.0.0.0:5000/tcp-vs-existing-B
crate::verif_proof! { unwind = 18;
fn c17_bind_wildcard_matrix() {
    let (o, _) = bind_matrix(WILD4, 5000, Type::Stream, B, 5000);
    kani::cover!(o == Outcome::AddrInUse, "wildcard conflicts with any address on the port");
    kani::cover!(o == Outcome::Ok, "free");
}
}
// @verif id=C17 tier=quick role=bind_matrix timeout=1200 mem=20 desc=new=10.0.0.3(not-local)
crate::verif_proof! { unwind = 18;
fn c17_bind_foreign_address_is_refused() {
    let (o, _) = bind_matrix(C_NONLOCAL, 5000, Type::Dgram, A, 5000);
    assert!(o == Outcome::AddrNotAvailable);
    kani::cover!(o == Outcome::AddrNotAvailable, "foreign address refused");
}
}
// @verif id=C17 tier=quick role=bind_matrix timeout=1200 mem=20 desc=new=A:5001/udp-vs-existing-A:5000(other-port)
crate::verif_proof! { unwind = 18;
fn c17_bind_other_port_is_free() {
    let (o, _) = bind_matrix(A, 5001, Type::Dgram, A, 5000);
    assert!(o == Outcome::Ok);
    kani::cover!(o == Outcome::Ok, "free");
}
}
// @verif id=C17 tier=quick role=bind_matrix timeout=1200 mem=20 desc=new=[::]:5000/udp-vs-existing-0.0.0.0(families-are-separate-spaces)
crate::verif_proof! { unwind = 18;
fn c17_bind_v6_wildcard_ignores_v4_bindings() {
    let (o, _) = bind_matrix(WILD6, 5000, Type::Dgram, WILD4, 5000);
    assert!(o == Outcome::Ok);
    kani::cover!(o == Outcome::Ok, "separate spaces");
}
}
// @verif id=C17 tier=thorough role=bind_matrix timeout=1200 desc=new=127.0.0.1:5001/tcp-vs-symbolic-existing
crate::verif_proof! { unwind = 18;
fn c17_bind_loopback_matrix() {
    let (o, _) = bind_matrix(LO4, 5001, Type::Stream, LO4, 5001);
    kani::cover!(o == Outcome::AddrInUse, "conflict");
    kani::cover!(o == Outcome::Ok, "free");
}
}
// @verif id=C17 tier=quick role=bind_records timeout=900 desc=successful-bind-records-address-and-type
crate::verif_proof! { unwind = 18;
fn c17_bind_records_its_address() {
    let mut k = Kernel::new();
    k.add_address(A);
    let port: u16 = kani::any();
    kani::assume(port != 0);
    let (fd, o) = take(k.bind(&Addr::Inet(SocketAddr::new(A, port)), Type::Stream));
    assert!(o == Outcome::Ok);
    let fd = fd.unwrap();
    let (la, lo) = take(k.local_addr(fd));
    assert!(lo == Outcome::Ok && la == Some(Addr::Inet(SocketAddr::new(A, port))), "local_addr reports what was bound");
    let st = k.sockets.get(fd).unwrap();
    assert!(st.ty == Type::Stream && st.tcb.is_none() && st.listen.is_none());
    kani::cover!(port == 65535, "highest port");
    std::mem::forget(k);
}
}
// @verif id=C17 tier=quick role=bind_close timeout=900 desc=close-frees-the-binding
crate::verif_proof! { unwind = 18;
fn c17_close_frees_the_binding() {
    let mut k = Kernel::new();
    k.add_address(A);
    let ty = if kani::any() { Type::Stream } else { Type::Dgram };
    let fd = install(&mut k, A, 5000, ty);
    k.close(fd);
    assert!(k.sockets.iter().count() == 0);
    let (fd2, o2) = take(k.bind(&Addr::Inet(SocketAddr::new(A, 5000)), ty));
    assert!(o2 == Outcome::Ok && fd2.is_some(), "close frees the binding");
    kani::cover!(o2 == Outcome::Ok, "rebound");
    std::mem::forget(k);
}
}

// C17-S2 (port 0): an ephemeral bind yields a port in the range that is not bound at ANY local
// address for that protocol, also when the allocator cursor points at the port in use or at the end
// of the range.
fn bind_ephemeral(ex_ip: IpAddr, ex_ty: Type, ex_off: u16, off: u16) -> (bool, u16, u16) {
    let mut k = Kernel::new();
    k.add_address(A);
    k.add_address(B);
    k.sockets.ports = PortAllocator::new(50000..=50002);
    // the existing binding and the allocator cursor are concrete per instance (the allocated port
    // becomes a binding-table key); the local address of the new bind is symbolic
    k.sockets.ports.cursor = 50000 + off;
    let ex_port = 50000 + ex_off;
    let _ex = install(&mut k, ex_ip, ex_port, ex_ty);
    let ip = if kani::any() { A } else { LO4 };
    let (fd, o) = take(k.bind(&Addr::Inet(SocketAddr::new(ip, 0)), Type::Dgram));
    assert!(o == Outcome::Ok, "two of three ports are always free");
    let (la, _) = take(k.local_addr(fd.unwrap()));
    let Some(Addr::Inet(sa)) = la else { panic!("bound") };
    assert!(sa.ip() == ip && sa.port() >= 50000 && sa.port() <= 50002);
    let taken = ex_ty == Type::Dgram && ex_ip.is_ipv4();
    if taken {
        assert!(sa.port() != ex_port, "never a port in use at any local address of the protocol");
    }
    // WHICH free port is picked (scan order from the cursor, whether ports of the other protocol are
    // avoided as well) is not part of the property and is not asserted
    let first = 50000 + off;
    assert!(k.sockets.ports.cursor >= 50000 && k.sockets.ports.cursor <= 50002);
    std::mem::forget(k);
    (taken, first, sa.port())
}
// @verif id=C17 tier=thorough role=bind_ephemeral timeout=1800 mem=24 desc=udp-port-50002-taken-on-B(other-address)
crate::verif_proof! { unwind = 18;
fn c17_bind_ephemeral_skips_port_used_on_other_address() {
    let (taken, first, got) = bind_ephemeral(B, Type::Dgram, 2, 2);
    assert!(taken && first == 50002 && got != 50002);
    kani::cover!(got != 50002, "the port in use on the other address is skipped (the cursor pointed at it, at the end of the range)");
}
}
// @verif id=C17 tier=quick role=bind_ephemeral timeout=900 desc=tcp-port-50000-taken(other-protocol-does-not-block)
crate::verif_proof! { unwind = 18;
fn c17_bind_ephemeral_ignores_other_protocol() {
    let (taken, first, got) = bind_ephemeral(A, Type::Stream, 0, 0);
    assert!(!taken && got >= 50000 && got <= 50002);
    kani::cover!(first == 50000, "a TCP binding does not make the UDP bind fail");
}
}
// @verif id=C17 tier=thorough role=bind_ephemeral timeout=1800 mem=24 desc=udp-port-50001-taken-on-wildcard
crate::verif_proof! { unwind = 18;
fn c17_bind_ephemeral_skips_port_used_on_wildcard() {
    let (taken, first, got) = bind_ephemeral(WILD4, Type::Dgram, 1, 1);
    assert!(taken && got != 50001);
    kani::cover!(got != 50001, "the port bound on the wildcard address is skipped");
}
}
