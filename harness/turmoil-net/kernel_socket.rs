//! Kani harnesses for crates/turmoil-net/src/kernel/socket.rs (child module: sees private items).
use super::*;

// @verif id=C17 tier=quick role=port_allocator
// PortAllocator::allocate on a 4-port range, symbolic cursor and symbolic in-use set:
// returns the first free port cyclically from the cursor, None iff all in use, cursor stays in range.
#[kani::proof]
#[kani::unwind(6)]
fn c17_port_allocator_first_free() {
    let lo: u16 = kani::any();
    kani::assume(lo >= 1 && lo <= u16::MAX - 3);
    let hi = lo + 3;
    let mut a = PortAllocator::new(lo..=hi);
    let off: u16 = kani::any();
    kani::assume(off <= 3);
    a.cursor = lo + off;
    let used: [bool; 4] = kani::any();
    let r = a.allocate(|p| {
        assert!(p >= lo && p <= hi, "predicate consulted outside the range");
        used[(p - lo) as usize]
    });
    // reference: first free cyclically from cursor
    let mut expect: Option<u16> = None;
    let mut i = 0u16;
    while i < 4 {
        let p = lo + (off + i) % 4;
        if !used[(p - lo) as usize] {
            expect = Some(p);
            break;
        }
        i += 1;
    }
    assert!(r == expect);
    assert!(a.cursor >= lo && a.cursor <= hi);
    if let Some(p) = r {
        assert!(!used[(p - lo) as usize]);
        // cursor moved just past the returned port
        assert!(a.cursor == if p == hi { lo } else { p + 1 });
    } else {
        assert!(used[0] && used[1] && used[2] && used[3]);
    }
    kani::cover!(r.is_some() && r.unwrap() < lo + off, "wrapped around");
    kani::cover!(r.is_none(), "exhausted");
}
