//! Kani harnesses for crates/turmoil-net/src/kernel/tcp.rs (child module: sees private items).
//!
//! Style: ONE real operation from a directly constructed pre-state (inductive step). The pre-state
//! is a kernel with one connected socket whose TCB fields are symbolic under the representation
//! invariant I6 (below); buffer LENGTHS are concrete per harness instance, buffer CONTENTS, sequence
//! numbers (full u32, so wrap-around is inside the claim), windows and flags are symbolic.
use super::*;
use crate::kernel::KernelConfig;
use crate::verif_common::{noop_cx, take, Outcome};
use std::net::{IpAddr, Ipv4Addr, Ipv6Addr, SocketAddr};

pub(crate) const A: IpAddr = IpAddr::V4(Ipv4Addr::new(10, 0, 0, 1));
pub(crate) const L: SocketAddr = SocketAddr::new(A, 80);
pub(crate) const R: SocketAddr = SocketAddr::new(IpAddr::V4(Ipv4Addr::new(10, 0, 0, 2)), 4000);

pub(crate) fn any_data_state() -> TcpState {
    match kani::any::<u8>() % 6 {
        0 => TcpState::Established,
        1 => TcpState::FinWait1,
        2 => TcpState::FinWait2,
        3 => TcpState::CloseWait,
        4 => TcpState::Closing,
        _ => TcpState::LastAck,
    }
}

/// Ghost copy of the TCB fields a step may change (read before / after the operation).
#[derive(Clone, Copy)]
pub(crate) struct Snap {
    pub(crate) state: TcpState,
    pub(crate) snd_una: u32,
    pub(crate) snd_nxt: u32,
    pub(crate) snd_wnd: u16,
    pub(crate) rcv_nxt: u32,
    pub(crate) send_len: usize,
    pub(crate) recv_len: usize,
    pub(crate) wr_closed: bool,
    pub(crate) peer_fin: bool,
    pub(crate) fin_seq: Option<u32>,
    pub(crate) reset: bool,
    pub(crate) timed_out: bool,
    pub(crate) egress_since_ack: u32,
    pub(crate) retx_attempts: u32,
}

pub(crate) fn snap(k: &Kernel, fd: Fd) -> Snap {
    let t = k.sockets.get(fd).unwrap().tcb.as_ref().unwrap();
    Snap {
        state: t.state,
        snd_una: t.snd_una,
        snd_nxt: t.snd_nxt,
        snd_wnd: t.snd_wnd,
        rcv_nxt: t.rcv_nxt,
        send_len: t.send_buf.len(),
        recv_len: t.recv_buf.len(),
        wr_closed: t.wr_closed,
        peer_fin: t.peer_fin,
        fin_seq: t.fin_seq,
        reset: t.reset,
        timed_out: t.timed_out,
        egress_since_ack: t.egress_since_ack,
        retx_attempts: t.retx_attempts,
    }
}

/// Representation invariant I6 of a live (not aborted) TCB in a data state:
///  * in-flight = snd_nxt - snd_una (wrapping) never exceeds send_buf.len() (+1 for a sent FIN);
///  * fin_seq is Some exactly when the write side is closed; while the FIN is unacknowledged it sits
///    right after the last buffered byte (fin_seq = snd_una + send_buf.len()) and snd_nxt <= fin_seq+1;
///    once acknowledged snd_una = snd_nxt = fin_seq+1 and the buffer is empty;
///  * the state agrees with (wr_closed, FIN acked, peer_fin);
///  * buffers respect their caps.
pub(crate) fn i6(s: &Snap, send_cap: usize, recv_cap: usize) -> bool {
    let infl = s.snd_nxt.wrapping_sub(s.snd_una);
    if s.send_len > send_cap || s.recv_len > recv_cap {
        return false;
    }
    if s.wr_closed != s.fin_seq.is_some() {
        return false;
    }
    let fin_acked;
    match s.fin_seq {
        None => {
            fin_acked = false;
            if infl as usize > s.send_len {
                return false;
            }
        }
        Some(fs) => {
            if fs.wrapping_add(1) == s.snd_una {
                // FIN acknowledged
                fin_acked = true;
                if s.send_len != 0 || infl != 0 {
                    return false;
                }
            } else {
                fin_acked = false;
                if fs != s.snd_una.wrapping_add(s.send_len as u32) {
                    return false;
                }
                if infl as usize > s.send_len + 1 {
                    return false;
                }
            }
        }
    }
    // state agrees with the close flags
    let expect = match (s.wr_closed, fin_acked, s.peer_fin) {
        (false, _, false) => TcpState::Established,
        (false, _, true) => TcpState::CloseWait,
        (true, false, false) => TcpState::FinWait1,
        (true, true, false) => TcpState::FinWait2,
        (true, false, true) => {
            // our FIN unacked, peer's FIN seen: Closing (we closed first) or LastAck (peer first)
            return s.state == TcpState::Closing || s.state == TcpState::LastAck;
        }
        (true, true, true) => TcpState::Closed,
    };
    s.state == expect
}

/// Build a kernel holding one connected socket (local L, remote R) whose TCB is symbolic under I6.
/// `send`/`recv` give the buffer contents (lengths are concrete at the call site).
pub(crate) fn mk(send: &[u8], recv: &[u8], send_cap: usize, recv_cap: usize, local: SocketAddr, remote: SocketAddr) -> (Kernel, Fd) {
    mk_in(None, send, recv, send_cap, recv_cap, local, remote)
}

/// Like `mk` with the TCP state fixed. Operations that sweep the socket table (`segment_all`,
/// `check_retx`) collect candidate fds under conditions on state / flags / in-flight count; if those
/// are symbolic the candidate lists have symbolic length and every sweep loop is unwound to the bound
/// (measured: > 10 min in symex). With a concrete state ALL close flags are determined by I6, and
/// `seq0` fixes snd_una and the in-flight count, so the sweeps constant-fold. Sequence wrap-around is
/// then covered by choosing snd_una next to u32::MAX in dedicated instances.
pub(crate) fn mk_in(state: Option<TcpState>, send: &[u8], recv: &[u8], send_cap: usize, recv_cap: usize, local: SocketAddr, remote: SocketAddr) -> (Kernel, Fd) {
    mk_full(state, None, send, recv, send_cap, recv_cap, local, remote)
}

pub(crate) fn mk_full(state: Option<TcpState>, seq0: Option<(u32, u32)>, send: &[u8], recv: &[u8], send_cap: usize, recv_cap: usize, local: SocketAddr, remote: SocketAddr) -> (Kernel, Fd) {
    let mut k = Kernel::with_config(
        KernelConfig::default()
            .send_buf_cap(send_cap)
            .recv_buf_cap(recv_cap),
    );
    k.add_address(local.ip());
    let domain = if local.is_ipv4() { Domain::Inet } else { Domain::Inet6 };
    let key = BindKey {
        domain,
        ty: Type::Stream,
        local_addr: local.ip(),
        local_port: local.port(),
    };
    let mut st = Socket::new(domain, Type::Stream);
    st.bound = Some(key.clone());
    st.peer = Some(Addr::Inet(remote));
    let mut sb = BytesMut::new();
    sb.extend_from_slice(send);
    let mut rb = BytesMut::new();
    rb.extend_from_slice(recv);
    let (snd_una, infl): (u32, u32) = match seq0 {
        Some(x) => x,
        None => (kani::any(), kani::any()),
    };
    kani::assume(infl as usize <= send.len() + 1);
    let (wr_closed, fin_acked, peer_fin): (bool, bool, bool) = match state {
        Some(TcpState::Established) => (false, false, false),
        Some(TcpState::CloseWait) => (false, false, true),
        Some(TcpState::FinWait1) => (true, false, false),
        Some(TcpState::FinWait2) => (true, true, false),
        Some(TcpState::Closing) | Some(TcpState::LastAck) => (true, false, true),
        _ => (kani::any(), kani::any(), kani::any()),
    };
    let fin_seq = if wr_closed {
        if fin_acked {
            Some(snd_una.wrapping_sub(1))
        } else {
            Some(snd_una.wrapping_add(send.len() as u32))
        }
    } else {
        None
    };
    st.tcb = Some(Tcb {
        state: match state {
            Some(s) => s,
            None => any_data_state(),
        },
        peer: remote,
        snd_nxt: snd_una.wrapping_add(infl),
        snd_una,
        snd_wnd: kani::any(),
        rcv_nxt: kani::any(),
        send_buf: sb,
        recv_buf: rb,
        wr_closed,
        peer_fin,
        fin_seq,
        reset: false,
        timed_out: false,
        egress_since_ack: kani::any(),
        retx_attempts: kani::any(),
    });
    let fd = k.sockets.insert(st);
    k.sockets.insert_binding(key, fd);
    k.sockets.insert_connection(local, remote, fd);
    let s = snap(&k, fd);
    kani::assume(i6(&s, send_cap, recv_cap));
    (k, fd)
}

pub(crate) fn any_bytes<const N: usize>() -> [u8; N] {
    kani::any()
}

fn tcp_of(p: &Packet) -> &TcpSegment {
    match &p.payload {
        Transport::Tcp(s) => s,
        _ => panic!("not tcp"),
    }
}

fn bytes_eq(a: &[u8], b: &[u8]) -> bool {
    if a.len() != b.len() {
        return false;
    }
    let mut i = 0;
    while i < a.len() {
        if a[i] != b[i] {
            return false;
        }
        i += 1;
    }
    true
}

// ---------------------------------------------------------------------------------------------------
// C06-S1/S2, C16-S2/S4: one inbound segment on an open connection vs a reference model.
//
// Reference (written from the property, not from the code):
//  ACK half:  an acknowledgement is acceptable iff 0 < ack - snd_una <= in-flight (mod 2^32). Then
//             exactly the acknowledged data bytes leave the FRONT of the send buffer (the FIN's
//             sequence number carries no byte), snd_una = ack, retransmit counters reset.
//             Otherwise the send buffer and snd_una are untouched. The peer window is recorded.
//  DATA half: only payload bytes at or after rcv_nxt are appended, as a prefix of the in-sequence
//             part, never beyond the receive cap, never after a FIN; an in-order segment makes
//             progress while there is room; rcv_nxt advances by exactly the accepted bytes.
//  FIN:       accepted exactly if it lands at rcv_nxt after the accepted data; consumes one number.
//  ACK out:   if anything was accepted a packet goes out; the last one acknowledges the new rcv_nxt
//             and advertises at most the free room (and not zero while there is room).
pub(crate) struct SegObs { whole: bool, truncated: bool, all_acked: bool, fin_ok: bool, fin_acked: bool, ooo: bool }
fn segment_step<const SL: usize, const RL: usize, const PL: usize>(recv_cap: usize) -> SegObs {
    let send: [u8; SL] = any_bytes();
    let recv: [u8; RL] = any_bytes();
    let send_cap = SL + 1;
    let (mut k, fd) = mk(&send, &recv, send_cap, recv_cap, L, R);
    let pre = snap(&k, fd);
    let p: [u8; PL] = any_bytes();
    let seg = TcpSegment {
        src_port: R.port(),
        dst_port: L.port(),
        seq: kani::any(),
        ack: kani::any(),
        flags: TcpFlags {
            syn: false,
            ack: kani::any(),
            fin: kani::any(),
            rst: false,
            psh: kani::any(),
            urg: false,
        },
        window: kani::any(),
        payload: Bytes::copy_from_slice(&p),
    };
    let out_before = k.outbound.len();
    // The per-state dispatcher `handle_on_connection` is covered by the c06_dispatch_* harnesses with
    // a CONCRETE state (a symbolic state makes symex walk the handshake arms under infeasible guards:
    // measured 140 s + OOM versus 11 s).
    handle_established(&mut k, fd, L, R, &seg);
    let post = snap(&k, fd);

    // ---- ACK half
    let acked = seg.ack.wrapping_sub(pre.snd_una);
    let infl = pre.snd_nxt.wrapping_sub(pre.snd_una);
    let ack_ok = seg.flags.ack && acked > 0 && acked <= infl;
    let fin_acked_now = ack_ok && pre.fin_seq.map(|fs| seg.ack == fs.wrapping_add(1)).unwrap_or(false);
    let data_acked: usize = if ack_ok { (acked - if fin_acked_now { 1 } else { 0 }) as usize } else { 0 };
    assert!(data_acked <= SL);
    assert!(post.send_len == SL - data_acked, "send buffer shrinks by exactly the acknowledged bytes");
    {
        let t = k.sockets.get(fd).unwrap().tcb.as_ref().unwrap();
        assert!(bytes_eq(&t.send_buf[..], &send[data_acked..]), "unacknowledged bytes are kept, in order");
    }
    assert!(post.snd_una == if ack_ok { seg.ack } else { pre.snd_una });
    assert!(post.snd_nxt == pre.snd_nxt);
    if ack_ok {
        // progress restarts the per-segment retransmission budget (otherwise losses of DIFFERENT
        // segments would add up to an abort, which the property excludes); what a segment that
        // acknowledges nothing new does to the counters is not asserted
        assert!(post.egress_since_ack == 0 && post.retx_attempts == 0);
    }
    // the peer window is whatever was recorded before or what this segment carries; a segment that
    // is acceptable in both directions (in sequence, acknowledging nothing beyond snd_nxt) must be
    // honoured, or a re-opened window would never be seen
    assert!(post.snd_wnd == pre.snd_wnd || (seg.flags.ack && post.snd_wnd == seg.window));
    if seg.flags.ack && seg.seq == pre.rcv_nxt && acked <= infl {
        assert!(post.snd_wnd == seg.window, "an in-sequence acknowledgement updates the peer window");
    }

    // ---- DATA half
    // `off` = how many leading payload bytes were received before (0 for an in-order segment). Only
    // payload bytes from `off` on may be appended, as a prefix, as far as the receive cap allows. An
    // in-order segment must make progress when there is room; whether a segment that OVERLAPS
    // rcv_nxt (a retransmission of partly received data) is trimmed and used or dropped is the
    // implementation's choice.
    let off_w = pre.rcv_nxt.wrapping_sub(seg.seq);
    let covering = PL > 0 && (off_w as usize) < PL && !pre.peer_fin;
    let off = if covering { off_w as usize } else { 0 };
    let room = recv_cap - RL;
    let max_n = if covering { if PL - off < room { PL - off } else { room } } else { 0 };
    assert!(post.recv_len >= RL && post.recv_len <= recv_cap, "C16: receive cap respected");
    let n = post.recv_len - RL;
    assert!(n <= max_n, "only in-sequence payload that fits is accepted");
    if covering && off == 0 && room > 0 {
        assert!(n >= 1, "an in-order segment makes progress while there is room");
    }
    {
        let t = k.sockets.get(fd).unwrap().tcb.as_ref().unwrap();
        assert!(bytes_eq(&t.recv_buf[..RL], &recv), "already buffered bytes are untouched");
        let mut j = 0;
        while j < PL {
            if j < n {
                assert!(t.recv_buf[RL + j] == p[off + j], "appended bytes are the in-sequence payload prefix, unaltered");
            }
            j += 1;
        }
    }
    let fin_ok = seg.flags.fin && !pre.peer_fin && seg.seq.wrapping_add(PL as u32) == pre.rcv_nxt.wrapping_add(n as u32);
    assert!(post.peer_fin == (pre.peer_fin || fin_ok));
    assert!(post.rcv_nxt == pre.rcv_nxt.wrapping_add(n as u32).wrapping_add(if fin_ok { 1 } else { 0 }), "rcv_nxt advances by exactly what was accepted");

    // ---- emitted acknowledgement: whenever something was accepted the peer is told, and the last
    // packet sent to it acknowledges exactly what was accepted and never advertises more room than
    // there is (nor a closed window while there is room)
    let emitted = k.outbound.len() - out_before;
    if n > 0 || fin_ok {
        assert!(emitted >= 1);
    }
    if emitted >= 1 {
        let pkt = k.outbound.back().unwrap();
        let s = tcp_of(pkt);
        assert!(pkt.src == L.ip() && pkt.dst == R.ip() && s.src_port == L.port() && s.dst_port == R.port());
        assert!(s.flags.ack && !s.flags.syn && !s.flags.rst);
        assert!(s.ack == post.rcv_nxt, "ACKs exactly what it accepted");
        let free = recv_cap - post.recv_len;
        assert!(s.window as usize <= free, "C16: never advertises more than the free room");
        assert!(free == 0 || s.window > 0, "room is advertised");
    }

    // ---- invariant re-established (state machine consistent with flags)
    assert!(post.wr_closed == pre.wr_closed && post.fin_seq == pre.fin_seq && !post.reset && !post.timed_out);
    let closed = post.wr_closed && post.peer_fin && post.fin_seq.map(|fs| fs.wrapping_add(1) == post.snd_una).unwrap_or(false);
    if closed {
        assert!(post.state == TcpState::Closed);
    } else {
        assert!(i6(&post, send_cap, recv_cap), "I6 preserved");
    }

    let obs = SegObs {
        whole: PL > 0 && n == PL,
        truncated: n > 0 && n < PL,
        all_acked: SL > 0 && ack_ok && data_acked == SL,
        fin_ok,
        fin_acked: fin_acked_now,
        ooo: PL > 0 && seg.seq != pre.rcv_nxt,
    };
    std::mem::forget(k);
    std::mem::forget(seg);
    obs
}

// @verif id=C06,C16 tier=quick role=segment_step timeout=600 desc=send=2,recv=1,payload=2,recv_cap=4
crate::verif_proof! { unwind = 6;
fn c06_segment_step_s2_r1_p2() {
    let o = segment_step::<2, 1, 2>(4);
    kani::cover!(o.whole, "whole payload accepted");
    kani::cover!(o.all_acked, "all data acknowledged");
    kani::cover!(o.fin_ok, "FIN accepted");
    kani::cover!(o.fin_acked, "our FIN acknowledged");
    kani::cover!(o.ooo, "out-of-order segment");
}
}
// @verif id=C06,C16 tier=quick role=segment_step timeout=600 desc=send=2,recv=1,payload=2,recv_cap=2(payload-does-not-fit)
crate::verif_proof! { unwind = 6;
fn c06_segment_step_s2_r1_p2_tight() {
    let o = segment_step::<2, 1, 2>(2);
    kani::cover!(o.truncated, "payload truncated to the free room");
    kani::cover!(o.all_acked && o.truncated, "ack and truncated data in one segment");
}
}
// @verif id=C06,C16,C13 tier=quick role=segment_step timeout=600 desc=send=1,recv=0,payload=0(pure-ack/fin:every-close-state-reaches-Closed-once-both-FINs-are-through)
crate::verif_proof! { unwind = 6;
fn c06_segment_step_s1_r0_p0() {
    let o = segment_step::<1, 0, 0>(2);
    kani::cover!(o.fin_ok && o.fin_acked, "FIN and FIN-ack in one segment");
    kani::cover!(o.all_acked, "all data acknowledged");
}
}
// @verif id=C06,C16 tier=thorough role=segment_step timeout=1800 desc=send=3,recv=2,payload=3,recv_cap=4
crate::verif_proof! { unwind = 8;
fn c06_segment_step_s3_r2_p3() {
    let o = segment_step::<3, 2, 3>(4);
    kani::cover!(o.truncated, "payload truncated");
    kani::cover!(o.all_acked, "all data acknowledged");
}
}
// @verif id=C06,C16 tier=thorough role=segment_step timeout=1800 desc=send=0,recv=3,payload=1,recv_cap=3(full)
crate::verif_proof! { unwind = 8;
fn c06_segment_step_s0_r3_p1_full() {
    let o = segment_step::<0, 3, 1>(3);
    kani::cover!(!o.whole && !o.truncated && !o.ooo, "in-order byte refused by a full buffer");
    kani::cover!(o.fin_acked, "FIN acknowledged");
}
}
// @verif id=C06,C16 tier=thorough role=segment_step timeout=1800 desc=send=4,recv=0,payload=4,recv_cap=8
crate::verif_proof! { unwind = 10;
fn c06_segment_step_s4_r0_p4() {
    let o = segment_step::<4, 0, 4>(8);
    kani::cover!(o.whole && o.all_acked, "full exchange");
}
}

// ---------------------------------------------------------------------------------------------------
// C06-S3 / C16-S3: segmentation is faithful and respects MSS and the peer's window.
//
// Pre-state: I6 TCB with SL buffered bytes (symbolic content), symbolic snd_una / in-flight / peer
// window, symbolic MTU giving an MSS of 1..=4 bytes. Operation: one `segment_all` pass.
// Every emitted segment must carry exactly the buffered bytes at its sequence offset, at most MSS
// bytes, never beyond the peer's window; the FIN goes out once, after the last byte, at fin_seq;
// and the pass is maximal: it stops only when nothing is unsent or the window is exhausted.
fn segment_pass<const SL: usize, const MSS: usize, const INFL: usize>(state: TcpState, una: u32, wnd: Option<u16>) -> (usize, bool, usize) {
    let send: [u8; SL] = any_bytes();
    let recv: [u8; 1] = any_bytes();
    let recv_cap = 3usize;
    let (mut k, fd) = mk_full(Some(state), Some((una, INFL as u32)), &send, &recv, SL + 1, recv_cap, L, R);
    // sizes that steer allocation are concrete per instance: MSS (via the MTU), bytes in flight and,
    // optionally, the peer window; sequence numbers, contents and close flags stay symbolic.
    k.mtu = 40 + MSS as u32; // IPv4 20 + TCP 20 + payload
    // the bound the property speaks of is the MSS implied by the MTU (= MSS here); the implementation
    // may segment more finely
    let mss = MSS;
    assert!(mss_for(&k, L.ip()) <= mss);
    {
        let t = k.sockets.get_mut(fd).unwrap().tcb.as_mut().unwrap();
        kani::assume(t.snd_nxt.wrapping_sub(t.snd_una) as usize == INFL);
        if let Some(w) = wnd {
            t.snd_wnd = w;
        }
    }
    let pre = snap(&k, fd);
    let infl0 = pre.snd_nxt.wrapping_sub(pre.snd_una) as usize;
    segment_all(&mut k);
    let post = snap(&k, fd);

    let m = k.outbound.len();
    assert!(m <= SL + 1);
    let mut next_seq = pre.snd_nxt;
    let mut i = 0;
    let mut fin_seen = false;
    while i < m {
        let pkt = k.outbound.get(i).unwrap();
        let s = tcp_of(pkt);
        assert!(pkt.src == L.ip() && pkt.dst == R.ip() && s.src_port == L.port() && s.dst_port == R.port());
        assert!(s.seq == next_seq, "segments are emitted back to back from snd_nxt");
        assert!(!fin_seen, "nothing follows the FIN");
        let off = s.seq.wrapping_sub(pre.snd_una) as usize;
        let n = s.payload.len();
        assert!(n <= mss, "C16: payload never exceeds the MSS");
        if s.flags.fin {
            assert!(n == 0 && Some(s.seq) == pre.fin_seq && off == SL, "FIN only at fin_seq after the last byte");
            fin_seen = true;
            assert!(off + 1 <= pre.snd_wnd as usize);
            next_seq = next_seq.wrapping_add(1);
        } else {
            assert!(n >= 1 && off + n <= SL);
            assert!(bytes_eq(&s.payload[..], &send[off..off + n]), "payload is the buffered bytes at that offset");
            assert!(off + n <= pre.snd_wnd as usize, "C16: never beyond the peer's window");
            next_seq = next_seq.wrapping_add(n as u32);
        }
        assert!(s.flags.ack && s.ack == pre.rcv_nxt && !s.flags.syn && !s.flags.rst);
        assert!(s.window as usize <= recv_cap - 1, "a data segment never advertises more than the free receive room");
        i += 1;
    }
    assert!(post.snd_nxt == next_seq && post.snd_una == pre.snd_una && post.send_len == SL);
    // progress: a pass that has something to send and a window to send it in emits at least one
    // segment (how MANY segments one pass emits is the implementation's pacing decision; the shipped
    // code is maximal - it stops only when nothing is unsent or the window is exhausted - and the
    // instance wrappers keep that as a reachability witness, not as a requirement)
    let infl1 = post.snd_nxt.wrapping_sub(post.snd_una) as usize;
    let unsent = SL.saturating_sub(infl1);
    let unsent0 = SL.saturating_sub(infl0);
    let wnd0 = (pre.snd_wnd as usize).saturating_sub(infl0);
    let fin_pending0 = pre.fin_seq == Some(pre.snd_nxt);
    assert!(m >= 1 || wnd0 == 0 || (unsent0 == 0 && !fin_pending0), "a sendable byte or FIN inside the window goes out");
    assert!(i6(&post, SL + 1, recv_cap));
    let _ = infl0;
    std::mem::forget(k);
    (m, fin_seen, unsent)
}

// @verif id=C06,C16 tier=quick role=segment_pass timeout=600 desc=Established,send=2,mss=1,inflight=0,wnd=65535,snd_una=u32::MAX(wraps)
crate::verif_proof! { unwind = 6;
fn c06_segment_pass_est_s2_m1_i0_wmax() {
    let (m, fin, unsent) = segment_pass::<2, 1, 0>(TcpState::Established, 0xFFFF_FFFF, Some(65535));
    assert!(m >= 1 && !fin);
    kani::cover!(m == 2 && unsent == 0, "two one-byte segments");
}
}
// @verif id=C06,C16 tier=quick role=segment_pass timeout=600 desc=FinWait1,send=2,mss=2,inflight=1,wnd=3,snd_una=u32::MAX-1
crate::verif_proof! { unwind = 6;
fn c06_segment_pass_fw1_s2_m2_i1() {
    let (m, fin, _) = segment_pass::<2, 2, 1>(TcpState::FinWait1, 0xFFFF_FFFE, Some(3));
    assert!(m >= 1);
    kani::cover!(m == 2 && fin, "emission continues behind in-flight data, then FIN");
}
}
// @verif id=C06,C16 tier=quick role=segment_pass timeout=600 desc=CloseWait,send=2,mss=2,inflight=0,wnd=1
crate::verif_proof! { unwind = 6;
fn c06_segment_pass_cw_s2_m2_i0_w1() {
    let (m, fin, unsent) = segment_pass::<2, 2, 0>(TcpState::CloseWait, 1000, Some(1));
    assert!(m == 1 && !fin && unsent == 1, "a window of one byte lets exactly one byte out");
    kani::cover!(unsent == 1, "stopped by the peer window");
}
}
// @verif id=C06,C16 tier=thorough role=segment_pass timeout=1800 desc=Established,send=3,mss=2,inflight=0,wnd=concrete
crate::verif_proof! { unwind = 7;
fn c06_segment_pass_est_s3_m2_i0() {
    let (m, _, unsent) = segment_pass::<3, 2, 0>(TcpState::Established, 0xFFFF_FFFD, Some(3));
    assert!(m >= 1);
    kani::cover!(m == 2 && unsent == 0, "2+1 bytes");
}
}
// (not shipped: out of memory at 8 GB in two thorough sweeps; LastAck is covered by the rewound instance above) C06,C16 role=segment_pass desc=LastAck,send=0(FIN-only),wnd=concrete
crate::verif_proof! { unwind = 5;
fn c06_segment_pass_la_s0() {
    let (m, fin, _) = segment_pass::<0, 1, 0>(TcpState::LastAck, 0xFFFF_FFFF, Some(1));
    kani::cover!(m == 1 && fin, "FIN only");
}
}
// @verif id=C06,C16 tier=thorough role=segment_pass timeout=1800 desc=Closing,send=1,mss=1,inflight=2(all sent incl FIN)
crate::verif_proof! { unwind = 5;
fn c06_segment_pass_closing_s1_all_sent() {
    let (m, _, _) = segment_pass::<1, 1, 2>(TcpState::Closing, 7, Some(9));
    assert!(m == 0);
    kani::cover!(m == 0, "nothing to send");
}
}

// After a retransmission rewind (snd_nxt = snd_una) every state that can still owe the peer bytes or a
// FIN must be swept again: Closing and LastAck are the two that only occur after our FIN was queued.
// @verif id=C06,C16 tier=quick role=segment_pass timeout=900 desc=Closing,send=1,mss=1,inflight=0(rewound),wnd=9
crate::verif_proof! { unwind = 6;
fn c06_segment_pass_closing_rewound_resends_data_and_fin() {
    let (m, fin, unsent) = segment_pass::<1, 1, 0>(TcpState::Closing, 0xFFFF_FFFF, Some(9));
    assert!(m >= 1, "a rewound Closing connection is swept again");
    kani::cover!(m == 2 && fin && unsent == 0, "data byte and FIN re-emitted in Closing");
}
}
// @verif id=C06,C16 tier=quick role=segment_pass timeout=900 desc=LastAck,send=1,mss=1,inflight=0(rewound),wnd=9
crate::verif_proof! { unwind = 6;
fn c06_segment_pass_lastack_rewound_resends_data_and_fin() {
    let (m, fin, unsent) = segment_pass::<1, 1, 0>(TcpState::LastAck, 41, Some(9));
    assert!(m >= 1, "a rewound LastAck connection is swept again");
    kani::cover!(m == 2 && fin && unsent == 0, "data byte and FIN re-emitted in LastAck");
}
}

// ---------------------------------------------------------------------------------------------------
// C16-S1: poll_send never queues beyond the send cap, accepts exactly the prefix that fits, parks
// when full, and refuses on a closed write side / non-writable state.
fn send_step<const SL: usize, const BL: usize>(send_cap: usize) -> (bool, bool) {
    let send: [u8; SL] = any_bytes();
    let recv: [u8; 0] = any_bytes();
    let (mut k, fd) = mk(&send, &recv, send_cap, 2, L, R);
    let pre = snap(&k, fd);
    let buf: [u8; BL] = any_bytes();
    let mut cx = noop_cx();
    let out_before = k.outbound.len();
    let r = poll_send(&mut k, fd, &mut cx, &buf);
    let post = snap(&k, fd);
    let writable = !pre.wr_closed && (pre.state == TcpState::Established || pre.state == TcpState::CloseWait);
    let space = send_cap - SL;
    assert!(post.send_len <= send_cap, "C16: send cap respected");
    assert!(k.outbound.len() == out_before, "nothing hits the wire before egress");
    match r {
        Poll::Pending => {
            assert!(writable && space == 0, "parks exactly when the buffer is full");
            assert!(post.send_len == SL);
        }
        Poll::Ready(res) => {
            let (v, o) = take(res);
            if writable {
                // a short write is legitimate; accepting nothing while there is room is not
                let max = if BL < space { BL } else { space };
                assert!(space > 0 && o == Outcome::Ok);
                let n = match v {
                    Some(n) => n,
                    None => panic!("Ok carries the count"),
                };
                assert!(n <= max && (n >= 1 || BL == 0), "accepts a non-empty prefix that fits");
                assert!(post.send_len == SL + n);
                let t = k.sockets.get(fd).unwrap().tcb.as_ref().unwrap();
                assert!(bytes_eq(&t.send_buf[..SL], &send), "bytes queued earlier are untouched");
                let mut j = 0;
                while j < BL {
                    if j < n {
                        assert!(t.send_buf[SL + j] == buf[j], "accepted bytes are appended unaltered, in order");
                    }
                    j += 1;
                }
            } else {
                assert!(post.send_len == SL, "a refused write queues nothing");
                assert!(o != Outcome::Ok, "a write on a closed write side / unconnected socket is an error");
            }
        }
    }
    assert!(post.snd_una == pre.snd_una && post.snd_nxt == pre.snd_nxt && post.fin_seq == pre.fin_seq);
    assert!(i6(&post, send_cap, 2));
    std::mem::forget(k);
    (writable, pre.wr_closed)
}
// @verif id=C16 tier=quick role=poll_send timeout=600 desc=buffered=1,cap=3,request=3(partial)
crate::verif_proof! { unwind = 6;
fn c16_send_step_s1_b3_cap3() {
    let (writable, closed) = send_step::<1, 3>(3);
    kani::cover!(writable, "write reached a writable socket");
    kani::cover!(closed, "write after shutdown refused");
}
}
// @verif id=C16 tier=quick role=poll_send timeout=600 desc=buffered=2,cap=2,request=1(full->Pending)
crate::verif_proof! { unwind = 6;
fn c16_send_step_s2_b1_cap2() {
    let (writable, closed) = send_step::<2, 1>(2);
    kani::cover!(writable, "write reached a writable socket");
    kani::cover!(closed, "write after shutdown refused");
}
}
// @verif id=C16 tier=thorough role=poll_send timeout=900 desc=buffered=0,cap=4,request=2
crate::verif_proof! { unwind = 6;
fn c16_send_step_s0_b2_cap4() {
    let (writable, closed) = send_step::<0, 2>(4);
    kani::cover!(writable, "write reached a writable socket");
    kani::cover!(closed, "write after shutdown refused");
}
}
// @verif id=C16 tier=thorough role=poll_send timeout=900 desc=buffered=3,cap=4,request=0
crate::verif_proof! { unwind = 6;
fn c16_send_step_s3_b0_cap4() {
    let (writable, closed) = send_step::<3, 0>(4);
    kani::cover!(writable, "write reached a writable socket");
    kani::cover!(closed, "write after shutdown refused");
}
}

// ---------------------------------------------------------------------------------------------------
// C06 (reader side): poll_recv hands out exactly the oldest buffered bytes, in order, and keeps the
// rest; EOF only after the peer's FIN with an empty buffer; peek does not consume.
// D2 (derived, progress): a read that re-opens a window the peer last saw as ZERO must advertise it,
// otherwise a sender with nothing in flight has no timer running and waits forever.
fn recv_step<const RL: usize, const BL: usize>(recv_cap: usize, check_window_reopen: bool) -> (bool, bool, bool) {
    let send: [u8; 0] = any_bytes();
    let recv: [u8; RL] = any_bytes();
    let (mut k, fd) = mk(&send, &recv, 2, recv_cap, L, R);
    let pre = snap(&k, fd);
    let mut buf: [u8; BL] = [0; BL];
    let mut cx = noop_cx();
    let peek: bool = if check_window_reopen { false } else { kani::any() };
    let r = if peek { poll_peek(&mut k, fd, &mut cx, &mut buf) } else { poll_recv(&mut k, fd, &mut cx, &mut buf) };
    let post = snap(&k, fd);
    let readable = matches!(pre.state, TcpState::Established | TcpState::FinWait1 | TcpState::FinWait2 | TcpState::CloseWait);
    let max = if RL < BL { RL } else { BL };
    let mut n = 0usize;
    match r {
        Poll::Pending => {
            assert!(RL == 0 && !pre.peer_fin && readable, "a reader parks only on an open connection with nothing buffered");
        }
        Poll::Ready(res) => {
            let (v, o) = take(res);
            if RL == 0 {
                if pre.peer_fin {
                    assert!(o == Outcome::Ok && v == Some(0), "EOF after FIN once drained");
                } else {
                    assert!(!readable && o != Outcome::Ok);
                }
            } else {
                assert!(o == Outcome::Ok);
                n = match v {
                    Some(n) => n,
                    None => panic!("Ok carries the count"),
                };
                // a short read is legitimate; EOF (0) while bytes are buffered is not
                assert!(n <= max && (n >= 1 || BL == 0));
                let t = k.sockets.get(fd).unwrap().tcb.as_ref().unwrap();
                let mut j = 0;
                while j < BL {
                    if j < n {
                        assert!(buf[j] == recv[j], "bytes read are the oldest buffered bytes, unaltered");
                    }
                    j += 1;
                }
                if peek {
                    assert!(post.recv_len == RL && bytes_eq(&t.recv_buf[..], &recv), "peek consumes nothing");
                } else {
                    assert!(post.recv_len == RL - n, "exactly the bytes handed out leave the buffer");
                    let mut j = 0;
                    while j < RL {
                        if j + n < RL {
                            assert!(t.recv_buf[j] == recv[j + n], "the rest stays queued in order");
                        }
                        j += 1;
                    }
                }
            }
        }
    }
    // an emitted packet is an ACK for what was received so far that never advertises more than the
    // true free room
    if k.outbound.len() > 0 {
        let s = tcp_of(k.outbound.back().unwrap());
        assert!(s.flags.ack && s.payload.is_empty() && !s.flags.fin && !s.flags.syn && !s.flags.rst);
        assert!(s.ack == pre.rcv_nxt);
        let free = recv_cap - post.recv_len;
        assert!(s.window as usize <= free && (free == 0 || s.window > 0));
    }
    if check_window_reopen && RL == recv_cap && n > 0 && !pre.peer_fin {
        // D2: the peer was last told "window 0"
        assert!(k.outbound.len() >= 1, "D2: window re-opened from zero must be advertised");
    }
    assert!(post.rcv_nxt == pre.rcv_nxt && post.peer_fin == pre.peer_fin && post.state == pre.state);
    assert!(i6(&post, 2, recv_cap));
    let emitted = k.outbound.len() > 0;
    std::mem::forget(k);
    (RL > 0 && BL > 0 && !peek, RL == 0 && pre.peer_fin, emitted)
}
// @verif id=C06 tier=quick role=poll_recv timeout=600 desc=buffered=3,read=2,cap=4
crate::verif_proof! { unwind = 6;
fn c06_recv_step_r3_b2() {
    let (consumed, _, emitted) = recv_step::<3, 2>(4, false);
    kani::cover!(consumed && emitted, "read with window update");
    kani::cover!(!consumed, "peek");
}
}
// @verif id=C06 tier=quick role=poll_recv timeout=600 desc=buffered=0,read=2(EOF/Pending)
crate::verif_proof! { unwind = 6;
fn c06_recv_step_r0_b2() {
    let (_, eof, _) = recv_step::<0, 2>(4, false);
    kani::cover!(eof, "EOF reported");
    kani::cover!(!eof, "pending or not connected");
}
}
// @verif id=C06 tier=thorough role=poll_recv timeout=900 desc=buffered=2,read=4,cap=2
crate::verif_proof! { unwind = 6;
fn c06_recv_step_r2_b4() {
    let (consumed, _, emitted) = recv_step::<2, 4>(2, false);
    kani::cover!(consumed && emitted, "drained with window update");
}
}
// @verif id=C06 tier=quick role=window_reopen derived=1 witness=c06_small_reads_of_full_window timeout=600 desc=D2:buffer-full(4/4),read=1
crate::verif_proof! { unwind = 6;
fn c06_recv_reopens_zero_window_r4_b1() {
    let (consumed, _, _) = recv_step::<4, 1>(4, true);
    kani::cover!(consumed, "one byte read from a full buffer");
}
}
// @verif id=C06 tier=thorough role=window_reopen derived=1 witness=c06_small_reads_of_full_window timeout=600 desc=D2:buffer-full(2/2),read=1
crate::verif_proof! { unwind = 6;
fn c06_recv_reopens_zero_window_r2_b1() {
    let (consumed, _, _) = recv_step::<2, 1>(2, true);
    kani::cover!(consumed, "one byte read from a full buffer");
}
}

// ---------------------------------------------------------------------------------------------------
// shutdown(Write): queues the FIN right behind the last accepted byte, once.
fn shutdown_step<const SL: usize>() {
    let send: [u8; SL] = any_bytes();
    let recv: [u8; 0] = any_bytes();
    let (mut k, fd) = mk(&send, &recv, SL + 1, 2, L, R);
    let pre = snap(&k, fd);
    let mut cx = noop_cx();
    let r = poll_shutdown_write(&mut k, fd, &mut cx);
    let post = snap(&k, fd);
    let Poll::Ready(res) = r else { panic!("shutdown never parks") };
    let (_, o) = take(res);
    assert!(o == Outcome::Ok);
    assert!(post.wr_closed);
    if pre.wr_closed {
        assert!(post.fin_seq == pre.fin_seq && post.state == pre.state, "idempotent");
    } else {
        assert!(post.fin_seq == Some(pre.snd_una.wrapping_add(SL as u32)), "FIN is sequenced after the last accepted byte");
        assert!(post.state == if pre.state == TcpState::Established { TcpState::FinWait1 } else { TcpState::LastAck });
    }
    assert!(post.send_len == SL && post.snd_una == pre.snd_una && post.snd_nxt == pre.snd_nxt);
    assert!(i6(&post, SL + 1, 2));
    kani::cover!(!pre.wr_closed && pre.state == TcpState::CloseWait, "shutdown after peer FIN");
    kani::cover!(pre.wr_closed, "second shutdown");
    std::mem::forget(k);
}
// @verif id=C06 tier=quick role=shutdown timeout=600 desc=buffered=2
crate::verif_proof! { unwind = 6;
fn c06_shutdown_step_s2() { shutdown_step::<2>(); }
}

// ---------------------------------------------------------------------------------------------------
// C06-S4: count-based retransmission. One `check_retx` pass. The three branches (below threshold /
// rewind / budget exhausted) are separate instances with concrete counters (a symbolic counter makes
// the abort and resend lists symbolic-length: 335 s symex + OOM); contents, rcv_nxt, windows stay
// symbolic and snd_una sits next to u32::MAX in the rewind instance.
//  * below the threshold nothing changes but the pass counter;
//  * at the threshold with budget left snd_nxt is rewound to snd_una (go-back-N), an attempt is charged;
//  * with the budget exhausted the connection is aborted with timed_out, and every later read /
//    write / peek reports TimedOut - never Ok with silently dropped data.
fn retx_step<const SL: usize>(state: TcpState, una: u32, infl0: u32, esa: u32, attempts: u32, thr: u32, max: u32) -> (bool, bool) {
    let send: [u8; SL] = any_bytes();
    let recv: [u8; 1] = any_bytes();
    let (mut k, fd) = mk_full(Some(state), Some((una, infl0)), &send, &recv, SL + 1, 2, L, R);
    k.retx_threshold = thr;
    k.retx_max = max;
    {
        let t = k.sockets.get_mut(fd).unwrap().tcb.as_mut().unwrap();
        t.egress_since_ack = esa;
        t.retx_attempts = attempts;
    }
    let pre = snap(&k, fd);
    let infl = pre.snd_nxt.wrapping_sub(pre.snd_una);
    check_retx(&mut k);
    let post = snap(&k, fd);
    let timer_runs = infl != 0 && pre.state != TcpState::FinWait2;
    if !timer_runs {
        assert!(post.snd_nxt == pre.snd_nxt && post.state == pre.state && !post.timed_out);
        assert!(post.egress_since_ack == pre.egress_since_ack && post.retx_attempts == pre.retx_attempts);
    } else if pre.egress_since_ack + 1 < thr {
        assert!(post.egress_since_ack == pre.egress_since_ack + 1);
        assert!(post.snd_nxt == pre.snd_nxt && post.retx_attempts == pre.retx_attempts && !post.timed_out);
    } else if pre.retx_attempts < max {
        assert!(post.snd_nxt == pre.snd_una, "go-back-N: rewind to the oldest unacknowledged byte");
        assert!(post.retx_attempts == pre.retx_attempts + 1 && post.egress_since_ack == 0 && !post.timed_out);
        assert!(post.send_len == SL && post.state == pre.state);
    } else {
        assert!(post.timed_out && !post.reset && post.state == TcpState::Closed, "budget exhausted surfaces as an abort");
        let mut cx = noop_cx();
        let mut b = [0u8; 1];
        let Poll::Ready(r1) = poll_recv(&mut k, fd, &mut cx, &mut b) else { panic!("must not park") };
        assert!(take(r1).1 == Outcome::TimedOut, "never silent loss: read reports TimedOut");
        let Poll::Ready(r2) = poll_send(&mut k, fd, &mut cx, &b) else { panic!("must not park") };
        assert!(take(r2).1 == Outcome::TimedOut);
        let Poll::Ready(r3) = poll_peek(&mut k, fd, &mut cx, &mut b) else { panic!("must not park") };
        assert!(take(r3).1 == Outcome::TimedOut);
    }
    assert!(k.outbound.len() == 0, "data retransmission is left to segment_all");
    assert!(post.snd_una == pre.snd_una);
    let rewound = timer_runs && post.snd_nxt == pre.snd_una && infl > 0 && !post.timed_out;
    std::mem::forget(k);
    (rewound, post.timed_out)
}
// @verif id=C06 tier=quick role=check_retx timeout=600 desc=Established,buffered=2,rewind-at-threshold,snd_una=u32::MAX
crate::verif_proof! { unwind = 4;
fn c06_retx_rewinds_at_threshold() {
    let (rewound, timed_out) = retx_step::<2>(TcpState::Established, 0xFFFF_FFFF, 2, 2, 1, 3, 5);
    assert!(rewound && !timed_out);
    kani::cover!(rewound, "rewound");
}
}
// @verif id=C06 tier=quick role=check_retx timeout=600 desc=CloseWait,buffered=2,budget-exhausted->TimedOut
crate::verif_proof! { unwind = 4;
fn c06_retx_exhaustion_surfaces_as_timed_out() {
    let (rewound, timed_out) = retx_step::<2>(TcpState::CloseWait, 77, 1, 2, 5, 3, 5);
    assert!(!rewound && timed_out);
    kani::cover!(timed_out, "timed out");
}
}
// @verif id=C06 tier=quick role=check_retx timeout=600 desc=Established,buffered=2,LAST-attempt-of-the-budget(attempts=max-1)-still-rewinds
crate::verif_proof! { unwind = 4;
fn c06_retx_last_budgeted_attempt_is_still_sent() {
    let (rewound, timed_out) = retx_step::<2>(TcpState::Established, 9, 2, 2, 4, 3, 5);
    assert!(rewound && !timed_out, "retx_max retransmissions are sent before giving up");
    kani::cover!(rewound, "last budgeted retransmission");
}
}
// @verif id=C06 tier=thorough role=check_retx timeout=600 desc=LastAck,buffered=1,retx_max=2,attempts=1
crate::verif_proof! { unwind = 4;
fn c06_retx_small_budget_boundary() {
    let (rewound, timed_out) = retx_step::<1>(TcpState::LastAck, 0xFFFF_FFFE, 2, 0, 1, 1, 2);
    assert!(rewound && !timed_out);
    kani::cover!(rewound, "second of two budgeted retransmissions");
}
}
// @verif id=C06 tier=thorough role=check_retx timeout=600 desc=FinWait1,buffered=1,below-threshold
crate::verif_proof! { unwind = 4;
fn c06_retx_counts_passes_below_threshold() {
    let (rewound, timed_out) = retx_step::<1>(TcpState::FinWait1, 5, 2, 0, 0, 3, 5);
    assert!(!rewound && !timed_out);
    kani::cover!(!rewound, "counted");
}
}
// (not shipped: no verdict in 10 min in the thorough sweep) C06 role=check_retx desc=FinWait2(no-timer)
crate::verif_proof! { unwind = 4;
fn c06_retx_no_timer_without_inflight() {
    let (rewound, timed_out) = retx_step::<0>(TcpState::FinWait2, 5, 0, 2, 5, 3, 5);
    assert!(!rewound && !timed_out);
    kani::cover!(!rewound, "no timer in FinWait2");
}
}

// ---------------------------------------------------------------------------------------------------
// C16 on bare values: MSS and advertised window for ALL configuration values.
// @verif id=C16 tier=quick role=mss_formula
#[kani::proof]
#[kani::unwind(18)]
fn c16_mss_is_mtu_minus_headers_for_every_mtu() {
    let mut k = Kernel::new();
    k.mtu = kani::any();
    k.loopback_mtu = kani::any();
    let which: u8 = kani::any();
    let ip = match which % 4 {
        0 => IpAddr::V4(Ipv4Addr::new(10, kani::any(), kani::any(), 1)),
        1 => IpAddr::V4(Ipv4Addr::new(127, kani::any(), kani::any(), kani::any())),
        2 => IpAddr::V6(Ipv6Addr::LOCALHOST),
        _ => IpAddr::V6(Ipv6Addr::new(0xfd00, 0, 0, 0, 0, 0, 0, kani::any())),
    };
    let mtu = if which % 4 == 1 || which % 4 == 2 { k.loopback_mtu } else { k.mtu };
    let hdr: u32 = if ip.is_ipv4() { 20 + 20 } else { 40 + 20 };
    let expect = if mtu > hdr { mtu - hdr } else { 0 };
    // the MSS "implied by the MTU" is an upper bound on what may be used: never more than the MTU of
    // the interface the segment leaves from minus IP and TCP headers, and not zero while there is room
    // for a payload byte (a smaller MSS, e.g. one that reserves option space, is just as right)
    let mss = mss_for(&k, ip);
    assert!(mss <= expect as usize, "MSS never exceeds MTU minus IP and TCP headers of the leaving interface");
    assert!(expect == 0 || mss >= 1, "a usable MTU gives a usable MSS");
    kani::cover!(expect == 0, "MTU below the header size");
    kani::cover!(which % 4 == 2 && expect > 0, "IPv6 loopback");
    std::mem::forget(k);
}

// @verif id=C16 tier=quick role=window_formula
#[kani::proof]
fn c16_advertised_window_is_free_room_capped_at_u16() {
    let cap: usize = kani::any();
    let len: usize = kani::any();
    let w = advertised_window(cap, len) as usize;
    let free = if cap > len { cap - len } else { 0 };
    // never more than the free room (a window field is 16 bits anyway), not zero while there is room
    assert!(w <= free && w <= 65535);
    assert!(free == 0 || w > 0);
    kani::cover!(free > 65535, "window clamps at 65535");
    kani::cover!(len > cap, "over-full buffer advertises zero");
}

// ---------------------------------------------------------------------------------------------------
// C06/C13: the per-state dispatcher with a CONCRETE state.
//  * RST on any connection aborts it: state Closed, reset flag, buffers cleared, later reads/writes
//    report ConnectionReset;
//  * a Closed TCB ignores late traffic.
fn dispatch_rst(state: TcpState) {
    let send: [u8; 2] = any_bytes();
    let recv: [u8; 1] = any_bytes();
    let (mut k, fd) = mk_in(Some(state), &send, &recv, 3, 2, L, R);
    let seg = TcpSegment {
        src_port: R.port(),
        dst_port: L.port(),
        seq: kani::any(),
        ack: kani::any(),
        flags: TcpFlags { syn: false, ack: kani::any(), fin: kani::any(), rst: true, psh: false, urg: false },
        window: kani::any(),
        payload: Bytes::new(),
    };
    handle_on_connection(&mut k, fd, L, R, &seg);
    let post = snap(&k, fd);
    assert!(post.state == TcpState::Closed && post.reset && !post.timed_out);
    assert!(post.send_len == 0 && post.recv_len == 0, "post-RST reads see the error, not stale data");
    assert!(k.outbound.len() == 0, "a RST is never answered");
    let mut cx = noop_cx();
    let mut b = [0u8; 1];
    let Poll::Ready(r1) = poll_recv(&mut k, fd, &mut cx, &mut b) else { panic!("must not park") };
    assert!(take(r1).1 == Outcome::ConnectionReset);
    let Poll::Ready(r2) = poll_send(&mut k, fd, &mut cx, &b) else { panic!("must not park") };
    assert!(take(r2).1 == Outcome::ConnectionReset);
    kani::cover!(post.reset, "reset");
    std::mem::forget(k);
    std::mem::forget(seg);
}
// @verif id=C06,C13 tier=quick role=dispatch_rst timeout=600 desc=Established
crate::verif_proof! { unwind = 5;
fn c06_dispatch_rst_established() { dispatch_rst(TcpState::Established); }
}
// @verif id=C06,C13 tier=thorough role=dispatch_rst timeout=600 desc=FinWait1
crate::verif_proof! { unwind = 5;
fn c06_dispatch_rst_finwait1() { dispatch_rst(TcpState::FinWait1); }
}

// @verif id=C06 tier=quick role=dispatch_data timeout=600 desc=CloseWait:data-dispatch-equals-handle_established
crate::verif_proof! { unwind = 6;
fn c06_dispatch_data_state_reaches_established_handler() {
    // the dispatcher hands data states to handle_established: an in-order byte is accepted
    let send: [u8; 1] = any_bytes();
    let recv: [u8; 0] = any_bytes();
    let (mut k, fd) = mk_in(Some(TcpState::Established), &send, &recv, 2, 2, L, R);
    let pre = snap(&k, fd);
    let p: [u8; 1] = any_bytes();
    let seg = TcpSegment { src_port: R.port(), dst_port: L.port(), seq: pre.rcv_nxt, ack: 0,
        flags: TcpFlags { syn: false, ack: false, fin: false, rst: false, psh: true, urg: false },
        window: 0, payload: Bytes::copy_from_slice(&p) };
    handle_on_connection(&mut k, fd, L, R, &seg);
    let post = snap(&k, fd);
    assert!(post.recv_len == 1 && post.rcv_nxt == pre.rcv_nxt.wrapping_add(1));
    let t = k.sockets.get(fd).unwrap().tcb.as_ref().unwrap();
    assert!(t.recv_buf[0] == p[0]);
    kani::cover!(post.recv_len == 1, "byte accepted through the dispatcher");
    std::mem::forget(k);
    std::mem::forget(seg);
}
}

// ---------------------------------------------------------------------------------------------------
// C13-S4/S1: close decision table and index hygiene on one connected socket.
//  * unread bytes at close -> RST to the peer, entry reclaimed by the end of the egress pass;
//  * clean close of a live connection -> lingers: FIN queued right behind the buffered bytes (if the
//    write side was still open), the application handle is gone (fd_closed), nothing accepted for
//    sending is dropped;
//  * whenever the entry is reclaimed, the socket, its binding and its 4-tuple index entry are ALL gone.
fn close_step<const SL: usize, const RL: usize>(state: TcpState) -> bool {
    let send: [u8; SL] = any_bytes();
    let recv: [u8; RL] = any_bytes();
    let (mut k, fd) = mk_in(Some(state), &send, &recv, SL + 1, RL + 1, L, R);
    let pre = snap(&k, fd);
    k.close(fd);
    if RL > 0 {
        // the peer is told with a RST addressed to it (its exact position in `outbound`, and whether
        // the entry disappears inside close or at the next end-of-egress sweep, are not asserted:
        // "reclaimed within a bounded number of ticks" is what the property states)
        let mut rst_seen = false;
        let mut i = 0;
        while i < k.outbound.len() {
            let pkt = k.outbound.get(i).unwrap();
            let s = tcp_of(pkt);
            if s.flags.rst && pkt.dst == R.ip() && s.dst_port == R.port() && pkt.src == L.ip() && s.src_port == L.port() {
                rst_seen = true;
                assert!(s.seq == pre.snd_nxt, "a RST the peer will accept: it sits at the sender's next sequence number");
            }
            i += 1;
        }
        assert!(rst_seen, "abortive close (unread bytes): the peer is told with a RST");
        reap_closed(&mut k);
        assert!(k.sockets.get(fd).is_none(), "abortive close: reclaimed by the end of the egress pass at the latest");
    } else {
        let gone_now = k.sockets.get(fd).is_none();
        // a clean close must not throw away what is still owed to the peer: buffered bytes and/or a
        // FIN that is not acknowledged yet (every state here except FinWait2 with nothing buffered)
        if SL > 0 || pre.state != TcpState::FinWait2 {
            assert!(!gone_now, "clean close lingers until the close handshake ends");
        }
        if !gone_now {
            let post = snap(&k, fd);
            assert!(k.sockets.get(fd).unwrap().fd_closed && post.wr_closed);
            if !pre.wr_closed {
                assert!(post.fin_seq == Some(pre.snd_una.wrapping_add(SL as u32)), "FIN goes after the last accepted byte");
                assert!(post.state == if pre.state == TcpState::Established { TcpState::FinWait1 } else { TcpState::LastAck });
            } else {
                assert!(post.fin_seq == pre.fin_seq && post.state == pre.state);
            }
            assert!(post.send_len == SL, "nothing that was accepted for sending is dropped by close");
            assert!(i6(&post, SL + 1, RL + 1));
        }
    }
    let gone = k.sockets.get(fd).is_none();
    if gone {
        assert!(k.sockets.find_connection(L, R).is_none(), "4-tuple index entry reclaimed");
        let key = BindKey { domain: Domain::Inet, ty: Type::Stream, local_addr: L.ip(), local_port: L.port() };
        assert!(k.sockets.find_by_bind(&key).is_empty(), "binding reclaimed");
        assert!(k.sockets.iter().count() == 0);
    }
    std::mem::forget(k);
    gone
}
// @verif id=C13 tier=quick role=close_table timeout=600 desc=Established,unread=1->RST
crate::verif_proof! { unwind = 6;
fn c13_close_with_unread_bytes_resets() {
    let gone = close_step::<1, 1>(TcpState::Established);
    kani::cover!(gone, "reclaimed");
}
}
// @verif id=C13 tier=quick role=close_table timeout=600 desc=Established,clean->linger+FIN
crate::verif_proof! { unwind = 6;
fn c13_clean_close_lingers_and_queues_fin() {
    let gone = close_step::<2, 0>(TcpState::Established);
    kani::cover!(!gone, "lingering");
}
}
// @verif id=C13 tier=thorough role=close_table timeout=600 desc=CloseWait,clean->LastAck
crate::verif_proof! { unwind = 6;
fn c13_clean_close_after_peer_fin() {
    let gone = close_step::<1, 0>(TcpState::CloseWait);
    kani::cover!(!gone, "lingering");
}
}
// @verif id=C13 tier=thorough role=close_table timeout=600 desc=FinWait2(already-shut),clean
crate::verif_proof! { unwind = 6;
fn c13_clean_close_after_shutdown() {
    let gone = close_step::<0, 0>(TcpState::FinWait2);
    kani::cover!(!gone, "lingering");
}
}

// C13: lingering sockets are reaped at the end of egress once Closed or reset, and only then; a
// terminal socket without an application handle must not stay in the table (D1).
fn reap_step(fd_closed: bool, terminal: u8) -> bool {
    let send: [u8; 0] = any_bytes();
    let recv: [u8; 0] = any_bytes();
    let (mut k, fd) = mk_in(Some(TcpState::FinWait2), &send, &recv, 1, 1, L, R);
    {
        let st = k.sockets.get_mut(fd).unwrap();
        st.fd_closed = fd_closed;
        let t = st.tcb.as_mut().unwrap();
        match terminal {
            0 => {}
            1 => t.state = TcpState::Closed,
            2 => {
                t.state = TcpState::Closed;
                t.reset = true;
            }
            _ => {
                t.state = TcpState::Closed;
                t.timed_out = true;
            }
        }
    }
    reap_closed(&mut k);
    let gone = k.sockets.get(fd).is_none();
    if fd_closed {
        assert!(gone == (terminal != 0), "reaped exactly when terminal");
    } else {
        assert!(!gone, "a socket whose handle is still held is never reaped");
    }
    if gone {
        assert!(k.sockets.find_connection(L, R).is_none() && k.sockets.iter().count() == 0);
    }
    std::mem::forget(k);
    gone
}
// @verif id=C13 tier=quick role=reap timeout=600 desc=lingering,Closed
crate::verif_proof! { unwind = 4;
fn c13_reap_lingering_closed_socket() {
    let gone = reap_step(true, 1);
    kani::cover!(gone, "reaped");
}
}
// @verif id=C13 tier=quick role=reap timeout=600 desc=lingering,still-closing
crate::verif_proof! { unwind = 4;
fn c13_reap_keeps_socket_that_is_still_closing() {
    let gone = reap_step(true, 0);
    kani::cover!(!gone, "still closing");
}
}
// @verif id=C13 tier=thorough role=reap timeout=600 desc=lingering,timed-out
crate::verif_proof! { unwind = 4;
fn c13_reap_lingering_timed_out_socket() {
    let gone = reap_step(true, 3);
    kani::cover!(gone, "reaped");
}
}
// @verif id=C13 tier=thorough role=reap timeout=600 desc=handle-held,reset
crate::verif_proof! { unwind = 4;
fn c13_reap_never_takes_a_socket_whose_handle_is_held() {
    let gone = reap_step(false, 2);
    kani::cover!(!gone, "kept");
}
}

// ===================================================================================================
// Listener + child harnesses (two sockets in one kernel): C13 handshake / backlog / accept /
// reclamation of never-accepted children, C17 TCP demultiplexing.

pub(crate) const R2: SocketAddr = SocketAddr::new(IpAddr::V4(Ipv4Addr::new(10, 0, 0, 3)), 4001);

/// Kernel with a listening socket bound to `bind_ip:80` (what bind + listen leave behind).
fn mk_listener(bind_ip: IpAddr, backlog: usize) -> (Kernel, Fd) {
    let mut k = Kernel::new();
    k.add_address(A);
    let key = BindKey { domain: Domain::Inet, ty: Type::Stream, local_addr: bind_ip, local_port: 80 };
    let mut st = Socket::new(Domain::Inet, Type::Stream);
    st.bound = Some(key.clone());
    st.listen = Some(crate::kernel::socket::ListenState::new(backlog));
    let fd = k.sockets.insert(st);
    k.sockets.insert_binding(key, fd);
    (k, fd)
}

fn syn_from(remote: SocketAddr, seq: u32, window: u16) -> (Packet, TcpSegment) {
    let s = TcpSegment {
        src_port: remote.port(),
        dst_port: 80,
        seq,
        ack: 0,
        flags: TcpFlags { syn: true, ack: false, fin: false, rst: false, psh: false, urg: false },
        window,
        payload: Bytes::new(),
    };
    (Packet { src: remote.ip(), dst: A, ttl: 64, payload: Transport::Tcp(s.clone()) }, s)
}

/// `accept_syn` step. Listener shape and backlog are concrete per instance; the SYN's sequence
/// number and window are symbolic. A SYN for a listening address creates exactly one child in
/// SynReceived, indexed under (local, remote) with mirrored addresses, answers with a SYN-ACK
/// acknowledging seq+1 - but only while (handshaking + accept-ready children) < backlog.
fn syn_step(wildcard: bool, backlog: usize) -> bool {
    let (mut k, lfd) = mk_listener(if wildcard { IpAddr::V4(Ipv4Addr::UNSPECIFIED) } else { A }, backlog);
    let seq: u32 = kani::any();
    let (pkt, s) = syn_from(R, seq, kani::any());
    deliver(&mut k, &pkt, &s);
    let n = k.sockets.iter().count();
    let created = n == 2;
    if backlog == 0 {
        assert!(n == 1 && k.outbound.len() == 0 && k.sockets.find_connection(L, R).is_none(), "backlog full: SYN dropped");
    } else {
        assert!(n == 2, "exactly one child");
        let child = k.sockets.find_connection(L, R).unwrap();
        assert!(child != lfd);
        let st = k.sockets.get(child).unwrap();
        let t = st.tcb.as_ref().unwrap();
        assert!(t.state == TcpState::SynReceived && t.peer == R && t.rcv_nxt == seq.wrapping_add(1));
        assert!(st.peer == Some(Addr::Inet(R)) && st.listen.is_none() && !st.fd_closed);
        let b = st.bound.as_ref().unwrap();
        assert!(b.local_addr == A && b.local_port == 80, "child inherits the concrete accepted address");
        assert!(k.outbound.len() == 1);
        let o = tcp_of(k.outbound.back().unwrap());
        assert!(o.flags.syn && o.flags.ack && o.ack == seq.wrapping_add(1) && o.seq.wrapping_add(1) == t.snd_nxt);
        assert!(k.outbound.back().unwrap().dst == R.ip() && o.dst_port == R.port() && o.src_port == 80);
        assert!(k.sockets.get(lfd).unwrap().listen.as_ref().unwrap().ready.len() == 0, "not accept-ready before the handshake ends");
    }
    std::mem::forget(k);
    std::mem::forget(pkt);
    std::mem::forget(s);
    created
}
// @verif id=C13,C17 tier=quick role=accept_syn timeout=900 desc=listener=A:80,backlog=1
crate::verif_proof! { unwind = 8;
fn c13_syn_creates_one_child() {
    let created = syn_step(false, 1);
    kani::cover!(created, "child created");
}
}
// @verif id=C13,C17 tier=quick role=accept_syn timeout=900 desc=listener=0.0.0.0:80,backlog=1
crate::verif_proof! { unwind = 8;
fn c13_syn_to_wildcard_listener_creates_child_with_concrete_address() {
    let created = syn_step(true, 1);
    kani::cover!(created, "child of a wildcard listener");
}
}
// @verif id=C13 tier=quick role=accept_syn timeout=900 desc=listener=A:80,backlog=0
crate::verif_proof! { unwind = 8;
fn c13_syn_is_dropped_when_backlog_is_full() {
    let created = syn_step(false, 0);
    kani::cover!(!created, "SYN dropped by a full backlog");
}
}

/// listener + one child for remote `remote` built directly (what accept_syn leaves behind);
/// `snd_una` of the child is symbolic, so the expected handshake ACK number is too.
fn mk_listener_with_child(backlog: usize, state: TcpState) -> (Kernel, Fd, Fd, u32) {
    mk_listener_with_child_on(A, backlog, state)
}
fn mk_listener_with_child_on(bind_ip: IpAddr, backlog: usize, state: TcpState) -> (Kernel, Fd, Fd, u32) {
    let (mut k, lfd) = mk_listener(bind_ip, backlog);
    let key = BindKey { domain: Domain::Inet, ty: Type::Stream, local_addr: A, local_port: 80 };
    let mut st = Socket::new(Domain::Inet, Type::Stream);
    st.bound = Some(key.clone());
    st.peer = Some(Addr::Inet(R));
    let isn: u32 = kani::any();
    st.tcb = Some(Tcb {
        state,
        peer: R,
        snd_nxt: isn.wrapping_add(1),
        snd_una: isn.wrapping_add(1),
        snd_wnd: 500,
        rcv_nxt: 1001,
        send_buf: BytesMut::new(),
        recv_buf: BytesMut::new(),
        wr_closed: false,
        peer_fin: false,
        fin_seq: None,
        reset: false,
        timed_out: false,
        egress_since_ack: 0,
        retx_attempts: 0,
    });
    let child = k.sockets.insert(st);
    k.sockets.insert_binding(key, child);
    k.sockets.insert_connection(L, R, child);
    (k, lfd, child, isn.wrapping_add(1))
}

// @verif id=C13,C16 tier=quick role=handshake_ack timeout=900
// The third handshake packet: an ACK carrying exactly the child's snd_nxt promotes the child to
// Established and queues it for accept exactly once; any other ACK number leaves it handshaking.
crate::verif_proof! { unwind = 8;
fn c13_handshake_ack_queues_the_child_exactly_once() {
    let (mut k, lfd, child, snd_nxt) = mk_listener_with_child(2, TcpState::SynReceived);
    let ackno: u32 = kani::any();
    let seg = TcpSegment {
        src_port: R.port(), dst_port: 80, seq: 1001, ack: ackno,
        flags: TcpFlags { syn: false, ack: true, fin: false, rst: false, psh: false, urg: false },
        window: kani::any(), payload: Bytes::new(),
    };
    handle_on_connection(&mut k, child, L, R, &seg);
    let ready = k.sockets.get(lfd).unwrap().listen.as_ref().unwrap().ready.len();
    let st = k.sockets.get(child).unwrap().tcb.as_ref().unwrap().state;
    if ackno == snd_nxt {
        assert!(st == TcpState::Established && ready == 1, "queued exactly once");
        // C16: the window that counts is the one the peer advertised LAST - the handshake ACK's, not
        // the SYN's
        assert!(k.sockets.get(child).unwrap().tcb.as_ref().unwrap().snd_wnd == seg.window, "the handshake ACK's window is recorded");
        assert!(k.sockets.get(lfd).unwrap().listen.as_ref().unwrap().ready.front() == Some(&child));
    } else {
        assert!(st == TcpState::SynReceived && ready == 0, "a wrong acknowledgement number does not complete the handshake");
    }
    assert!(k.sockets.iter().count() == 2 && k.outbound.len() == 0);
    kani::cover!(ackno == snd_nxt, "handshake completed");
    kani::cover!(ackno != snd_nxt, "stray ACK ignored");
    std::mem::forget(k);
    std::mem::forget(seg);
}
}

// @verif id=C06,C13 tier=quick role=handshake_retx timeout=900
// A SYN-ACK that is retransmitted (the first one was lost) is the SAME segment in sequence terms: it
// consumes the sequence number the original consumed (seq + 1 == snd_nxt), acknowledges the SYN
// (ack == rcv_nxt) and goes to the connector; otherwise the peer builds its state one number off and
// every later byte looks out of order. The child keeps handshaking and is charged one attempt.
crate::verif_proof! { unwind = 8;
fn c06_retransmitted_syn_ack_carries_the_original_sequence_number() {
    let (mut k, _lfd, child, snd_nxt) = mk_listener_with_child(2, TcpState::SynReceived);
    k.retx_threshold = 1;
    k.retx_max = 3;
    check_retx(&mut k);
    assert!(k.outbound.len() == 1, "one retransmitted SYN-ACK");
    let pkt = k.outbound.back().unwrap();
    let o = tcp_of(pkt);
    assert!(o.flags.syn && o.flags.ack && !o.flags.rst && !o.flags.fin && o.payload.is_empty());
    assert!(o.seq.wrapping_add(1) == snd_nxt, "same sequence number as the original SYN-ACK");
    assert!(o.ack == 1001, "acknowledges the connector's SYN");
    assert!(pkt.dst == R.ip() && o.dst_port == R.port() && o.src_port == 80);
    let t = k.sockets.get(child).unwrap().tcb.as_ref().unwrap();
    assert!(t.state == TcpState::SynReceived && !t.timed_out && t.snd_nxt == snd_nxt && t.snd_una == snd_nxt);
    kani::cover!(snd_nxt == 0, "initial sequence number u32::MAX: the retransmission wraps");
    std::mem::forget(k);
}
}

// @verif id=C13 tier=quick role=accept_once timeout=900
// accept hands out each established connection exactly once, with the connector's address; a
// duplicate of the final handshake ACK (now an ordinary ACK on an Established connection) does not
// queue it again.
crate::verif_proof! { unwind = 8;
fn c13_accept_hands_out_each_connection_once() {
    let (mut k, lfd, child, snd_nxt) = mk_listener_with_child(2, TcpState::Established);
    k.sockets.get_mut(lfd).unwrap().listen.as_mut().unwrap().ready.push_back(child);
    let dup = TcpSegment {
        src_port: R.port(), dst_port: 80, seq: 1001, ack: snd_nxt,
        flags: TcpFlags { syn: false, ack: true, fin: false, rst: false, psh: false, urg: false },
        window: 7, payload: Bytes::new(),
    };
    handle_on_connection(&mut k, child, L, R, &dup);
    assert!(k.sockets.get(lfd).unwrap().listen.as_ref().unwrap().ready.len() == 1, "a duplicate ACK does not queue the child twice");
    let mut cx = noop_cx();
    let Poll::Ready(r) = k.poll_accept(lfd, &mut cx) else { panic!("a ready child must be handed out") };
    let (v, o) = take(r);
    assert!(o == Outcome::Ok && v == Some((child, R)), "accept returns the child with the connector's address");
    assert!(k.poll_accept(lfd, &mut cx).is_pending(), "handed out exactly once");
    kani::cover!(v.is_some(), "accepted");
    std::mem::forget(k);
    std::mem::forget(dup);
}
}

/// Backlog accounting with one child already charged to the listener (still handshaking, or
/// accept-ready): a SYN from a NEW peer creates a second child iff handshaking + accept-ready
/// children < backlog; otherwise it is dropped without an answer and nothing changes. Listener shape
/// (specific address / wildcard), backlog and the child's state are concrete per instance.
fn backlog_step(wildcard: bool, backlog: usize, ready: bool) -> bool {
    let bind_ip = if wildcard { IpAddr::V4(Ipv4Addr::UNSPECIFIED) } else { A };
    let (mut k, lfd, child, _) = mk_listener_with_child_on(bind_ip, backlog, if ready { TcpState::Established } else { TcpState::SynReceived });
    if ready {
        k.sockets.get_mut(lfd).unwrap().listen.as_mut().unwrap().ready.push_back(child);
    }
    let seq: u32 = kani::any();
    let (pkt, s) = syn_from(R2, seq, kani::any());
    deliver(&mut k, &pkt, &s);
    let n = k.sockets.iter().count();
    let room = 1 < backlog;
    if room {
        assert!(n == 3, "room in the backlog: exactly one more child");
        let c2 = k.sockets.find_connection(L, R2).unwrap();
        assert!(c2 != child && c2 != lfd);
        assert!(k.sockets.get(c2).unwrap().tcb.as_ref().unwrap().state == TcpState::SynReceived);
        assert!(k.outbound.len() == 1 && tcp_of(k.outbound.back().unwrap()).flags.syn);
    } else {
        assert!(n == 2 && k.sockets.find_connection(L, R2).is_none(), "backlog exhausted by the existing child: no second child");
        assert!(k.outbound.len() == 0, "a SYN beyond the backlog is dropped silently");
    }
    assert!(k.sockets.find_connection(L, R) == Some(child), "the existing child is untouched");
    assert!(k.sockets.get(lfd).unwrap().listen.as_ref().unwrap().ready.len() == ready as usize);
    std::mem::forget(k);
    std::mem::forget(pkt);
    std::mem::forget(s);
    n == 3
}
// @verif id=C13 tier=quick role=backlog timeout=900 desc=listener=0.0.0.0:80,backlog=1,one-handshaking-child
crate::verif_proof! { unwind = 8;
fn c13_wildcard_listener_counts_handshaking_children() {
    let created = backlog_step(true, 1, false);
    kani::cover!(!created, "second SYN dropped: the handshaking child fills the backlog");
}
}
// @verif id=C13 tier=quick role=backlog timeout=900 desc=listener=A:80,backlog=1,one-accept-ready-child
crate::verif_proof! { unwind = 8;
fn c13_accept_ready_child_fills_the_backlog() {
    let created = backlog_step(false, 1, true);
    kani::cover!(!created, "second SYN dropped: the accept queue fills the backlog");
}
}
// @verif id=C13 tier=thorough role=backlog timeout=900 desc=listener=0.0.0.0:80,backlog=2,one-handshaking-child
crate::verif_proof! { unwind = 8;
fn c13_wildcard_listener_admits_up_to_its_backlog() {
    let created = backlog_step(true, 2, false);
    kani::cover!(created, "second child admitted");
}
}
// @verif id=C13 tier=thorough role=backlog timeout=900 desc=listener=A:80,backlog=1,one-handshaking-child
crate::verif_proof! { unwind = 8;
fn c13_specific_listener_counts_handshaking_children() {
    let created = backlog_step(false, 1, false);
    kani::cover!(!created, "second SYN dropped");
}
}

// @verif id=C13 tier=thorough role=backlog timeout=900 desc=listener=0.0.0.0:80,backlog=1,one-accept-ready-child
crate::verif_proof! { unwind = 8;
fn c13_wildcard_listener_counts_accept_ready_children() {
    let created = backlog_step(true, 1, true);
    kani::cover!(!created, "second SYN dropped: the accept queue fills the backlog");
}
}
// @verif id=C13 tier=thorough role=backlog timeout=900 desc=listener=A:80,backlog=2,one-accept-ready-child
crate::verif_proof! { unwind = 8;
fn c13_specific_listener_admits_up_to_its_backlog() {
    let created = backlog_step(false, 2, true);
    kani::cover!(created, "second child admitted next to an accept-ready one");
}
}

/// TCP demultiplexing with a listener and one handshaking connection on the same local address; the
/// kind of inbound segment is concrete per instance, its sequence numbers symbolic.
fn tcp_demux(kind: u8) {
    let (mut k, lfd, child, _snd_nxt) = mk_listener_with_child(4, TcpState::SynReceived);
    let (src, flags) = match kind {
        0 => (R, TcpFlags { syn: true, ack: false, fin: false, rst: false, psh: false, urg: false }),
        1 => (R2, TcpFlags { syn: true, ack: false, fin: false, rst: false, psh: false, urg: false }),
        2 => (R2, TcpFlags { syn: false, ack: true, fin: false, rst: false, psh: false, urg: false }),
        _ => (R2, TcpFlags { syn: false, ack: false, fin: false, rst: true, psh: false, urg: false }),
    };
    let seg = TcpSegment { src_port: src.port(), dst_port: 80, seq: kani::any(), ack: kani::any(), flags, window: 10, payload: Bytes::new() };
    let pkt = Packet { src: src.ip(), dst: A, ttl: 64, payload: Transport::Tcp(seg.clone()) };
    deliver(&mut k, &pkt, &seg);
    let n = k.sockets.iter().count();
    match kind {
        0 => {
            assert!(n == 2 && k.sockets.find_connection(L, R) == Some(child), "known 4-tuple: handled by the connection, no second child");
            assert!(k.outbound.len() == 0);
        }
        1 => {
            assert!(n == 3, "listener fallback creates a child for the new peer");
            let c2 = k.sockets.find_connection(L, R2).unwrap();
            assert!(c2 != child && c2 != lfd);
            assert!(k.outbound.len() == 1 && tcp_of(k.outbound.back().unwrap()).flags.syn);
        }
        2 => {
            assert!(n == 2 && k.outbound.len() == 1);
            let o = tcp_of(k.outbound.back().unwrap());
            assert!(o.flags.rst && k.outbound.back().unwrap().dst == R2.ip() && o.dst_port == R2.port(), "unknown tuple answered with RST");
            assert!(o.seq == seg.ack, "RST takes its sequence number from the offending ACK");
        }
        _ => {
            assert!(n == 2 && k.outbound.len() == 0, "a stray RST is never answered");
        }
    }
    assert!(k.sockets.get(child).unwrap().tcb.as_ref().unwrap().state == TcpState::SynReceived, "the existing connection is untouched");
    std::mem::forget(k);
    std::mem::forget(pkt);
    std::mem::forget(seg);
}
// @verif id=C17,C13 tier=quick role=tcp_demux timeout=900 desc=retransmitted-SYN-of-known-peer
crate::verif_proof! { unwind = 8;
fn c17_tcp_known_tuple_goes_to_the_connection() {
    tcp_demux(0);
    kani::cover!(true, "handled");
}
}
// @verif id=C17,C13 tier=quick role=tcp_demux timeout=900 desc=SYN-of-new-peer->listener
crate::verif_proof! { unwind = 8;
fn c17_tcp_new_peer_goes_to_the_listener() {
    tcp_demux(1);
    kani::cover!(true, "second child");
}
}
// @verif id=C17 tier=quick role=tcp_demux timeout=900 desc=stray-ACK-unknown-tuple->RST
crate::verif_proof! { unwind = 8;
fn c17_tcp_unknown_tuple_is_reset() {
    tcp_demux(2);
    kani::cover!(true, "RST for unknown tuple");
}
}
// @verif id=C17 tier=thorough role=tcp_demux timeout=900 desc=stray-RST-unknown-tuple->silence
crate::verif_proof! { unwind = 8;
fn c17_tcp_stray_rst_is_ignored() {
    tcp_demux(3);
    kani::cover!(true, "ignored");
}
}

/// Dropping the listener resets and reclaims every unaccepted child (handshaking or accept-ready)
/// and the listener itself: no socket, binding or 4-tuple entry is left.
fn listener_close(established: bool) {
    listener_close_on(A, established)
}
/// `bind_ip`: the listener's bind address (a wildcard listener's children are bound to the concrete
/// destination address of their SYN, not to the listener's address).
fn listener_close_on(bind_ip: IpAddr, established: bool) {
    let (mut k, lfd, child, _) = mk_listener_with_child_on(bind_ip, 2, if established { TcpState::Established } else { TcpState::SynReceived });
    if established {
        k.sockets.get_mut(lfd).unwrap().listen.as_mut().unwrap().ready.push_back(child);
    }
    k.close(lfd);
    // "within a bounded number of ticks": by the end of the egress pass at the latest
    reap_closed(&mut k);
    assert!(k.sockets.iter().count() == 0, "listener and its unaccepted child are gone");
    assert!(k.sockets.get(child).is_none() && k.sockets.find_connection(L, R).is_none());
    let key = BindKey { domain: Domain::Inet, ty: Type::Stream, local_addr: A, local_port: 80 };
    assert!(k.sockets.find_by_bind(&key).is_empty(), "the port can be bound again");
    let wkey = BindKey { domain: Domain::Inet, ty: Type::Stream, local_addr: bind_ip, local_port: 80 };
    assert!(k.sockets.find_by_bind(&wkey).is_empty(), "the listener's own binding is gone");
    let mut told = false;
    let mut i = 0;
    while i < k.outbound.len() {
        let pkt = k.outbound.get(i).unwrap();
        let o = tcp_of(pkt);
        if o.flags.rst && pkt.dst == R.ip() && o.dst_port == R.port() {
            told = true;
        }
        i += 1;
    }
    assert!(told, "the connector is told with a RST");
    std::mem::forget(k);
}
// @verif id=C13 tier=quick role=listener_close timeout=900 desc=handshaking-child
crate::verif_proof! { unwind = 8;
fn c13_listener_close_resets_handshaking_child() {
    listener_close(false);
    kani::cover!(true, "handshaking child reset");
}
}
// @verif id=C13 tier=quick role=listener_close timeout=900 desc=accept-ready-child
crate::verif_proof! { unwind = 8;
fn c13_listener_close_resets_accept_ready_child() {
    listener_close(true);
    kani::cover!(true, "accept-ready child reset");
}
}
// the same for a WILDCARD listener, whose children are bound to the SYN's concrete destination
// address (seed C13-5: children looked up under the listener's own bind key are missed)
// @verif id=C13 tier=quick role=listener_close timeout=900 desc=wildcard-listener-handshaking-child
crate::verif_proof! { unwind = 8;
fn c13_wildcard_listener_close_resets_handshaking_child() {
    listener_close_on(IpAddr::V4(Ipv4Addr::UNSPECIFIED), false);
    kani::cover!(true, "handshaking child of a wildcard listener reset");
}
}
// @verif id=C13 tier=quick role=listener_close timeout=900 desc=wildcard-listener-accept-ready-child
crate::verif_proof! { unwind = 8;
fn c13_wildcard_listener_close_resets_accept_ready_child() {
    listener_close_on(IpAddr::V4(Ipv4Addr::UNSPECIFIED), true);
    kani::cover!(true, "accept-ready child of a wildcard listener reset");
}
}

// C13-D1 (derived): a child that was never handed to the application has no handle anyone could
// close; once it is aborted (RST from a connector that gave up, or SYN-ACK retransmit exhaustion) it
// must be reclaimed by the end of the same egress pass - nothing else will ever remove it, and its
// stale 4-tuple entry swallows later connection attempts from that address/port.
fn aborted_child(by_rst: bool) {
    let (mut k, _lfd, child, _snd_nxt) = mk_listener_with_child(2, TcpState::SynReceived);
    if by_rst {
        let seg = TcpSegment { src_port: R.port(), dst_port: 80, seq: kani::any(), ack: kani::any(),
            flags: TcpFlags { syn: false, ack: kani::any(), fin: false, rst: true, psh: false, urg: false }, window: 0, payload: Bytes::new() };
        handle_on_connection(&mut k, child, L, R, &seg);
        std::mem::forget(seg);
    } else {
        // retransmit budget already used up: the next pass aborts with timed_out
        k.retx_threshold = 1;
        k.retx_max = 0;
        check_retx(&mut k);
    }
    let t = k.sockets.get(child).map(|s| s.tcb.as_ref().unwrap().state);
    assert!(t.is_none() || t == Some(TcpState::Closed), "aborted");
    reap_closed(&mut k);
    assert!(k.sockets.get(child).is_none(), "D1: aborted never-accepted child stays in the socket table forever");
    assert!(k.sockets.find_connection(L, R).is_none(), "D1: stale 4-tuple entry");
    std::mem::forget(k);
}
// @verif id=C13 tier=quick role=aborted_child_reclaimed derived=1 witness=c13_aborted_unaccepted_child_is_reclaimed timeout=900 desc=aborted-by-RST
crate::verif_proof! { unwind = 8;
fn c13_child_aborted_by_rst_is_reclaimed() {
    aborted_child(true);
    kani::cover!(true, "aborted by RST");
}
}
// @verif id=C13 tier=quick role=aborted_child_reclaimed derived=1 witness=c13_aborted_unaccepted_child_is_reclaimed timeout=900 desc=aborted-by-retransmit-exhaustion
crate::verif_proof! { unwind = 8;
fn c13_child_aborted_by_timeout_is_reclaimed() {
    aborted_child(false);
    kani::cover!(true, "aborted by handshake retransmit exhaustion");
}
}
