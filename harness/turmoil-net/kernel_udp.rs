//! Kani harnesses for crates/turmoil-net/src/kernel/udp.rs (child module: sees private items).
use super::*;
use std::net::{Ipv4Addr, Ipv6Addr, SocketAddr};

const A: IpAddr = IpAddr::V4(Ipv4Addr::new(10, 0, 0, 1));
const B: IpAddr = IpAddr::V4(Ipv4Addr::new(10, 0, 0, 2));
const WILD: IpAddr = IpAddr::V4(Ipv4Addr::UNSPECIFIED);
const PEER1: SocketAddr = SocketAddr::new(IpAddr::V4(Ipv4Addr::new(10, 0, 0, 9)), 700);
const PEER2: SocketAddr = SocketAddr::new(IpAddr::V4(Ipv4Addr::new(10, 0, 0, 8)), 700);

fn pick_ip(sel: u8) -> IpAddr {
    match sel {
        0 => A,
        1 => B,
        _ => WILD,
    }
}

fn ok_fd(r: std::io::Result<Fd>) -> Option<Fd> {
    crate::verif_common::take(r).0
}

/// UDP demultiplexing, one table shape per instance (bind addresses/ports concrete), everything
/// about the inbound datagram symbolic: (dst ip in {A,B}, dst port in {5000,5001}, source in
/// {PEER1,PEER2}), first socket optionally connected to PEER1.
/// Exactly the socket the reference picks gains exactly one queue entry with the right origin and
/// payload; every other socket is untouched.
/// Install a bound UDP socket directly (what `Kernel::bind` leaves behind: table entry with
/// `bound = Some(key)` plus the binding-index entry). `Kernel::bind` itself is covered by the
/// bind-matrix harnesses; building the pre-state directly keeps this harness to ONE real operation.
fn install(k: &mut Kernel, ip: IpAddr, port: u16) -> Fd {
    let key = BindKey { domain: Domain::Inet, ty: Type::Dgram, local_addr: ip, local_port: port };
    let mut st = Socket::new(Domain::Inet, Type::Dgram);
    st.bound = Some(key.clone());
    let fd = k.sockets.insert(st);
    k.sockets.insert_binding(key, fd);
    fd
}

fn udp_demux(ip1: IpAddr, p1: u16, ip2: IpAddr, p2: u16, dst_ip: IpAddr, dst_port: u16) -> (bool, bool, bool) {
    let mut k = Kernel::new();
    k.add_address(A);
    k.add_address(B);
    let f1 = install(&mut k, ip1, p1);
    let conflict = p1 == p2 && (ip1 == ip2 || ip1 == WILD || ip2 == WILD);
    let f2 = if conflict { None } else { Some(install(&mut k, ip2, p2)) };
    let c1: bool = kani::any();
    if c1 {
        k.sockets.get_mut(f1).unwrap().peer = Some(Addr::Inet(PEER1));
    }
    // the destination (the demultiplexing KEY) is concrete per instance; the source address, the
    // connected-peer flag and the payload are symbolic
    let src = if kani::any() { PEER1 } else { PEER2 };
    let body: [u8; 2] = kani::any();
    let pkt = Packet {
        src: src.ip(),
        dst: dst_ip,
        ttl: 64,
        payload: Transport::Udp(UdpDatagram {
            src_port: src.port(),
            dst_port,
            payload: Bytes::copy_from_slice(&body),
        }),
    };
    let Transport::Udp(d) = &pkt.payload else { unreachable!() };
    deliver(&mut k, &pkt, d);

    // reference: exact binding first, then wildcard; connected filter applies to the chosen socket
    let m1_exact = ip1 == dst_ip && p1 == dst_port;
    let m1_wild = ip1 == WILD && p1 == dst_port;
    let (m2_exact, m2_wild) = match f2 {
        Some(_) => (ip2 == dst_ip && p2 == dst_port, ip2 == WILD && p2 == dst_port),
        None => (false, false),
    };
    assert!(!(m1_exact && m2_exact));
    let target: Option<Fd> = if m1_exact {
        Some(f1)
    } else if m2_exact {
        f2
    } else if m1_wild {
        Some(f1)
    } else if m2_wild {
        f2
    } else {
        None
    };
    let q1 = k.sockets.get(f1).unwrap().recv_queue.len();
    let q2 = match f2 {
        Some(f) => k.sockets.get(f).unwrap().recv_queue.len(),
        None => 0,
    };
    let expect1 = target == Some(f1) && (!c1 || src == PEER1);
    let expect2 = f2.is_some() && target == f2;
    assert!(q1 == if expect1 { 1 } else { 0 });
    assert!(q2 == if expect2 { 1 } else { 0 });
    if expect1 {
        let (from, payload) = k.sockets.get(f1).unwrap().recv_queue.front().unwrap();
        assert!(*from == Addr::Inet(src));
        assert!(payload.len() == 2 && payload[0] == body[0] && payload[1] == body[1], "payload unaltered");
    }
    if expect2 {
        let (from, _) = k.sockets.get(f2.unwrap()).unwrap().recv_queue.front().unwrap();
        assert!(*from == Addr::Inet(src));
    }
    let filtered = target == Some(f1) && !expect1;
    std::mem::forget(k);
    std::mem::forget(pkt);
    (expect1, expect2, filtered)
}

// (an exact and a wildcard binding on the SAME port cannot coexist without SO_REUSEADDR, which the
// kernel does not implement: the bind matrix refuses the second one; tables below are bind-legal)
// @verif id=C17 tier=quick role=udp_demux timeout=900 desc=exact(A:5000)+wildcard(:5001),dst=A:5000
crate::verif_proof! { unwind = 6;
fn c17_udp_exact_binding_receives_its_datagram() {
    let (e1, e2, filtered) = udp_demux(A, 5000, WILD, 5001, A, 5000);
    assert!(!e2, "the other socket must not see it");
    kani::cover!(e1, "delivered to the exact binding");
    kani::cover!(filtered, "connected filter dropped the datagram");
}
}
// @verif id=C17 tier=quick role=udp_demux timeout=900 desc=exact(A:5000)+wildcard(:5001),dst=B:5001
crate::verif_proof! { unwind = 6;
fn c17_udp_wildcard_catches_any_local_address() {
    let (e1, e2, _) = udp_demux(A, 5000, WILD, 5001, B, 5001);
    assert!(!e1 && e2);
    kani::cover!(e2, "delivered to the wildcard binding");
}
}
// @verif id=C17 tier=quick role=udp_demux timeout=900 desc=exact(A:5000)+exact(B:5000),dst=B:5000
crate::verif_proof! { unwind = 6;
fn c17_udp_same_port_different_addresses_do_not_cross() {
    let (e1, e2, _) = udp_demux(A, 5000, B, 5000, B, 5000);
    assert!(!e1 && e2);
    kani::cover!(e2, "delivered to the socket owning the address");
}
}
// @verif id=C17 tier=thorough role=udp_demux timeout=900 desc=exact(A:5000)+exact(B:5000),dst=B:5001(no-such-port)
crate::verif_proof! { unwind = 6;
fn c17_udp_unbound_port_reaches_nobody() {
    let (e1, e2, _) = udp_demux(A, 5000, B, 5000, B, 5001);
    assert!(!e1 && !e2);
    kani::cover!(!e1 && !e2, "dropped");
}
}
// @verif id=C17 tier=thorough role=udp_demux timeout=900 desc=exact(A:5000)+wildcard(:5001),dst=A:5001
crate::verif_proof! { unwind = 6;
fn c17_udp_wildcard_receives_on_its_port_only() {
    let (e1, e2, _) = udp_demux(A, 5000, WILD, 5001, A, 5001);
    assert!(!e1 && e2);
    kani::cover!(e2, "delivered by port");
}
}

// ---------------------------------------------------------------------------------------------------
// C16-S5: UDP payloads larger than the MTU allows are rejected with EMSGSIZE and nothing is queued;
// otherwise exactly one packet with the identical payload leaves. max_payload for ALL MTUs.
// @verif id=C16 tier=quick role=udp_max_payload
#[kani::proof]
#[kani::unwind(18)]
fn c16_udp_max_payload_for_every_mtu() {
    let mut k = Kernel::new();
    k.mtu = kani::any();
    k.loopback_mtu = kani::any();
    let which: u8 = kani::any();
    let dst = match which % 4 {
        0 => SocketAddr::new(IpAddr::V4(Ipv4Addr::new(10, 0, kani::any(), 1)), 9),
        1 => SocketAddr::new(IpAddr::V4(Ipv4Addr::new(127, 0, 0, kani::any())), 9),
        2 => SocketAddr::new(IpAddr::V6(Ipv6Addr::LOCALHOST), 9),
        _ => SocketAddr::new(IpAddr::V6(Ipv6Addr::new(0xfd00, 0, 0, 0, 0, 0, 0, kani::any())), 9),
    };
    let mtu = if which % 4 == 1 || which % 4 == 2 { k.loopback_mtu } else { k.mtu };
    let hdr: u32 = if dst.is_ipv4() { 20 + 8 } else { 40 + 8 };
    assert!(max_payload(&k, &dst) == if mtu > hdr { mtu - hdr } else { 0 });
    kani::cover!(mtu < hdr, "MTU below the headers");
    std::mem::forget(k);
}

fn udp_send<const N: usize>(mtu: u32) -> bool {
    let mut k = Kernel::new();
    k.add_address(A);
    k.mtu = mtu;
    let fd = install(&mut k, A, 5000);
    let buf: [u8; N] = kani::any();
    let dst = SocketAddr::new(B, 7);
    let mut cx = crate::verif_common::noop_cx();
    let r = send_to(&mut k, fd, &mut cx, &buf, &dst);
    let Poll::Ready(res) = r else { panic!("UDP sends never park") };
    let (v, o) = crate::verif_common::take(res);
    let room = mtu.saturating_sub(28) as usize;
    if N > room {
        assert!(o != crate::verif_common::Outcome::Ok && k.outbound.len() == 0, "oversize datagram rejected with an error, nothing sent");
    } else {
        assert!(o == crate::verif_common::Outcome::Ok && v == Some(N) && k.outbound.len() == 1);
        let p = k.outbound.back().unwrap();
        assert!(p.src == A && p.dst == B);
        let Transport::Udp(d) = &p.payload else { panic!("udp") };
        assert!(d.src_port == 5000 && d.dst_port == 7 && d.payload.len() == N);
        let mut i = 0;
        while i < N {
            assert!(d.payload[i] == buf[i], "payload unaltered");
            i += 1;
        }
    }
    std::mem::forget(k);
    N > room
}
// @verif id=C16 tier=quick role=udp_emsgsize timeout=600 desc=payload=3,mtu=30(room=2)
crate::verif_proof! { unwind = 6;
fn c16_udp_oversize_is_rejected() {
    let rejected = udp_send::<3>(30);
    assert!(rejected);
    kani::cover!(rejected, "EMSGSIZE");
}
}
// @verif id=C16 tier=quick role=udp_emsgsize timeout=600 desc=payload=3,mtu=31(room=3)
crate::verif_proof! { unwind = 6;
fn c16_udp_exact_fit_is_sent_unaltered() {
    let rejected = udp_send::<3>(31);
    assert!(!rejected);
    kani::cover!(!rejected, "sent");
}
}

// C17 "a connected UDP socket [receives] only from its peer": the peer is the one named by the LAST
// connect. A bound datagram socket is connected through the real `Kernel::poll_connect` to PEER1 and
// (symbolically) re-connected to PEER2; a datagram from a symbolic source then reaches the socket iff
// the source is the current peer (seed C17-5: a second connect silently kept the old peer).
// @verif id=C17,C09 tier=quick role=udp_connected_filter timeout=900
crate::verif_proof! { unwind = 8;
fn c17_udp_connected_socket_follows_its_last_connect() {
    let mut k = Kernel::new();
    k.add_address(A);
    let fd = install(&mut k, A, 5000);
    let mut cx = crate::verif_common::noop_cx();
    let r = k.poll_connect(fd, &mut cx, &Addr::Inet(PEER1));
    assert!(matches!(r, Poll::Ready(Ok(()))));
    std::mem::forget(r);
    let again: bool = kani::any();
    if again {
        let r = k.poll_connect(fd, &mut cx, &Addr::Inet(PEER2));
        assert!(matches!(r, Poll::Ready(Ok(()))));
        std::mem::forget(r);
    }
    let peer = if again { PEER2 } else { PEER1 };
    assert!(k.sockets.get(fd).unwrap().peer == Some(Addr::Inet(peer)), "peer_addr names the last connect");
    let src = if kani::any() { PEER1 } else { PEER2 };
    let body: [u8; 2] = kani::any();
    let pkt = Packet {
        src: src.ip(),
        dst: A,
        ttl: 64,
        payload: Transport::Udp(UdpDatagram { src_port: src.port(), dst_port: 5000, payload: Bytes::copy_from_slice(&body) }),
    };
    let Transport::Udp(d) = &pkt.payload else { unreachable!() };
    deliver(&mut k, &pkt, d);
    let q = k.sockets.get(fd).unwrap().recv_queue.len();
    assert!(q == if src == peer { 1 } else { 0 }, "only the current peer's datagrams are queued");
    kani::cover!(again && src == PEER2 && q == 1, "datagram from the new peer after a re-connect");
    kani::cover!(again && src == PEER1 && q == 0, "datagram from the old peer after a re-connect is dropped");
    std::mem::forget(k);
    std::mem::forget(pkt);
}
}
