//! Kani harnesses for crates/turmoil-net/src/lib.rs (rule chain; child module of the crate root).
use super::*;
use std::cell::Cell;
use std::net::{IpAddr, Ipv4Addr};
use std::rc::Rc;
use std::time::Duration;

fn any_verdict() -> Verdict {
    match kani::any::<u8>() % 3 {
        0 => Verdict::Pass,
        1 => Verdict::Drop,
        _ => Verdict::Deliver(Duration::new(0, kani::any::<u8>() as u32 * 250_000)),
    }
}

fn probe_packet() -> Packet {
    Packet {
        src: IpAddr::V4(Ipv4Addr::new(10, 0, 0, 1)),
        dst: IpAddr::V4(Ipv4Addr::new(10, 0, 0, 2)),
        ttl: 64,
        payload: Transport::Udp(UdpDatagram { src_port: 1, dst_port: 2, payload: bytes::Bytes::new() }),
    }
}

struct Counting {
    verdict: Verdict,
    hits: Rc<Cell<u32>>,
}
impl Rule for Counting {
    fn on_packet(&mut self, _pkt: &Packet) -> Verdict {
        self.hits.set(self.hits.get() + 1);
        self.verdict
    }
}

/// Rule chain of three rules with SYMBOLIC verdicts; the subset `rm` is removed (by id; ascending or
/// descending order; removing twice is a no-op), then one `evaluate`: the result is the first non-Pass
/// verdict of the REMAINING rules in installation order (Pass if none); every remaining rule up to
/// the winner is consulted.
/// The removal pattern is concrete per instance (a symbolic pattern makes the chain a symbolic mix of
/// trait objects: 3.4 M SAT variables, out of memory).
fn first_match(rm: [bool; 3], descending: bool) -> usize {
    let mut net = Net::new();
    let v = [any_verdict(), any_verdict(), any_verdict()];
    let hits = [Rc::new(Cell::new(0u32)), Rc::new(Cell::new(0u32)), Rc::new(Cell::new(0u32))];
    let id0 = net.install_rule(Box::new(Counting { verdict: v[0], hits: hits[0].clone() }));
    let id1 = net.install_rule(Box::new(Counting { verdict: v[1], hits: hits[1].clone() }));
    let id2 = net.install_rule(Box::new(Counting { verdict: v[2], hits: hits[2].clone() }));
    assert!(id0 != id1 && id1 != id2 && id0 != id2);
    if !descending {
        if rm[0] { net.uninstall_rule(id0); }
        if rm[1] { net.uninstall_rule(id1); }
        if rm[2] { net.uninstall_rule(id2); }
    } else {
        if rm[2] { net.uninstall_rule(id2); }
        if rm[1] { net.uninstall_rule(id1); }
        if rm[0] { net.uninstall_rule(id0); }
    }
    if rm[1] { net.uninstall_rule(id1); }
    let pkt = probe_packet();
    let got = net.evaluate(&pkt);

    let mut expect = Verdict::Pass;
    let mut winner: usize = 3;
    let mut i = 0;
    while i < 3 {
        if !rm[i] && v[i] != Verdict::Pass {
            expect = v[i];
            winner = i;
            break;
        }
        i += 1;
    }
    assert!(got == expect);
    // every live rule up to the winner had to be asked (its Pass is what lets the next one decide);
    // whether rules behind the winner or removed rules are invoked as well is not part of the
    // property (only their verdicts not mattering is) and is not asserted
    let mut j = 0;
    while j < 3 {
        let h = hits[j].get();
        if !rm[j] && j <= winner {
            assert!(h >= 1, "each live rule up to the winner is consulted");
        }
        j += 1;
    }
    std::mem::forget(net);
    std::mem::forget(pkt);
    winner
}

// @verif id=C19 tier=quick role=first_match timeout=600 desc=no-removal
crate::verif_proof! { unwind = 6;
fn c19_first_match_all_installed() {
    let w = first_match([false, false, false], false);
    kani::cover!(w == 2, "third rule wins after two passes");
    kani::cover!(w == 3, "all pass");
    kani::cover!(w == 0, "first rule decides");
}
}
// @verif id=C19 tier=quick role=first_match timeout=600 desc=first-removed
crate::verif_proof! { unwind = 6;
fn c19_first_match_first_removed() {
    let w = first_match([true, false, false], false);
    assert!(w != 0);
    kani::cover!(w == 1, "second wins because first was removed");
}
}
// @verif id=C19 tier=thorough role=first_match timeout=900 desc=middle-removed(twice)
crate::verif_proof! { unwind = 6;
fn c19_first_match_middle_removed() {
    let w = first_match([false, true, false], true);
    assert!(w != 1);
    kani::cover!(w == 2, "third wins");
}
}
// @verif id=C19 tier=thorough role=first_match timeout=900 desc=first-and-last-removed-descending
crate::verif_proof! { unwind = 6;
fn c19_first_match_outer_removed() {
    let w = first_match([true, false, true], true);
    assert!(w == 1 || w == 3);
    kani::cover!(w == 3, "only a passing rule remains");
}
}
// @verif id=C19 tier=thorough role=first_match timeout=900 desc=all-removed
crate::verif_proof! { unwind = 6;
fn c19_first_match_all_removed() {
    let w = first_match([true, true, true], false);
    assert!(w == 3);
    kani::cover!(w == 3, "empty chain passes");
}
}

// @verif id=C19 tier=thorough role=first_match timeout=900 desc=last-removed
crate::verif_proof! { unwind = 6;
fn c19_first_match_last_removed() {
    let w = first_match([false, false, true], false);
    assert!(w != 2);
    kani::cover!(w == 3, "third rule gone: two passes mean Pass");
    kani::cover!(w == 1, "second decides");
}
}
// @verif id=C19 tier=thorough role=first_match timeout=900 desc=first-two-removed-descending
crate::verif_proof! { unwind = 6;
fn c19_first_match_only_last_remains() {
    let w = first_match([true, true, false], true);
    assert!(w == 2 || w == 3);
    kani::cover!(w == 2, "the only remaining rule decides");
}
}
// @verif id=C19 tier=thorough role=first_match timeout=900 desc=last-two-removed-ascending
crate::verif_proof! { unwind = 6;
fn c19_first_match_only_first_remains() {
    let w = first_match([false, true, true], false);
    assert!(w == 0 || w == 3);
    kani::cover!(w == 0, "the only remaining rule decides");
}
}

// @verif id=C19 tier=quick role=install_order timeout=600
// Installing after a removal keeps the order of the remaining rules and appends the new rule last.
crate::verif_proof! { unwind = 6;
fn c19_reinstall_goes_last() {
    let mut net = Net::new();
    let v = [any_verdict(), any_verdict(), any_verdict()];
    let id0 = net.install_rule(Box::new(move |_p: &Packet| v[0]));
    let _id1 = net.install_rule(Box::new(move |_p: &Packet| v[1]));
    net.uninstall_rule(id0);
    let _id2 = net.install_rule(Box::new(move |_p: &Packet| v[2]));
    let pkt = probe_packet();
    let got = net.evaluate(&pkt);
    let expect = if v[1] != Verdict::Pass { v[1] } else { v[2] };
    assert!(got == expect);
    kani::cover!(v[1] == Verdict::Pass && v[2] == Verdict::Drop, "late rule decides");
    std::mem::forget(net);
    std::mem::forget(pkt);
}
}
