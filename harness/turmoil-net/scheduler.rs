//! Kani harnesses for crates/turmoil-net/src/fixture/scheduler.rs (child module).
use super::*;
use std::net::{IpAddr, Ipv4Addr};

fn pkt(tag: u16) -> Packet {
    Packet {
        src: IpAddr::V4(Ipv4Addr::new(10, 0, 0, 1)),
        dst: IpAddr::V4(Ipv4Addr::new(10, 0, 0, 2)),
        ttl: 64,
        payload: crate::kernel::Transport::Udp(crate::kernel::UdpDatagram {
            src_port: tag,
            dst_port: 9,
            payload: bytes::Bytes::new(),
        }),
    }
}
/// multiples of 0.25 ms without any division (Duration::new takes the fast path for nanos < 1e9)
fn dur(x: u8) -> Duration {
    Duration::new(0, x as u32 * 250_000)
}
fn tag_of(s: &Scheduled) -> u16 {
    match &s.pkt.payload {
        crate::kernel::Transport::Udp(d) => d.src_port,
        _ => 0,
    }
}

/// Inductive step: a pending list of K entries, sorted by (deadline, emission order) with symbolic
/// deadlines, plus ONE `schedule` call with a symbolic delay at a symbolic later instant. Afterwards
/// the list is still sorted, contains the old entries unchanged plus exactly the new one whose
/// deadline is now + delay, and equal deadlines keep emission order (the new entry goes last among
/// equals). K is concrete per instance (Vec::insert at a symbolic index is a symbolic-length memmove).
fn schedule_step<const K: usize>() {
    let mut s = Scheduler::default();
    let d: [u8; K] = kani::any();
    let mut i = 0;
    while i < K {
        if i > 0 {
            kani::assume(d[i - 1] <= d[i]);
        }
        s.pending.push(Scheduled { deliver_at: dur(d[i]), seq: i as u64, pkt: pkt(i as u16) });
        i += 1;
    }
    s.next_seq = K as u64;
    s.now = dur(kani::any());
    let delay = dur(kani::any());
    let due = s.now + delay;
    s.schedule(pkt(K as u16), delay);
    assert!(s.pending.len() == K + 1 && s.next_seq == K as u64 + 1);
    let mut seen_new = false;
    let mut j = 0;
    while j < K + 1 {
        let e = &s.pending[j];
        let tag = tag_of(e) as usize;
        if tag == K {
            assert!(!seen_new && e.deliver_at == due && e.seq == K as u64, "deadline = emission instant + delay");
            seen_new = true;
        } else {
            // old entries keep their relative order and content
            let old_index = if seen_new { j - 1 } else { j };
            assert!(tag == old_index && e.deliver_at == dur(d[tag]) && e.seq == tag as u64);
        }
        if j > 0 {
            let p = &s.pending[j - 1];
            assert!(p.deliver_at < e.deliver_at || (p.deliver_at == e.deliver_at && p.seq < e.seq),
                "sorted by deadline, ties in emission order");
        }
        j += 1;
    }
    assert!(seen_new);
    if K > 0 {
        kani::cover!(due == dur(d[0]), "equal deadline with an older packet");
        kani::cover!(due < dur(d[0]), "new packet overtakes everything pending");
    }
    std::mem::forget(s);
}

// @verif id=C19 tier=quick role=scheduler_order timeout=600 desc=pending=1
#[kani::proof]
#[kani::unwind(6)]
#[kani::stub(std::vec::Vec::insert, crate::verif_common::vec_insert_stub)]
fn c19_schedule_step_k1() { schedule_step::<1>(); }

// @verif id=C19 tier=quick role=scheduler_order timeout=900 desc=pending=2
#[kani::proof]
#[kani::unwind(6)]
#[kani::stub(std::vec::Vec::insert, crate::verif_common::vec_insert_stub)]
fn c19_schedule_step_k2() { schedule_step::<2>(); }

// @verif id=C19 tier=thorough role=scheduler_order timeout=1800 mem=20 desc=pending=3
#[kani::proof]
#[kani::unwind(7)]
#[kani::stub(std::vec::Vec::insert, crate::verif_common::vec_insert_stub)]
fn c19_schedule_step_k3() { schedule_step::<3>(); }

// NOTE: `Scheduler::tick` itself is not encodable: it goes through `EnterGuard`, i.e. the CURRENT
// thread-local holding a `Net` with a destructor, and Kani 0.68 ICEs on the TLS destructor
// registration path (kani-compiler/src/intrinsics.rs:243). The due-prefix drain of `tick` is
// therefore outside the claim; what `tick` drains is the list whose order is established here.
