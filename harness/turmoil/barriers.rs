//! Kani harnesses for crates/turmoil/src/barriers.rs (feature unstable-barriers).
//! Only the REGISTRY semantics are encodable: the `BARRIERS` thread-local has a destructor and Kani
//! 0.68 ICEs on the TLS-destructor registration path, so `Barrier::build`, `trigger` and `Barrier::wait`
//! (channel receive under an executor) are outside the check; a `BarrierRepo` value is driven directly.
use super::*;

#[derive(Clone, Copy, PartialEq)]
struct Ev(u8);

fn state(id: u128, want: u8, reaction: Reaction) -> (BarrierState, UnboundedReceiver<Waker>) {
    // same construction as Barrier::build: a type-erased condition that downcasts
    let condition = Box::new(move |t: &dyn Any| match t.downcast_ref::<Ev>() {
        Some(e) => e.0 == want || want == 255,
        None => false,
    });
    let (tx, rx) = mpsc::unbounded_channel();
    (BarrierState { id: Uuid::from_u128(id), condition, reaction, to_test: tx }, rx)
}

// Three live barriers with overlapping conditions (the third matches everything), a symbolic subset
// dropped by id, one trigger value: the EARLIEST-created live matching barrier receives it (observed
// as: the sender handed out belongs to that barrier's channel) and no other; no live match -> None.
fn registry(dropped: [bool; 3]) -> (bool, bool, bool) {
    let repo = BarrierRepo::new();
    let w1: u8 = kani::any();
    let w2: u8 = kani::any();
    kani::assume(w1 < 3 && w2 < 3);
    let (b1, mut rx1) = state(1, w1, Reaction::Noop);
    let (b2, mut rx2) = state(2, w2, Reaction::Suspend);
    let (b3, mut rx3) = state(3, 255, Reaction::Panic);
    repo.insert(b1);
    repo.insert(b2);
    repo.insert(b3);
    // which barriers were dropped is concrete per instance (the registry is a Vec that `retain`
    // compacts); the conditions and the trigger value are symbolic
    if dropped[1] { repo.drop(Uuid::from_u128(2)); }
    if dropped[0] { repo.drop(Uuid::from_u128(1)); }
    if dropped[2] { repo.drop(Uuid::from_u128(3)); }
    let v: u8 = kani::any();
    kani::assume(v < 3);
    let got = repo.barrier(&Ev(v));
    let m1 = !dropped[0] && w1 == v;
    let m2 = !dropped[1] && w2 == v;
    let m3 = !dropped[2];
    match got {
        None => assert!(!m1 && !m2 && !m3, "a live matching barrier must be found"),
        Some((reaction, tx)) => {
            // deliver through the handed-out sender and see which barrier's channel got it
            let _ = tx.send((Box::new(Ev(v)), None));
            let n1 = rx1.len();
            let n2 = rx2.len();
            let n3 = rx3.len();
            assert!(n1 + n2 + n3 == 1, "reported to exactly one barrier");
            if m1 {
                assert!(n1 == 1 && matches!(reaction, Reaction::Noop), "earliest-created matching barrier wins");
            } else if m2 {
                assert!(n2 == 1 && matches!(reaction, Reaction::Suspend));
            } else {
                assert!(m3 && n3 == 1 && matches!(reaction, Reaction::Panic));
            }
            std::mem::forget(tx);
        }
    }
    // a trigger of another type matches nothing
    assert!(repo.barrier(&7u64).is_none());
    std::mem::forget(repo);
    std::mem::forget(rx1);
    std::mem::forget(rx2);
    std::mem::forget(rx3);
    (m1, m2, m3)
}
// @verif id=C20 tier=quick role=registry_first_match timeout=900 desc=all-live
crate::verif_proof! { unwind = 18;
fn c20_trigger_goes_to_the_earliest_matching_barrier() {
    let (m1, m2, m3) = registry([false, false, false]);
    kani::cover!(m1 && m2 && m3, "three overlapping matches");
    kani::cover!(!m1 && m2, "second barrier wins");
}
}
// @verif id=C20 tier=quick role=registry_first_match timeout=900 desc=first-dropped
crate::verif_proof! { unwind = 18;
fn c20_dropped_barrier_is_never_reported() {
    let (m1, m2, _) = registry([true, false, false]);
    assert!(!m1);
    kani::cover!(m2, "second barrier receives what the dropped first one would have matched");
}
}
// @verif id=C20 tier=thorough role=registry_first_match timeout=900 desc=catch-all-dropped
crate::verif_proof! { unwind = 18;
fn c20_no_live_match_reports_nowhere() {
    let (m1, m2, m3) = registry([false, false, true]);
    assert!(!m3);
    kani::cover!(!m1 && !m2, "no live barrier matches");
}
}

// @verif id=C20 tier=thorough role=registry_first_match timeout=900 desc=middle-dropped
crate::verif_proof! { unwind = 18;
fn c20_middle_barrier_dropped() {
    let (m1, m2, _m3) = registry([false, true, false]);
    assert!(!m2);
    kani::cover!(m1, "first barrier still wins");
}
}
// @verif id=C20 tier=thorough role=registry_first_match timeout=900 desc=first-two-dropped
crate::verif_proof! { unwind = 18;
fn c20_only_the_catch_all_is_left() {
    let (m1, m2, m3) = registry([true, true, false]);
    assert!(!m1 && !m2);
    kani::cover!(m3, "the catch-all barrier receives the trigger");
}
}
