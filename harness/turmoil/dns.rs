//! Kani harnesses for crates/turmoil/src/dns.rs.
use super::*;
use crate::ip::IpVersion;

// @verif id=C15 tier=quick role=name_table timeout=900
// Name table: the same name always maps to the same address, different names to different
// addresses, reverse lookup inverts the mapping, literal addresses pass through without allocating.
// Three concrete names are looked up in a symbolic order with symbolic repetitions.
#[kani::proof]
#[kani::unwind(8)]
fn c15_names_resolve_to_distinct_stable_addresses() {
    let v6: bool = kani::any();
    let mut dns = Dns::new(if v6 { IpVersion::V6.iter() } else { IpVersion::V4.iter() });
    let names = ["a", "bb", "c"];
    let first: usize = kani::any();
    let second: usize = kani::any();
    let third: usize = kani::any();
    kani::assume(first < 3 && second < 3 && third < 3);
    let x = dns.lookup(names[first]);
    let y = dns.lookup(names[second]);
    let z = dns.lookup(names[third]);
    assert!((first == second) == (x == y), "same name <=> same address");
    assert!((first == third) == (x == z));
    assert!((second == third) == (y == z));
    assert!(dns.lookup(names[first]) == x, "stable on repeated lookup");
    let r = dns.reverse(y);
    assert!(r == Some(names[second]), "reverse lookup inverts the mapping");
    // literal addresses pass through and allocate nothing
    let n_before = dns.names.len();
    let lit = dns.lookup(std::net::Ipv4Addr::new(10, 1, 2, 3));
    assert!(lit == IpAddr::V4(std::net::Ipv4Addr::new(10, 1, 2, 3)) && dns.names.len() == n_before);
    assert!(x.is_ipv6() == v6);
    kani::cover!(first != second && second != third && first != third, "three distinct names");
    kani::cover!(first == third && first != second, "a name seen again after another");
    std::mem::forget(dns);
}
