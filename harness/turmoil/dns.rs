//! Kani harnesses for crates/turmoil/src/dns.rs.
use super::*;
use crate::ip::IpVersion;

/// Name table: the same name always maps to the same address, different names to different
/// addresses, reverse lookup inverts the mapping, literal addresses pass through without allocating.
/// The lookup ORDER of the three names is concrete per instance (names are table keys); the IP
/// version is symbolic.
fn names(first: usize, second: usize, third: usize) {
    let v6: bool = kani::any();
    let mut dns = Dns::new(if v6 { IpVersion::V6.iter() } else { IpVersion::V4.iter() });
    let names = ["a", "bb", "c"];
    let x = dns.lookup(names[first]);
    let y = dns.lookup(names[second]);
    let z = dns.lookup(names[third]);
    assert!((first == second) == (x == y), "same name <=> same address");
    assert!((first == third) == (x == z));
    assert!((second == third) == (y == z));
    assert!(dns.lookup(names[first]) == x, "stable on repeated lookup");
    let r = dns.reverse(y);
    assert!(r == Some(names[second]), "reverse lookup inverts the mapping");
    let n_before = dns.names.len();
    let lit = dns.lookup(std::net::Ipv4Addr::new(10, 1, 2, 3));
    assert!(lit == IpAddr::V4(std::net::Ipv4Addr::new(10, 1, 2, 3)) && dns.names.len() == n_before);
    assert!(x.is_ipv6() == v6);
    std::mem::forget(dns);
}
// @verif id=C15 tier=quick role=name_table timeout=900 desc=a,bb,c
#[kani::proof]
#[kani::unwind(18)]
fn c15_three_names_get_three_addresses() {
    names(0, 1, 2);
    kani::cover!(true, "three distinct names");
}
// @verif id=C15 tier=quick role=name_table timeout=900 desc=a,bb,a
#[kani::proof]
#[kani::unwind(18)]
fn c15_name_seen_again_keeps_its_address() {
    names(0, 1, 0);
    kani::cover!(true, "a name seen again after another");
}
