//! Kani harnesses for crates/turmoil/src/host.rs (child module: sees Udp/Tcp/StreamSocket internals).
//! tokio stays REAL here: only the send half of mpsc channels is exercised (channel, try_send,
//! try_reserve, Permit::send, capacity); the receive half does not compile under Kani 0.68 (ICE), so
//! queue contents are observed through `Sender::capacity()`.
use super::*;
use std::net::{Ipv4Addr, Ipv6Addr};

const HOST_IP: IpAddr = IpAddr::V4(Ipv4Addr::new(192, 168, 0, 1));
const PEER_IP: IpAddr = IpAddr::V4(Ipv4Addr::new(192, 168, 0, 2));
const OTHER_IP: IpAddr = IpAddr::V4(Ipv4Addr::new(192, 168, 0, 3));

fn any_v4() -> Ipv4Addr {
    Ipv4Addr::new(kani::any(), kani::any(), kani::any(), kani::any())
}
fn any_sockaddr4() -> SocketAddr {
    SocketAddr::new(IpAddr::V4(any_v4()), kani::any())
}

// @verif id=C09,C12 tier=quick role=matches_truth_table
// `matches(bind, dst)` for arbitrary IPv4 socket addresses: a wildcard bind accepts every destination
// address on its own port, any other bind accepts exactly itself.
#[kani::proof]
#[kani::unwind(6)]
fn c09_matches_truth_table_v4() {
    let bind = any_sockaddr4();
    let dst = any_sockaddr4();
    let wildcard = match bind.ip() {
        IpAddr::V4(a) => a.octets() == [0, 0, 0, 0],
        IpAddr::V6(_) => false,
    };
    let same = bind.port() == dst.port() && bind.ip() == dst.ip();
    let expect = (wildcard && bind.port() == dst.port()) || same;
    assert!(matches(bind, dst) == expect);
    kani::cover!(wildcard && expect && !same, "wildcard accepts a specific destination");
    kani::cover!(!wildcard && !expect && bind.port() == dst.port(), "specific bind refuses another address");
}

// @verif id=C09,C12 tier=quick role=matches_truth_table
#[kani::proof]
#[kani::unwind(18)]
fn c09_matches_truth_table_v6() {
    let seg: [u16; 8] = kani::any();
    let b = Ipv6Addr::new(seg[0], seg[1], seg[2], seg[3], seg[4], seg[5], seg[6], seg[7]);
    let bind = SocketAddr::new(IpAddr::V6(b), kani::any());
    let dst = if kani::any() {
        SocketAddr::new(IpAddr::V6(Ipv6Addr::LOCALHOST), kani::any())
    } else {
        SocketAddr::new(IpAddr::V6(b), kani::any())
    };
    let wildcard = seg == [0u16; 8];
    let same = bind.port() == dst.port() && bind.ip() == dst.ip();
    assert!(matches(bind, dst) == ((wildcard && bind.port() == dst.port()) || same));
    // a v4 wildcard never accepts a v6 destination of another port, and vice versa is by equality only
    let v4any = SocketAddr::new(IpAddr::V4(Ipv4Addr::UNSPECIFIED), bind.port());
    assert!(matches(v4any, dst) == (v4any.port() == dst.port()));
    kani::cover!(wildcard && bind.port() == dst.port(), "v6 wildcard");
}

fn data(b: u8) -> SequencedSegment {
    SequencedSegment::Data(Bytes::copy_from_slice(&[b]))
}

// ---------------------------------------------------------------------------------------------------
// C02-S1: the reorder buffer releases segments to the reader only contiguously, loses nothing,
// duplicates nothing and alters nothing.
//
// Pre-state: stream socket with channel capacity CAP; `occ` segments already in the reader queue
// (through the real sender); recv_seq = r (symbolic); a parked set P, a concrete subset shape of
// {r+2, r+3} per instance. Operation: buffer(seq, seg) with seq in {r+1, r+2, r+3} \ P (symbolic).
// Afterwards, with f = recv_seq' - recv_seq: the queue grew by exactly f; the parked set is
// (P + seq) minus {r+1..r+f}; f is maximal subject to contiguity and free slots.
fn buffer_step<const CAP: usize>(park2: bool, park3: bool) -> (u64, usize) {
    let (mut s, rx, _fc) = StreamSocket::new(CAP);
    let r: u64 = kani::any();
    kani::assume(r < u64::MAX - 8);
    s.recv_seq = r;
    let occ: usize = kani::any();
    kani::assume(occ <= CAP);
    let mut i = 0;
    while i < occ {
        let ok = s.sender.try_send(data(0xEE)).is_ok();
        assert!(ok);
        i += 1;
    }
    if park2 {
        s.buf.insert(r + 2, data(2));
    }
    if park3 {
        s.buf.insert(r + 3, SequencedSegment::Fin);
    }
    let which: u8 = kani::any();
    kani::assume(which >= 1 && which <= 3);
    kani::assume(!(which == 2 && park2) && !(which == 3 && park3));
    let seq = r + which as u64;
    let free = s.sender.capacity();
    assert!(free == CAP - occ);
    let res = s.buffer(seq, data(which));
    assert!(res.is_ok(), "receiver alive: never a reset");
    std::mem::forget(res);
    let f = s.recv_seq - r;
    let has = |k: u8| -> bool { (k == which) || (k == 2 && park2) || (k == 3 && park3) };
    // contiguous run starting at r+1
    let mut run = 0u64;
    if has(1) {
        run = 1;
        if has(2) {
            run = 2;
            if has(3) {
                run = 3;
            }
        }
    }
    let expect_f = if (free as u64) < run { free as u64 } else { run };
    assert!(f == expect_f, "forwards the maximal contiguous prefix that fits");
    assert!(s.sender.capacity() == free - f as usize, "queue grows by exactly the forwarded segments");
    // parked set afterwards
    let mut k = 1u8;
    while k <= 3 {
        let still = has(k) && (k as u64) > f;
        assert!(s.buf.contains_key(&(r + k as u64)) == still, "nothing lost, nothing duplicated");
        k += 1;
    }
    assert!(s.buf.len() == (has(1) as usize + has(2) as usize + has(3) as usize) - f as usize);
    // parked payloads are untouched
    if has(2) && f < 2 {
        match s.buf.get(&(r + 2)) {
            Some(SequencedSegment::Data(b)) => assert!(b.len() == 1 && b[0] == 2),
            _ => panic!("segment r+2 changed kind"),
        }
    }
    if park3 && f < 3 {
        assert!(matches!(s.buf.get(&(r + 3)), Some(SequencedSegment::Fin)));
    }
    std::mem::forget(s);
    std::mem::forget(rx);
    (f, free)
}

// @verif id=C02 tier=quick role=reorder_buffer timeout=1500 mem=24 desc=cap=2,parked={r+2}
#[kani::proof]
#[kani::unwind(6)]
fn c02_buffer_step_cap2_park2() {
    let (f, free) = buffer_step::<2>(true, false);
    kani::cover!(f == 2, "gap closes: two segments released at once");
    kani::cover!(f == 0 && free == 0, "queue full: nothing released");
    kani::cover!(f == 1 && free == 1, "released only what fits");
}
// @verif id=C02 tier=quick role=reorder_buffer timeout=1500 mem=24 desc=cap=3,parked={r+2,FIN@r+3}
#[kani::proof]
#[kani::unwind(6)]
fn c02_buffer_step_cap3_park23() {
    let (f, _) = buffer_step::<3>(true, true);
    kani::cover!(f == 3, "data, data, FIN released in order");
}
// @verif id=C02 tier=thorough role=reorder_buffer timeout=1500 mem=24 desc=cap=1,parked={}
#[kani::proof]
#[kani::unwind(6)]
fn c02_buffer_step_cap1_empty() {
    let (f, free) = buffer_step::<1>(false, false);
    kani::cover!(f == 1, "in-order segment passes straight through");
    kani::cover!(f == 0 && free == 1, "out-of-order segment parked");
}
// @verif id=C02 tier=thorough role=reorder_buffer timeout=1500 mem=24 desc=cap=2,parked={FIN@r+3}
#[kani::proof]
#[kani::unwind(6)]
fn c02_buffer_step_cap2_park3() {
    let (f, _) = buffer_step::<2>(false, true);
    kani::cover!(f == 2, "two released, FIN stays parked behind a full queue or gap");
}

// C02-D1 (derived, progress): once the sender has nothing more to send (FIN is the last segment), a
// FIN must not be left parked at the HEAD of the reorder buffer: nothing arrives later to flush it,
// so the reader would never see end-of-file. With CAP unread data segments queued (the writer's
// credits are then exhausted, which is legal) an arriving in-order FIN finds the queue full.
// @verif id=C02 tier=quick role=fin_not_stranded derived=1 witness=c02_fin_with_full_receive_queue timeout=900 desc=cap=1
#[kani::proof]
#[kani::unwind(6)]
fn c02_fin_is_not_stranded_cap1() {
    let (mut s, rx, _fc) = StreamSocket::new(1);
    let r: u64 = kani::any();
    kani::assume(r < u64::MAX - 8);
    s.recv_seq = r;
    let occ: usize = kani::any();
    kani::assume(occ <= 1); // unread data segments <= capacity (credit invariant)
    if occ == 1 {
        assert!(s.sender.try_send(data(1)).is_ok());
    }
    let res = s.buffer(r + 1, SequencedSegment::Fin);
    std::mem::forget(res);
    assert!(!s.buf.contains_key(&(s.recv_seq + 1)), "D1: the stream's final segment is parked at the head with nothing left to flush it");
    kani::cover!(occ == 1, "FIN arrives while the queue holds CAP unread data segments");
    std::mem::forget(s);
    std::mem::forget(rx);
}
