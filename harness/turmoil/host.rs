//! Kani harnesses for crates/turmoil/src/host.rs (child module: sees Udp/Tcp/StreamSocket internals).
//! crates/turmoil is built against the tokio MODEL of /verif/models/tokio (functional mpsc / oneshot /
//! Notify; see DESIGN.md 2.7 rung 6): the real tokio channel receive half does not compile under
//! Kani 0.68 (ICE) and the real one-shot sender's drop glue exhausted 34 GB.
use super::*;
use std::net::{Ipv4Addr, Ipv6Addr};

const HOST_IP: IpAddr = IpAddr::V4(Ipv4Addr::new(192, 168, 0, 1));
const PEER_IP: IpAddr = IpAddr::V4(Ipv4Addr::new(192, 168, 0, 2));
const OTHER_IP: IpAddr = IpAddr::V4(Ipv4Addr::new(192, 168, 0, 3));

fn any_v4() -> Ipv4Addr {
    Ipv4Addr::new(kani::any(), kani::any(), kani::any(), kani::any())
}
fn any_sockaddr4() -> SocketAddr {
    SocketAddr::new(IpAddr::V4(any_v4()), kani::any())
}

// @verif id=C09,C12 tier=quick role=matches_truth_table
// `matches(bind, dst)` for arbitrary IPv4 socket addresses: a wildcard bind accepts every destination
// address on its own port, any other bind accepts exactly itself.
crate::verif_proof! { unwind = 6;
fn c09_matches_truth_table_v4() {
    let bind = any_sockaddr4();
    let dst = any_sockaddr4();
    let wildcard = match bind.ip() {
        IpAddr::V4(a) => a.octets() == [0, 0, 0, 0],
        IpAddr::V6(_) => false,
    };
    let same = bind.port() == dst.port() && bind.ip() == dst.ip();
    let expect = (wildcard && bind.port() == dst.port()) || same;
    assert!(matches(bind, dst) == expect);
    kani::cover!(wildcard && expect && !same, "wildcard accepts a specific destination");
    kani::cover!(!wildcard && !expect && bind.port() == dst.port(), "specific bind refuses another address");
}
}

// @verif id=C09,C12 tier=quick role=matches_truth_table
crate::verif_proof! { unwind = 18;
fn c09_matches_truth_table_v6() {
    let seg: [u16; 8] = kani::any();
    let b = Ipv6Addr::new(seg[0], seg[1], seg[2], seg[3], seg[4], seg[5], seg[6], seg[7]);
    let bind = SocketAddr::new(IpAddr::V6(b), kani::any());
    let dst = if kani::any() {
        SocketAddr::new(IpAddr::V6(Ipv6Addr::LOCALHOST), kani::any())
    } else {
        SocketAddr::new(IpAddr::V6(b), kani::any())
    };
    let wildcard = seg == [0u16; 8];
    let same = bind.port() == dst.port() && bind.ip() == dst.ip();
    assert!(matches(bind, dst) == ((wildcard && bind.port() == dst.port()) || same));
    // a v4 wildcard never accepts a v6 destination of another port, and vice versa is by equality only
    let v4any = SocketAddr::new(IpAddr::V4(Ipv4Addr::UNSPECIFIED), bind.port());
    assert!(matches(v4any, dst) == (v4any.port() == dst.port()));
    kani::cover!(wildcard && bind.port() == dst.port(), "v6 wildcard");
}
}

fn data(b: u8) -> SequencedSegment {
    SequencedSegment::Data(Bytes::copy_from_slice(&[b]))
}
fn data_sym() -> (SequencedSegment, u8) {
    let b: u8 = kani::any();
    (SequencedSegment::Data(Bytes::copy_from_slice(&[b])), b)
}

// ---------------------------------------------------------------------------------------------------
// C02-S1: the reorder buffer releases segments to the reader only contiguously, loses nothing,
// duplicates nothing and alters nothing.
//
// Pre-state: stream socket with channel capacity CAP; `occ` segments already in the reader queue
// (through the real sender); recv_seq = r (symbolic); a parked set P, a concrete subset shape of
// {r+2, r+3} per instance. Operation: buffer(seq, seg) with seq in {r+1, r+2, r+3} \ P (symbolic).
// Afterwards, with f = recv_seq' - recv_seq: the queue grew by exactly f; the parked set is
// (P + seq) minus {r+1..r+f}; f is maximal subject to contiguity and free slots.
fn buffer_step<const CAP: usize>(r: u64, park2: bool, park3: bool, occ: usize, which: u8) -> (u64, usize) {
    let (mut s, rx, _fc) = StreamSocket::new(CAP);
    // the sequence base is concrete per instance as well: the reorder buffer is keyed by sequence
    // number, and symbolic keys make every lookup a case split over the table slots (out of memory);
    // payload bytes are symbolic
    s.recv_seq = r;
    // queue occupancy and the arriving position are concrete per instance (a symbolic position is a
    // symbolic table index over segments that own heap buffers); the sequence base `r` is symbolic
    assert!(occ <= CAP);
    let mut i = 0;
    while i < occ {
        let ok = s.sender.try_send(data(0xEE)).is_ok();
        assert!(ok);
        i += 1;
    }
    if park2 {
        s.buf.insert(r + 2, data(2));
    }
    if park3 {
        s.buf.insert(r + 3, SequencedSegment::Fin);
    }
    assert!(which >= 1 && which <= 3 && !(which == 2 && park2) && !(which == 3 && park3));
    let seq = r + which as u64;
    // free slots as the implementation reports them (the queue may reserve room beyond CAP, e.g.
    // for the FIN); the reference below is stated in terms of the free slots, not of CAP
    let free = s.sender.capacity();
    assert!(free >= CAP - occ);
    let res = s.buffer(seq, data(which));
    assert!(res.is_ok(), "receiver alive: never a reset");
    std::mem::forget(res);
    let f = s.recv_seq - r;
    let has = |k: u8| -> bool { (k == which) || (k == 2 && park2) || (k == 3 && park3) };
    // contiguous run starting at r+1
    let mut run = 0u64;
    if has(1) {
        run = 1;
        if has(2) {
            run = 2;
            if has(3) {
                run = 3;
            }
        }
    }
    let expect_f = if (free as u64) < run { free as u64 } else { run };
    assert!(f == expect_f, "forwards the maximal contiguous prefix that fits");
    assert!(s.sender.capacity() == free - f as usize, "queue grows by exactly the forwarded segments");
    // parked set afterwards
    let mut k = 1u8;
    while k <= 3 {
        let still = has(k) && (k as u64) > f;
        assert!(s.buf.contains_key(&(r + k as u64)) == still, "nothing lost, nothing duplicated");
        k += 1;
    }
    assert!(s.buf.len() == (has(1) as usize + has(2) as usize + has(3) as usize) - f as usize);
    // parked payloads are untouched
    if has(2) && f < 2 {
        match s.buf.get(&(r + 2)) {
            Some(SequencedSegment::Data(b)) => assert!(b.len() == 1 && b[0] == 2),
            _ => panic!("segment r+2 changed kind"),
        }
    }
    if park3 && f < 3 {
        assert!(matches!(s.buf.get(&(r + 3)), Some(SequencedSegment::Fin)));
    }
    std::mem::forget(s);
    std::mem::forget(rx);
    (f, free)
}

// @verif id=C02 tier=quick role=reorder_buffer timeout=900 desc=cap=2,queue=0,parked={r+2},arrives=r+1
crate::verif_proof! { unwind = 6;
fn c02_buffer_gap_closes_two_released() {
    let (f, _) = buffer_step::<2>(0, true, false, 0, 1);
    assert!(f == 2);
    kani::cover!(f == 2, "gap closes: two segments released at once");
}
}
// @verif id=C02 tier=quick role=reorder_buffer timeout=900 desc=cap=2,queue=1,parked={r+2},arrives=r+1
crate::verif_proof! { unwind = 6;
fn c02_buffer_releases_only_what_fits() {
    let (f, free) = buffer_step::<2>(u64::MAX - 9, true, false, 1, 1);
    assert!(f as usize == if free < 2 { free } else { 2 });
    kani::cover!(f >= 1, "released what fits");
}
}
// (not shipped: exceeds 8 GB) cap=3,queue=0,parked={r+2,FIN@r+3},arrives=r+1
crate::verif_proof! { unwind = 6;
fn c02_buffer_data_data_fin_in_order() {
    let (f, _) = buffer_step::<3>(41, true, true, 0, 1);
    assert!(f == 3);
    kani::cover!(f == 3, "data, data, FIN released in order");
}
}
// @verif id=C02 tier=thorough role=reorder_buffer timeout=900 desc=cap=1,queue=0,arrives=r+2(out-of-order)
crate::verif_proof! { unwind = 6;
fn c02_buffer_out_of_order_is_parked() {
    let (f, free) = buffer_step::<1>(41, false, false, 0, 2);
    assert!(f == 0 && free >= 1);
    kani::cover!(f == 0, "out-of-order segment parked");
}
}
// @verif id=C02 tier=thorough role=reorder_buffer timeout=900 desc=cap=2,queue=2(full),arrives=r+1
crate::verif_proof! { unwind = 6;
fn c02_buffer_full_queue_parks_in_order_segment() {
    let (f, free) = buffer_step::<2>(0, false, false, 2, 1);
    assert!(f as usize == if free < 1 { free } else { 1 });
    kani::cover!(f <= 1, "at most the arriving segment is released");
}
}
// (not shipped: exceeds 8 GB) cap=3,queue=1,parked={FIN@r+3},arrives=r+2
crate::verif_proof! { unwind = 6;
fn c02_buffer_gap_remains() {
    let (f, _) = buffer_step::<3>(41, false, true, 1, 2);
    assert!(f == 0);
    kani::cover!(f == 0, "gap at r+1 keeps everything parked");
}
}

// C02-D1 (derived, progress): once the sender has nothing more to send (FIN is the last segment), a
// FIN must not be left parked at the HEAD of the reorder buffer: nothing arrives later to flush it,
// so the reader would never see end-of-file. With CAP unread data segments queued (the writer's
// credits are then exhausted, which is legal) an arriving in-order FIN finds the queue full.
// @verif id=C02 tier=quick role=fin_not_stranded derived=1 witness=c02_fin_with_full_receive_queue timeout=900 desc=cap=1
crate::verif_proof! { unwind = 6;
fn c02_fin_is_not_stranded_cap1() {
    let (mut s, rx, _fc) = StreamSocket::new(1);
    let r: u64 = kani::any();
    kani::assume(r < u64::MAX - 8);
    s.recv_seq = r;
    let occ: usize = kani::any();
    kani::assume(occ <= 1); // unread data segments <= capacity (credit invariant)
    if occ == 1 {
        assert!(s.sender.try_send(data(1)).is_ok());
    }
    let res = s.buffer(r + 1, SequencedSegment::Fin);
    std::mem::forget(res);
    assert!(!s.buf.contains_key(&(s.recv_seq + 1)), "D1: the stream's final segment is parked at the head with nothing left to flush it");
    kani::cover!(occ == 1, "FIN arrives while the queue holds CAP unread data segments");
    std::mem::forget(s);
    std::mem::forget(rx);
}
}

// ---------------------------------------------------------------------------------------------------
// C05: per-host clock algebra (HostTimer) with a harness-controlled tokio clock (tokio model:
// `Instant::now()` returns `model_set_now`): for symbolic registration offset, epoch base, ticks and
// in-step progress: elapsed = sum(ticks) + progress, sim_elapsed = offset + elapsed,
// since_epoch = epoch + sim_elapsed; all three are monotone in ticks and in progress.
// @verif id=C05 tier=quick role=clock_algebra timeout=900
crate::verif_proof! { unwind = 4;
fn c05_host_clock_algebra() {
    fn d(ms: u32, ns: u32) -> Duration {
        Duration::new((ms / 1000) as u64, (ms % 1000) * 1_000_000 + ns)
    }
    let off_ms: u32 = kani::any();
    let epoch_s: u32 = kani::any();
    let t1: u16 = kani::any();
    let t2: u16 = kani::any();
    let p_ns: u32 = kani::any();
    kani::assume(p_ns < 1_000_000);
    let offset = d(off_ms, 0);
    let epoch = Duration::new(epoch_s as u64, 0);
    let mut timer = HostTimer::new(offset, epoch);
    // step 1: the runtime's clock stands at c0 when the host's turn starts
    let c0 = Duration::new(5, 0);
    tokio::time::model_set_now(c0);
    timer.now(Instant::now());
    assert!(timer.elapsed() == Duration::ZERO && timer.sim_elapsed() == offset && timer.since_epoch() == epoch + offset);
    // in-step progress p
    tokio::time::model_set_now(c0 + Duration::new(0, p_ns));
    let e_mid = timer.elapsed();
    assert!(e_mid == Duration::new(0, p_ns));
    // end of step: tick by t1 ms; next step starts with a fresh instant
    timer.tick(d(t1 as u32, 0));
    tokio::time::model_set_now(c0 + d(t1 as u32, 0));
    timer.now(Instant::now());
    assert!(timer.elapsed() == d(t1 as u32, 0));
    assert!(timer.elapsed() >= e_mid || (t1 as u32) * 1_000_000 < p_ns, "monotone unless the step was shorter than the observed progress");
    timer.tick(d(t2 as u32, 0));
    tokio::time::model_set_now(c0 + d(t1 as u32, 0) + d(t2 as u32, 0) + Duration::new(0, p_ns));
    timer.now(Instant::model_at(c0 + d(t1 as u32, 0) + d(t2 as u32, 0)));
    let e = timer.elapsed();
    assert!(e == d(t1 as u32, 0) + d(t2 as u32, 0) + Duration::new(0, p_ns), "elapsed = sum of ticks + in-step progress");
    assert!(timer.sim_elapsed() == offset + e, "sim time = host time + registration offset");
    assert!(timer.since_epoch() == epoch + offset + e, "epoch time = epoch + sim time");
    kani::cover!(t1 > 0 && t2 > 0 && p_ns > 0 && off_ms > 0, "all components non-zero");
    std::mem::forget(timer);
}
}

// C05: the host clock does not depend on where the runtime's own clock stands (every tokio runtime
// starts from its own origin, and a bounce replaces the runtime, so the origin changes - possibly
// backwards - in the middle of a host's life): two timers with the same registration offset and
// epoch, driven through the same ticks and the same in-step progress on runtimes with different
// symbolic origins, agree on elapsed / sim_elapsed / since_epoch; and after a "bounce" (a fresh
// origin handed to `now`) the clock continues from the sum of the ticks: it neither restarts nor
// jumps.
// @verif id=C05 tier=quick role=clock_origin_independence timeout=900
crate::verif_proof! { unwind = 4;
fn c05_host_clock_is_independent_of_the_runtime_origin() {
    let off_ms: u32 = kani::any();
    let epoch_s: u32 = kani::any();
    let tick_ms: u16 = kani::any();
    let p_ns: u32 = kani::any();
    kani::assume(p_ns < 1_000_000);
    let o1: u32 = kani::any();
    let o2: u32 = kani::any();
    let o3: u32 = kani::any();
    let offset = Duration::from_millis(off_ms as u64);
    let epoch = Duration::new(epoch_s as u64, 0);
    let tick = Duration::from_millis(tick_ms as u64);
    let p = Duration::new(0, p_ns);
    let origin1 = Duration::from_millis(o1 as u64);
    let origin2 = Duration::from_millis(o2 as u64);
    let origin3 = Duration::from_millis(o3 as u64);
    let mut a = HostTimer::new(offset, epoch);
    let mut b = HostTimer::new(offset, epoch);
    // first step on runtimes with different origins, observed after the same progress
    a.now(Instant::model_at(origin1));
    b.now(Instant::model_at(origin2));
    tokio::time::model_set_now(origin1 + p);
    let (ea, sa, qa) = (a.elapsed(), a.sim_elapsed(), a.since_epoch());
    tokio::time::model_set_now(origin2 + p);
    let (eb, sb, qb) = (b.elapsed(), b.sim_elapsed(), b.since_epoch());
    assert!(ea == eb && sa == sb && qa == qb, "the runtime's origin is invisible");
    assert!(ea == p && sa == offset + p && qa == epoch + offset + p);
    // end of the step; `a` is bounced: its next runtime starts from an unrelated origin
    a.tick(tick);
    b.tick(tick);
    a.now(Instant::model_at(origin3));
    b.now(Instant::model_at(origin2 + tick));
    tokio::time::model_set_now(origin3 + p);
    let (ea2, sa2, qa2) = (a.elapsed(), a.sim_elapsed(), a.since_epoch());
    tokio::time::model_set_now(origin2 + tick + p);
    let (eb2, sb2, qb2) = (b.elapsed(), b.sim_elapsed(), b.since_epoch());
    assert!(ea2 == eb2 && sa2 == sb2 && qa2 == qb2, "a bounced host keeps counting like one that was not bounced");
    assert!(ea2 == tick + p, "elapsed continues from the sum of the ticks");
    assert!(ea2 >= ea || tick < p, "monotone across the step boundary");
    assert!(sa2 == offset + tick + p && qa2 == epoch + sa2, "sim time = host time + offset; epoch time = epoch + sim time");
    kani::cover!(o3 < o1 && tick_ms > 0 && p_ns > 0, "the new runtime's clock is behind the old one");
    kani::cover!(o1 != o2 && off_ms > 0, "different origins");
    std::mem::forget(a);
    std::mem::forget(b);
}
}

// ---------------------------------------------------------------------------------------------------
// C12: listener queue. A SYN for `dst` is queued iff a listener is bound on dst.port AND its bind
// address matches dst; otherwise the SYN (and with it the connector's one-shot sender) is dropped,
// which the connector observes as ConnectionRefused. Queued requests are accepted in arrival order;
// unbind discards the queue and frees the port.
fn syn() -> (Syn, tokio::sync::oneshot::Receiver<()>) {
    let (tx, rx) = tokio::sync::oneshot::channel();
    (Syn { ack: tx }, rx)
}
fn syn_queue(bind_ip: IpAddr, dst_port: u16) -> (bool, u16) {
    let mut tcp = Tcp::new(4);
    let l = tcp.bind(SocketAddr::new(bind_ip, 80));
    assert!(l.is_ok());
    std::mem::forget(l);
    let dst_ip = match kani::any::<u8>() % 3 {
        0 => IpAddr::V4(Ipv4Addr::LOCALHOST),
        1 => HOST_IP,
        _ => OTHER_IP,
    };
    // the destination PORT is concrete per instance (it is the key of the bind-table lookup: a
    // symbolic key turns every later access into a case split over all table slots); the destination
    // ADDRESS, which only feeds the match predicate, is symbolic
    let dst = SocketAddr::new(dst_ip, dst_port);
    let src = SocketAddr::new(PEER_IP, kani::any());
    let (s, rx) = syn();
    let r = tcp.receive_from_network(src, dst, Segment::Syn(s));
    assert!(r.is_ok());
    std::mem::forget(r);
    let should_queue = dst_port == 80 && (bind_ip.is_unspecified() || bind_ip == dst_ip);
    let queued = tcp.binds.get(&80).unwrap().deque.len();
    assert!(queued == should_queue as usize);
    assert!(rx.model_sender_dropped() == !should_queue, "an unqueued request is dropped: the connector sees ConnectionRefused");
    if should_queue {
        let got = tcp.accept(SocketAddr::new(bind_ip, 80));
        match got {
            Some((_syn, from)) => assert!(from == src),
            None => panic!("queued request must be acceptable"),
        }
    }
    std::mem::forget(tcp);
    std::mem::forget(rx);
    (should_queue, dst_port)
}
// @verif id=C12 tier=quick role=syn_queue timeout=900 desc=listener=0.0.0.0:80
crate::verif_proof! { unwind = 6;
fn c12_syn_queue_wildcard_listener() {
    let (q, _) = syn_queue(IpAddr::V4(Ipv4Addr::UNSPECIFIED), 80);
    assert!(q);
    kani::cover!(q, "wildcard listener accepts");
}
}
// @verif id=C12 tier=quick role=syn_queue timeout=900 desc=listener=127.0.0.1:80
crate::verif_proof! { unwind = 6;
fn c12_syn_queue_localhost_listener() {
    let (q, _) = syn_queue(IpAddr::V4(Ipv4Addr::LOCALHOST), 80);
    kani::cover!(!q, "listener bound to another address refuses");
    kani::cover!(q, "loopback destination accepted");
}
}
// @verif id=C12 tier=quick role=syn_queue timeout=900 desc=listener=0.0.0.0:80,syn-to-port-81
crate::verif_proof! { unwind = 6;
fn c12_syn_to_unbound_port_is_refused() {
    let (q, _) = syn_queue(IpAddr::V4(Ipv4Addr::UNSPECIFIED), 81);
    assert!(!q);
    kani::cover!(!q, "nobody listens on the port");
}
}
// @verif id=C12 tier=thorough role=syn_queue timeout=900 desc=listener=host-ip:80
crate::verif_proof! { unwind = 6;
fn c12_syn_queue_specific_listener() {
    let (q, _) = syn_queue(HOST_IP, 80);
    kani::cover!(q, "host address accepted");
    kani::cover!(!q, "other address refused");
}
}

// @verif id=C12 tier=thorough role=syn_queue timeout=900 desc=listener=127.0.0.1:80,syn-to-port-81
crate::verif_proof! { unwind = 6;
fn c12_syn_to_unbound_port_is_refused_localhost_listener() {
    let (q, _) = syn_queue(IpAddr::V4(Ipv4Addr::LOCALHOST), 81);
    assert!(!q);
    kani::cover!(!q, "refused");
}
}
// @verif id=C12 tier=thorough role=syn_queue timeout=900 desc=listener=other-host-ip:80(never-matches-this-host's-addresses-except-itself)
crate::verif_proof! { unwind = 6;
fn c12_syn_queue_listener_on_third_address() {
    let (q, _) = syn_queue(OTHER_IP, 80);
    kani::cover!(q, "its own address accepted");
    kani::cover!(!q, "other destinations refused");
}
}

// @verif id=C12 tier=quick role=accept_order timeout=900
crate::verif_proof! { unwind = 6;
fn c12_accept_is_fifo_and_unbind_discards_the_queue() {
    let mut tcp = Tcp::new(4);
    let addr = SocketAddr::new(IpAddr::V4(Ipv4Addr::UNSPECIFIED), 80);
    let l = tcp.bind(addr);
    std::mem::forget(l);
    let dst = SocketAddr::new(HOST_IP, 80);
    let (s1, rx1) = syn();
    let (s2, rx2) = syn();
    let p1: u16 = kani::any();
    let p2: u16 = kani::any();
    kani::assume(p1 != p2);
    let r = tcp.receive_from_network(SocketAddr::new(PEER_IP, p1), dst, Segment::Syn(s1));
    std::mem::forget(r);
    let r = tcp.receive_from_network(SocketAddr::new(OTHER_IP, p2), dst, Segment::Syn(s2));
    std::mem::forget(r);
    let unbind_first: bool = kani::any();
    if unbind_first {
        tcp.unbind(addr);
        assert!(tcp.binds.get(&80).is_none(), "port is free again");
        assert!(rx1.model_sender_dropped() && rx2.model_sender_dropped(), "dropping the listener refuses every queued request");
        let again = tcp.bind(addr);
        assert!(again.is_ok(), "the port can be bound again");
        std::mem::forget(again);
    } else {
        let a = tcp.accept(addr).unwrap();
        assert!(a.1 == SocketAddr::new(PEER_IP, p1), "first request first");
        let b = tcp.accept(addr).unwrap();
        assert!(b.1 == SocketAddr::new(OTHER_IP, p2));
        assert!(tcp.accept(addr).is_none());
        assert!(!rx1.model_sender_dropped() || true);
        std::mem::forget(a);
        std::mem::forget(b);
    }
    kani::cover!(unbind_first, "listener dropped with two queued requests");
    kani::cover!(!unbind_first, "two accepts in arrival order");
    std::mem::forget(tcp);
    std::mem::forget(rx1);
    std::mem::forget(rx2);
}
}

// @verif id=C12 tier=quick role=accept_order timeout=900 desc=first-connector-gave-up,two-still-waiting
// What `TcpListener::accept` does with the queue: take requests until one whose connector is still
// waiting (its one-shot channel is open). With the FIRST connector gone and two still waiting, the
// two live requests are handed out in arrival order (whether the dead one is skipped inside
// `Tcp::accept` or by the caller is not asserted).
crate::verif_proof! { unwind = 8;
fn c12_accept_keeps_arrival_order_around_a_connector_that_gave_up() {
    let mut tcp = Tcp::new(4);
    let addr = SocketAddr::new(IpAddr::V4(Ipv4Addr::UNSPECIFIED), 80);
    let l = tcp.bind(addr);
    std::mem::forget(l);
    let dst = SocketAddr::new(HOST_IP, 80);
    let (s1, rx1) = syn();
    let (s2, rx2) = syn();
    let (s3, rx3) = syn();
    let p: [u16; 3] = kani::any();
    let src = [SocketAddr::new(PEER_IP, p[0]), SocketAddr::new(OTHER_IP, p[1]), SocketAddr::new(PEER_IP, p[2])];
    kani::assume(p[0] != p[2]);
    let r = tcp.receive_from_network(src[0], dst, Segment::Syn(s1));
    std::mem::forget(r);
    let r = tcp.receive_from_network(src[1], dst, Segment::Syn(s2));
    std::mem::forget(r);
    let r = tcp.receive_from_network(src[2], dst, Segment::Syn(s3));
    std::mem::forget(r);
    drop(rx1); // the first connector timed out / was cancelled
    let mut live: [Option<SocketAddr>; 3] = [None, None, None];
    let mut n = 0;
    let mut i = 0;
    while i < 4 {
        match tcp.accept(addr) {
            Some((syn, from)) => {
                if syn.ack.send(()).is_ok() {
                    live[n] = Some(from);
                    n += 1;
                }
            }
            None => break,
        }
        i += 1;
    }
    assert!(n == 2, "both waiting connectors are accepted, the one that gave up is not");
    assert!(live[0] == Some(src[1]) && live[1] == Some(src[2]), "in arrival order");
    kani::cover!(n == 2, "two live requests behind a dead one");
    std::mem::forget(tcp);
    std::mem::forget(rx2);
    std::mem::forget(rx3);
}
}

// @verif id=C12 tier=quick role=accept_order timeout=900 desc=connector-gave-up-before-a-later-syn-arrives
// The same queue, but the first connector gives up BEFORE one more request arrives: whatever the SYN
// path does with the dead entry (nothing, or reclaiming its slot - seed C12-5 did so with
// `swap_remove_back`), the live requests are still accepted in arrival order.
crate::verif_proof! { unwind = 8;
fn c12_a_late_syn_does_not_reorder_the_requests_behind_a_connector_that_gave_up() {
    let mut tcp = Tcp::new(5);
    let addr = SocketAddr::new(IpAddr::V4(Ipv4Addr::UNSPECIFIED), 80);
    let l = tcp.bind(addr);
    std::mem::forget(l);
    let dst = SocketAddr::new(HOST_IP, 80);
    let (s1, rx1) = syn();
    let (s2, rx2) = syn();
    let (s3, rx3) = syn();
    let (s4, rx4) = syn();
    let src = [SocketAddr::new(PEER_IP, 1001), SocketAddr::new(OTHER_IP, 1002), SocketAddr::new(PEER_IP, 1003), SocketAddr::new(OTHER_IP, 1004)];
    let r = tcp.receive_from_network(src[0], dst, Segment::Syn(s1));
    std::mem::forget(r);
    let r = tcp.receive_from_network(src[1], dst, Segment::Syn(s2));
    std::mem::forget(r);
    let r = tcp.receive_from_network(src[2], dst, Segment::Syn(s3));
    std::mem::forget(r);
    drop(rx1); // the first connector gives up ...
    let r = tcp.receive_from_network(src[3], dst, Segment::Syn(s4)); // ... and then one more request arrives
    std::mem::forget(r);
    let mut live: [Option<SocketAddr>; 4] = [None, None, None, None];
    let mut n = 0;
    let mut i = 0;
    while i < 5 {
        match tcp.accept(addr) {
            Some((syn, from)) => {
                if syn.ack.send(()).is_ok() {
                    live[n] = Some(from);
                    n += 1;
                }
            }
            None => break,
        }
        i += 1;
    }
    assert!(n == 3, "the three waiting connectors are accepted, the one that gave up is not");
    assert!(live[0] == Some(src[1]) && live[1] == Some(src[2]) && live[2] == Some(src[3]), "in arrival order");
    kani::cover!(n == 3, "three live requests, one of them queued after the first connector gave up");
    std::mem::forget(tcp);
    std::mem::forget(rx2);
    std::mem::forget(rx3);
    std::mem::forget(rx4);
}
}

// C12/C15: the live-stream table. A stream counts as established until both halves are closed (or it
// is reset); afterwards its local port is assignable again; binding a port in use fails with
// AddrInUse per protocol, UDP and TCP listener spaces are independent.
// @verif id=C12,C15 tier=quick role=stream_table timeout=900
crate::verif_proof! { unwind = 6;
fn c12_stream_entry_lives_until_both_halves_closed() {
    let mut tcp = Tcp::new(2);
    let pair = SocketPair::new(SocketAddr::new(HOST_IP, 40000), SocketAddr::new(PEER_IP, 80));
    let (rx, fc) = tcp.new_stream(pair);
    assert!(tcp.stream_count() == 1 && tcp.is_port_assigned(40000));
    let how: u8 = kani::any();
    kani::assume(how < 3);
    match how {
        0 => {
            tcp.close_stream_half(pair);
            assert!(tcp.stream_count() == 1, "one half closed: still established");
            tcp.close_stream_half(pair);
        }
        1 => tcp.reset_stream(pair),
        _ => {
            let r = tcp.receive_from_network(pair.remote, pair.local, Segment::Rst);
            std::mem::forget(r);
        }
    }
    assert!(tcp.stream_count() == 0, "no longer counts as established");
    assert!(!tcp.is_port_assigned(40000), "its port can be handed out again");
    // a late half-close or segment for the vanished stream is harmless / answered with RST
    tcp.close_stream_half(pair);
    let r = tcp.receive_from_network(pair.remote, pair.local, Segment::Fin(1));
    assert!(matches!(r, Err(Protocol::Tcp(Segment::Rst))), "segments for unknown streams are reset");
    std::mem::forget(r);
    kani::cover!(how == 0, "graceful: both halves");
    kani::cover!(how == 2, "reset by peer");
    std::mem::forget(tcp);
    std::mem::forget(rx);
    std::mem::forget(fc);
}
}

// C15-S1/S2: ephemeral port assignment on a host with a 4-port range and a SYMBOLIC cursor; which
// ports are occupied, and by what kind of socket (UDP bind, TCP listener, live TCP stream), is
// concrete per instance (`4` = that kind of socket is absent).
fn ephemeral(u: u16, t: u16, s: u16) -> (u16, u16) {
    #[cfg(not(feature = "unstable-fs"))]
    let mut host = Host::new("h", HOST_IP, HostTimer::new(Duration::ZERO, Duration::ZERO), 50000..=50003, 2, 2);
    let cur: u16 = kani::any();
    kani::assume(cur <= 3);
    host.next_ephemeral_port = 50000 + cur;
    let mut used = [false; 4];
    if u < 4 {
        let r = host.udp.bind(SocketAddr::new(HOST_IP, 50000 + u));
        assert!(r.is_ok());
        std::mem::forget(r);
        used[u as usize] = true;
        // binding the same UDP port again fails, the TCP space is independent
        let again = host.udp.bind(SocketAddr::new(IpAddr::V4(Ipv4Addr::UNSPECIFIED), 50000 + u));
        match again {
            Err(e) => {
                assert!(e.kind() == io::ErrorKind::AddrInUse);
                std::mem::forget(e);
            }
            Ok(_) => panic!("duplicate UDP bind must fail"),
        }
    }
    if t < 4 {
        let r = host.tcp.bind(SocketAddr::new(HOST_IP, 50000 + t));
        assert!(r.is_ok(), "a TCP listener is not blocked by a UDP bind on the same port");
        std::mem::forget(r);
        used[t as usize] = true;
    }
    if s < 4 {
        let pair = SocketPair::new(SocketAddr::new(HOST_IP, 50000 + s), SocketAddr::new(PEER_IP, 80));
        let x = host.tcp.new_stream(pair);
        std::mem::forget(x);
        used[s as usize] = true;
    }
    let p = host.assign_ephemeral_port();
    assert!(p >= 50000 && p <= 50003);
    assert!(!used[(p - 50000) as usize], "never a port bound by UDP, a TCP listener or a live stream");
    // (which of the free ports is chosen is not part of the property and is not asserted)
    assert!(host.next_ephemeral_port >= 50000 && host.next_ephemeral_port <= 50003);
    std::mem::forget(host);
    (cur, p)
}
// @verif id=C15 tier=quick role=ephemeral_ports timeout=900 desc=udp@50001,listener@50001,stream@50003
crate::verif_proof! { unwind = 8;
fn c15_ephemeral_port_skips_all_three_kinds_of_socket() {
    let (cur, p) = ephemeral(1, 1, 3);
    assert!(p == 50000 || p == 50002);
    kani::cover!(cur == 3 && p != 50003, "cursor on the live stream's port at the end of the range: skipped");
    kani::cover!(cur == 1 && p != 50001, "cursor on a port bound by both protocols: skipped");
}
}
// @verif id=C15 tier=quick role=ephemeral_ports timeout=900 desc=stream@50000,listener@50001,udp@50002
crate::verif_proof! { unwind = 8;
fn c15_ephemeral_port_last_free_port_is_found() {
    let (cur, p) = ephemeral(2, 1, 0);
    assert!(p == 50003);
    kani::cover!(cur == 0, "three occupied ports skipped in a row");
}
}
// @verif id=C15 tier=thorough role=ephemeral_ports timeout=900 desc=only-a-live-stream@50002
crate::verif_proof! { unwind = 8;
fn c15_ephemeral_port_avoids_live_stream_port() {
    let (cur, p) = ephemeral(4, 4, 2);
    assert!(p != 50002);
    kani::cover!(cur == 2 && p == 50003, "stream port skipped");
}
}

// @verif id=C15 tier=thorough role=ephemeral_ports timeout=900 desc=udp@50000,listener@50002,stream@50001
crate::verif_proof! { unwind = 8;
fn c15_ephemeral_port_one_of_each_kind_in_a_row() {
    let (cur, p) = ephemeral(0, 2, 1);
    assert!(p == 50003);
    kani::cover!(cur == 3, "cursor already on the only free port");
}
}
// @verif id=C15 tier=thorough role=ephemeral_ports timeout=900 desc=nothing-bound
crate::verif_proof! { unwind = 8;
fn c15_ephemeral_port_on_an_idle_host() {
    let (cur, p) = ephemeral(4, 4, 4);
    assert!(p >= 50000 && p <= 50003);
    kani::cover!(cur == 3, "cursor at the end of the range");
}
}
// @verif id=C15 tier=thorough role=ephemeral_ports timeout=900 desc=udp@50003,listener@50000
crate::verif_proof! { unwind = 8;
fn c15_ephemeral_port_both_ends_of_the_range_taken() {
    let (cur, p) = ephemeral(3, 0, 4);
    assert!(p == 50001 || p == 50002);
    kani::cover!(cur == 3 && p != 50003 && p != 50000, "wrapped past both taken ends");
}
}

// C09: the receive filter of a bound UDP socket (`Udp::receive_from_network`), through the real
// `Udp::bind` / `Udp::connect`. The bound PORT and the destination PORT are concrete per instance
// (table keys); the bind ADDRESS shape is concrete per instance; destination address, source
// address and port, the connected peer and the payload are symbolic. Reference (written without
// `matches`): the datagram is queued iff the destination port is the bound port, the bind address
// is the v4 wildcard or equals the destination address, the socket is unconnected or its peer is
// exactly the source socket, and the queue has room. A queued datagram is the payload unaltered
// with the true source; anything else leaves the queue untouched.
fn udp_filter<const CAP: usize>(bind_ip: IpAddr, dst_port: u16, connected: bool, prefill: usize) -> (bool, bool, bool) {
    let mut udp = Udp::new(CAP);
    let bind_addr = SocketAddr::new(bind_ip, 9000);
    let sock = udp.bind(bind_addr);
    assert!(sock.is_ok());
    std::mem::forget(sock);
    // observe the queue through a channel of our own (the socket's receiver is private to net::udp)
    let (tx, mut rx) = mpsc::channel::<(Datagram, SocketAddr)>(CAP);
    let old = std::mem::replace(&mut udp.binds.get_mut(&9000).unwrap().queue, tx);
    std::mem::forget(old);
    let filler = SocketAddr::new(OTHER_IP, 1);
    let mut i = 0;
    while i < prefill {
        udp.receive_from_network(filler, SocketAddr::new(if bind_ip.is_unspecified() { HOST_IP } else { bind_ip }, 9000),
                                 Datagram(Bytes::copy_from_slice(&[0xEE])));
        i += 1;
    }
    assert!(rx.len() == prefill);
    let peer = SocketAddr::new(IpAddr::V4(any_v4()), kani::any());
    if connected {
        // a connected peer is a concrete socket address (never a wildcard)
        kani::assume(!peer.ip().is_unspecified());
        udp.connect(bind_addr, peer);
    }
    let src = SocketAddr::new(IpAddr::V4(any_v4()), kani::any());
    let dst = SocketAddr::new(IpAddr::V4(any_v4()), dst_port);
    let payload: [u8; 2] = kani::any();
    udp.receive_from_network(src, dst, Datagram(Bytes::copy_from_slice(&payload)));
    let addr_ok = dst_port == 9000 && (bind_ip.is_unspecified() || bind_ip == dst.ip());
    let peer_ok = !connected || (peer.ip() == src.ip() && peer.port() == src.port());
    let room = prefill < CAP;
    let expect = addr_ok && peer_ok && room;
    assert!(rx.len() == prefill + expect as usize, "queued exactly when the datagram targets this socket and there is room");
    // earlier datagrams are undisturbed and come out first
    let mut j = 0;
    while j < prefill {
        match rx.try_recv() {
            Ok((d, from)) => {
                assert!(d.0.len() == 1 && d.0[0] == 0xEE && from == filler);
                std::mem::forget(d);
            }
            Err(_) => panic!("earlier datagram lost"),
        }
        j += 1;
    }
    if expect {
        match rx.try_recv() {
            Ok((d, from)) => {
                assert!(from == src, "the reported origin is the sending socket");
                assert!(d.0.len() == 2 && d.0[0] == payload[0] && d.0[1] == payload[1], "payload unaltered");
                std::mem::forget(d);
            }
            Err(_) => panic!("queued datagram must be receivable"),
        }
    }
    assert!(rx.len() == 0, "at most one receive per send");
    std::mem::forget(udp);
    std::mem::forget(rx);
    (addr_ok, peer_ok, expect)
}
// @verif id=C09 tier=quick role=udp_receive_filter timeout=900 desc=bind=0.0.0.0:9000,unconnected
crate::verif_proof! { unwind = 6;
fn c09_udp_wildcard_bind_receives_any_local_destination() {
    let (a, p, e) = udp_filter::<2>(IpAddr::V4(Ipv4Addr::UNSPECIFIED), 9000, false, 0);
    assert!(a && p && e);
    kani::cover!(e, "delivered");
}
}
// @verif id=C09 tier=quick role=udp_receive_filter timeout=900 desc=bind=0.0.0.0:9000,connected-peer-filter
crate::verif_proof! { unwind = 6;
fn c09_udp_connected_socket_receives_only_from_its_peer() {
    let (a, p, e) = udp_filter::<2>(IpAddr::V4(Ipv4Addr::UNSPECIFIED), 9000, true, 0);
    assert!(a && e == p);
    kani::cover!(e, "datagram from the connected peer is delivered");
    kani::cover!(!p, "datagram from another socket is filtered");
}
}
// @verif id=C09 tier=quick role=udp_receive_filter timeout=900 desc=bind=127.0.0.1:9000,unconnected
crate::verif_proof! { unwind = 6;
fn c09_udp_localhost_bind_receives_only_loopback_destinations() {
    let (a, _p, e) = udp_filter::<2>(IpAddr::V4(Ipv4Addr::LOCALHOST), 9000, false, 0);
    assert!(e == a);
    kani::cover!(e, "loopback destination delivered");
    kani::cover!(!a, "non-loopback destination dropped");
}
}
// @verif id=C09 tier=quick role=udp_receive_filter timeout=900 desc=bind=0.0.0.0:9000,queue-full(cap=1)
crate::verif_proof! { unwind = 6;
fn c09_udp_datagram_beyond_capacity_is_dropped_alone() {
    let (a, _p, e) = udp_filter::<1>(IpAddr::V4(Ipv4Addr::UNSPECIFIED), 9000, false, 1);
    assert!(a && !e);
    kani::cover!(!e, "overflow dropped, earlier datagram intact");
}
}
// @verif id=C09 tier=thorough role=udp_receive_filter timeout=900 desc=bind=0.0.0.0:9000,datagram-to-port-9001
crate::verif_proof! { unwind = 6;
fn c09_udp_datagram_to_unbound_port_is_dropped() {
    let (a, _p, e) = udp_filter::<2>(IpAddr::V4(Ipv4Addr::UNSPECIFIED), 9001, false, 1);
    assert!(!a && !e);
    kani::cover!(!e, "unbound port: dropped, queue undisturbed");
}
}
// @verif id=C09 tier=thorough role=udp_receive_filter timeout=900 desc=bind=host-ip:9000,connected,one-queued(cap=2)
crate::verif_proof! { unwind = 6;
fn c09_udp_specific_bind_connected_second_datagram() {
    let (a, p, e) = udp_filter::<2>(HOST_IP, 9000, true, 1);
    assert!(e == (a && p));
    kani::cover!(e, "second datagram queued behind the first");
    kani::cover!(a && !p, "right address, wrong peer: filtered");
}
}

// @verif id=C09 tier=thorough role=udp_receive_filter timeout=900 desc=bind=127.0.0.1:9000,connected
crate::verif_proof! { unwind = 6;
fn c09_udp_localhost_bind_connected() {
    let (a, p, e) = udp_filter::<2>(IpAddr::V4(Ipv4Addr::LOCALHOST), 9000, true, 0);
    assert!(e == (a && p));
    kani::cover!(e, "loopback datagram from the connected peer");
    kani::cover!(a && !p, "loopback datagram from someone else: filtered");
}
}
// @verif id=C09 tier=thorough role=udp_receive_filter timeout=900 desc=bind=host-ip:9000,unconnected,one-queued(cap=2)
crate::verif_proof! { unwind = 6;
fn c09_udp_specific_bind_second_datagram_keeps_order() {
    let (a, _p, e) = udp_filter::<2>(HOST_IP, 9000, false, 1);
    assert!(e == a);
    kani::cover!(e, "queued behind the first");
    kani::cover!(!a, "another destination address: dropped");
}
}

// @verif id=C15,C12 tier=quick role=bind_vs_stream timeout=900 desc=listener-bind-on-the-local-port-of-a-live-stream
// C15: "an explicit listener bind is not blocked by an outgoing stream's local port" and "a port
// becomes available again once its socket is dropped": with a live stream whose LOCAL port is P
// (an outgoing connection, or a connection accepted from a listener that has since been dropped),
// binding a listener on P succeeds; binding it a second time fails with AddrInUse; after the
// listener is unbound the port can be bound again while the stream is still alive.
crate::verif_proof! { unwind = 10;
fn c15_listener_bind_is_not_blocked_by_a_stream_on_that_port() {
    let mut tcp = Tcp::new(2);
    let port: u16 = 50000;
    let peer_port: u16 = kani::any();
    let pair = SocketPair::new(SocketAddr::new(HOST_IP, port), SocketAddr::new(PEER_IP, peer_port));
    let (rx, fc) = tcp.new_stream(pair);
    assert!(tcp.stream_count() == 1);
    let addr = SocketAddr::new(IpAddr::V4(Ipv4Addr::UNSPECIFIED), port);
    let l = tcp.bind(addr);
    assert!(l.is_ok(), "a live stream on the port does not block an explicit listener bind");
    std::mem::forget(l);
    let again = tcp.bind(addr);
    match &again {
        Err(e) => assert!(e.kind() == io::ErrorKind::AddrInUse),
        Ok(_) => panic!("a second listener on the port must fail"),
    }
    std::mem::forget(again);
    tcp.unbind(addr);
    let third = tcp.bind(addr);
    assert!(third.is_ok(), "the port is available again once the listener is dropped, stream or no stream");
    std::mem::forget(third);
    assert!(tcp.stream_count() == 1, "the stream is untouched by all of this");
    kani::cover!(tcp.stream_count() == 1, "bind, refuse, unbind, bind again next to a live stream");
    std::mem::forget(tcp);
    std::mem::forget(rx);
    std::mem::forget(fc);
}
}
