//! Kani harnesses for crates/turmoil/src/ip.rs.
use super::*;

// @verif id=C15 tier=quick role=addr_iter_v4
// IPv4 address iterator: two different counters below 2^16 never yield the same address, the address
// lies in 192.168.0.0/16 and the iterator moves on after every call (for ALL counter values).
#[kani::proof]
#[kani::unwind(6)]
fn c15_v4_addresses_are_distinct_below_2_16() {
    let i: u32 = kani::any();
    let j: u32 = kani::any();
    kani::assume(i < 65536 && j < 65536 && i != j);
    let mut a = IpVersionAddrIter::V4(i);
    let mut b = IpVersionAddrIter::V4(j);
    let x = a.next();
    let y = b.next();
    assert!(x != y, "different names never share an address");
    match x {
        IpAddr::V4(v) => {
            let o = v.octets();
            // inside the simulated subnet; WHICH host number a counter maps to is not asserted
            assert!(o[0] == 192 && o[1] == 168);
        }
        _ => panic!("v4 mode yields v4"),
    }
    assert!(!matches!(a, IpVersionAddrIter::V4(n) if n == i), "the iterator moves on: the next name gets another counter");
    kani::cover!(i >> 8 == j >> 8, "same third octet");
    kani::cover!(i & 0xff == j & 0xff, "same last octet");
}

// @verif id=C15 tier=quick role=addr_iter_v6
// IPv6: injective for counters below 2^64, prefix fe80::/64.
#[kani::proof]
#[kani::unwind(18)]
fn c15_v6_addresses_are_distinct_below_2_64() {
    let i: u128 = kani::any();
    let j: u128 = kani::any();
    kani::assume(i < (1u128 << 64) && j < (1u128 << 64) && i != j);
    let mut a = IpVersionAddrIter::V6(i);
    let mut b = IpVersionAddrIter::V6(j);
    let x = a.next();
    let y = b.next();
    assert!(x != y);
    match x {
        IpAddr::V6(v) => {
            let s = v.segments();
            assert!(s[0] == 0xfe80 && s[1] == 0 && s[2] == 0 && s[3] == 0);
        }
        _ => panic!("v6 mode yields v6"),
    }
    assert!(!matches!(a, IpVersionAddrIter::V6(n) if n == i));
    kani::cover!((i >> 16) == (j >> 16), "differ only in the last group");
}
