//! Kani harnesses for crates/turmoil/src/sim.rs: host registration through the real `Sim::host` /
//! `Sim::client` (tokio executor MODEL + scoped-tls model; no step is executed, so no nested async
//! block is polled - DESIGN.md section 1).
use super::*;
use rand::RngCore;
use tokio::time::Instant;
use std::net::{IpAddr, Ipv4Addr};

struct CoinRng;
impl RngCore for CoinRng {
    fn next_u32(&mut self) -> u32 {
        if kani::any() { 0 } else { u32::MAX }
    }
    fn next_u64(&mut self) -> u64 {
        if kani::any() { 0 } else { u64::MAX }
    }
    fn fill_bytes(&mut self, d: &mut [u8]) {
        for b in d {
            *b = if kani::any() { 0 } else { 255 };
        }
    }
}

fn new_sim<'a>(epoch_s: u32) -> Sim<'a> {
    let cfg = Config {
        duration: Duration::from_secs(10),
        tick: Duration::from_millis(1),
        epoch: UNIX_EPOCH + Duration::from_secs(epoch_s as u64),
        ephemeral_ports: 49152..=49155,
        tcp_capacity: 2,
        udp_capacity: 2,
        enable_tokio_io: false,
        random_node_order: false,
    };
    let link = crate::config::Link {
        latency: Some(crate::config::Latency::default()),
        message_loss: Some(crate::config::MessageLoss::default()),
    };
    let world = World::new(link, Box::new(CoinRng), crate::ip::IpVersion::V4.iter(), Duration::from_millis(1));
    Sim::new(cfg, world)
}

const IP_H: IpAddr = IpAddr::V4(Ipv4Addr::new(192, 168, 0, 1));

/// C05: "sim time = host time + the simulation time at which the host was registered; epoch time =
/// configured epoch + sim time" for a host registered LATE (the simulation has already run for a
/// symbolic whole number of milliseconds) through the real `Sim::host` / `Sim::client`.
fn late_registration(as_host: bool) {
    let epoch_s: u32 = kani::any();
    let ran_ms: u32 = kani::any();
    let mut sim = new_sim(epoch_s);
    // the simulation has been running for `ran_ms` ticks of 1 ms (what `Sim::step` adds up)
    sim.elapsed = Duration::from_millis(ran_ms as u64);
    if as_host {
        sim.host(IP_H, || async { Ok(()) });
    } else {
        sim.client(IP_H, async { Ok(()) });
    }
    assert!(sim.rts.len() == 1);
    // the host's first step starts: the runtime hands it its clock; in-step progress p
    let p_ns: u32 = kani::any();
    kani::assume(p_ns < 1_000_000);
    let origin = Duration::from_secs(3);
    let world = sim.world.get_mut();
    let host = world.hosts.get_mut(&IP_H).expect("registered");
    host.timer.now(Instant::model_at(origin));
    tokio::time::model_set_now(origin + Duration::new(0, p_ns));
    let p = Duration::new(0, p_ns);
    assert!(host.timer.elapsed() == p, "host time starts at zero");
    assert!(host.timer.sim_elapsed() == sim.elapsed + p, "sim time = host time + simulation time at registration");
    assert!(host.timer.since_epoch() == Duration::from_secs(epoch_s as u64) + sim.elapsed + p,
            "epoch time = configured epoch + sim time");
    assert!(sim.since_epoch + sim.elapsed == Duration::from_secs(epoch_s as u64) + sim.elapsed);
    kani::cover!(ran_ms > 0 && epoch_s > 0 && p_ns > 0, "registered late, non-zero epoch, mid-step");
    std::mem::forget(sim);
}

// @verif id=C05 tier=quick role=late_registration timeout=1500 mem=16 vt=1
#[kani::proof]
#[kani::unwind(34)]
fn c05_host_registered_late_keeps_sim_and_epoch_time_consistent() {
    late_registration(true);
}

// @verif id=C05 tier=quick role=late_registration timeout=1500 mem=16 vt=1
#[kani::proof]
#[kani::unwind(34)]
fn c05_client_registered_late_keeps_sim_and_epoch_time_consistent() {
    late_registration(false);
}
