//! Kani harnesses for crates/turmoil/src/net/tcp/stream.rs (reader side of a TCP stream, with the
//! tokio MODEL's channel so that the receive half is executable).
use super::*;
use std::net::{IpAddr, Ipv4Addr};

fn pair() -> Arc<SocketPair> {
    Arc::new(SocketPair::new(
        SocketAddr::new(IpAddr::V4(Ipv4Addr::new(192, 168, 0, 1)), 40000),
        SocketAddr::new(IpAddr::V4(Ipv4Addr::new(192, 168, 0, 2)), 80),
    ))
}

/// Reader over a queue holding DATA(2 bytes), DATA(1 byte) and optionally FIN; the writer has used two
/// of `CAP` credits. `ops` is a concrete schedule of (peek?, buffer size); byte contents are symbolic.
/// Checked after every operation:
///  * the bytes handed out are exactly the next bytes of the written stream, unaltered, and a peek
///    does not consume them;
///  * credits + unread data segments still queued == CAP (each data segment gives back exactly one
///    credit, when it leaves the queue), so credits never exceed CAP;
///  * end-of-file is reported only after both data segments were consumed and the FIN dequeued.
fn read_schedule<const CAP: usize, const N: usize>(ops: [(bool, usize); N], with_fin: bool) -> (usize, bool) {
    let (tx, rx) = mpsc::channel::<SequencedSegment>(CAP + 1);
    let d: [u8; 3] = kani::any();
    assert!(tx.try_send(SequencedSegment::Data(Bytes::copy_from_slice(&d[..2]))).is_ok());
    assert!(tx.try_send(SequencedSegment::Data(Bytes::copy_from_slice(&d[2..]))).is_ok());
    if with_fin {
        assert!(tx.try_send(SequencedSegment::Fin).is_ok());
    }
    let fc = Arc::new(FlowControl::new(CAP));
    assert!(fc.try_acquire() && fc.try_acquire());
    let mut rh = ReadHalf { pair: pair(), rx: Rx { recv: rx, buffer: None }, is_closed: false, flow_control: fc.clone() };
    let mut cx = std::task::Context::from_waker(std::task::Waker::noop());
    let mut pos = 0usize; // bytes consumed so far
    let mut eof = false;
    let mut i = 0;
    while i < N {
        let (peek, size) = ops[i];
        let mut storage = [0u8; 4];
        let mut rb = ReadBuf::new(&mut storage[..size]);
        // results are inspected by reference and then leaked: the drop glue of `io::Error` (a
        // `Box<dyn Error>` whose destructor dispatches to every error type) explodes in CBMC
        let got: usize = if peek {
            let r = rh.poll_peek(&mut cx, &mut rb);
            let g = match &r {
                Poll::Ready(Ok(n)) => *n,
                Poll::Ready(Err(_)) => usize::MAX - 1,
                Poll::Pending => usize::MAX,
            };
            std::mem::forget(r);
            g
        } else {
            let r = rh.poll_read_priv(&mut cx, &mut rb);
            let g = match &r {
                Poll::Ready(Ok(())) => rb.filled().len(),
                Poll::Ready(Err(_)) => usize::MAX - 1,
                Poll::Pending => usize::MAX,
            };
            std::mem::forget(r);
            g
        };
        assert!(got != usize::MAX - 1, "no reset in this schedule: the writer is alive");
        if got == usize::MAX {
            // parked: only legal when nothing is left and no FIN is queued
            assert!(pos == 3 && !with_fin, "a reader is parked only when the queue is empty");
        } else {
            assert!(got <= size && pos + got <= 3);
            let mut j = 0;
            while j < got {
                assert!(rb.filled()[j] == d[pos + j], "bytes are the next bytes of the stream, unaltered");
                j += 1;
            }
            if size > 0 && pos < 3 {
                assert!(got >= 1, "data is available: at least one byte is handed out");
            }
            if got == 0 && size > 0 {
                assert!(pos == 3 && with_fin, "EOF only after every byte was consumed and a FIN arrived");
                eof = true;
            }
            if !peek {
                pos += got;
            }
        }
        // credit accounting: one credit per data segment that left the queue
        let queued_data = {
            let n = rh.rx.recv.len();
            // the FIN (if still queued) is not a data segment
            if with_fin && !rh.is_closed && n > 0 { n - 1 } else { n }
        };
        let credits = fc.credits.load(Ordering::Acquire);
        assert!(credits <= CAP, "credits never exceed the capacity");
        assert!(credits + queued_data == CAP, "exactly one credit per consumed data segment");
        i += 1;
    }
    std::mem::forget(rh);
    std::mem::forget(tx);
    (pos, eof)
}

// @verif id=C02 tier=quick role=read_half timeout=900 mem=16 desc=peek(1),read(1),read(4)
crate::verif_proof! { unwind = 8;
fn c02_peek_then_reads_hand_out_the_stream_once() {
    let (pos, eof) = read_schedule::<2, 3>([(true, 1), (false, 1), (false, 4)], true);
    assert!(pos == 2 && !eof);
    kani::cover!(pos == 2, "first segment consumed after a peek");
}
}
// @verif id=C02 tier=quick role=read_half timeout=900 mem=16 desc=read(4),read(4),read(4)->EOF
crate::verif_proof! { unwind = 8;
fn c02_reads_reach_eof_after_all_bytes() {
    let (pos, eof) = read_schedule::<2, 3>([(false, 4), (false, 4), (false, 4)], true);
    assert!(pos == 3 && eof);
    kani::cover!(eof, "EOF after all bytes");
}
}
// @verif id=C02 tier=quick role=read_half timeout=900 mem=16 desc=read(4),read(4),peek(4)->EOF,read(4)->EOF
crate::verif_proof! { unwind = 8;
fn c02_eof_first_seen_by_a_peek_is_still_there_for_the_read() {
    let (pos, eof) = read_schedule::<2, 4>([(false, 4), (false, 4), (true, 4), (false, 4)], true);
    assert!(pos == 3 && eof);
    kani::cover!(eof, "EOF peeked, then read");
}
}
// @verif id=C02 tier=thorough role=read_half timeout=1800 mem=24 desc=read(1),read(1),peek(2),read(1)
crate::verif_proof! { unwind = 8;
fn c02_byte_wise_reads_cross_segment_boundary() {
    let (pos, eof) = read_schedule::<3, 4>([(false, 1), (false, 1), (true, 2), (false, 1)], false);
    assert!(pos == 3 && !eof);
    kani::cover!(pos == 3, "three bytes in three reads");
}
}
// @verif id=C02 tier=thorough role=read_half timeout=1800 mem=24 desc=peek(4),peek(4),read(4),peek(4)
crate::verif_proof! { unwind = 8;
fn c02_repeated_peeks_do_not_leak_credits() {
    let (pos, eof) = read_schedule::<2, 4>([(true, 4), (true, 4), (false, 4), (true, 4)], true);
    assert!(pos == 2 && !eof);
    kani::cover!(pos == 2, "peeks do not consume");
}
}

// ---------------------------------------------------------------------------------------------------
// C12 "once both ends of a stream have been dropped it no longer counts as established": the REAL
// `Drop for ReadHalf` / `Drop for WriteHalf` run inside `World::enter` on a real `World` with two
// registered hosts (no runtime is involved; `scoped-tls` is the model crate of /verif/models). For a
// stream to a remote host or to the host itself (through its own address or 127.0.0.1), with or
// without unread data, with the write side shut down before or not, and for both orders of dropping
// the halves: afterwards the host's stream table has no entry for the pair. With unread data the
// peer is told with a RST (remote: one RST in flight on the link and no FIN after it), without it a
// FIN goes out unless one was sent by an earlier shutdown.
use crate::envelope::{Protocol, Segment};
use crate::host::HostTimer;
use crate::world::World;
use rand::RngCore;
use std::cell::RefCell;

struct CoinRng;
impl RngCore for CoinRng {
    fn next_u32(&mut self) -> u32 {
        if kani::any() { 0 } else { u32::MAX }
    }
    fn next_u64(&mut self) -> u64 {
        if kani::any() { 0 } else { u64::MAX }
    }
    fn fill_bytes(&mut self, d: &mut [u8]) {
        for b in d {
            *b = if kani::any() { 0 } else { 255 };
        }
    }
}
const IP_A: IpAddr = IpAddr::V4(Ipv4Addr::new(192, 168, 0, 1));
const IP_B: IpAddr = IpAddr::V4(Ipv4Addr::new(192, 168, 0, 2));

fn two_host_world(cap: usize) -> World {
    let cfg = crate::Config {
        duration: std::time::Duration::from_secs(10),
        tick: std::time::Duration::from_millis(1),
        epoch: std::time::SystemTime::UNIX_EPOCH,
        ephemeral_ports: 49152..=49155,
        tcp_capacity: cap,
        udp_capacity: 2,
        enable_tokio_io: false,
        random_node_order: false,
    };
    // the link configuration the Builder installs (no random failures), with a fixed latency of
    // 5 ms so that whatever is sent is still in flight - and visible through the public link
    // iterator - when the harness looks
    let mut latency = crate::config::Latency::default();
    latency.min_message_latency = std::time::Duration::from_millis(5);
    latency.max_message_latency = std::time::Duration::from_millis(5);
    let link = crate::config::Link {
        latency: Some(latency),
        message_loss: Some(crate::config::MessageLoss::default()),
    };
    let mut w = World::new(link, Box::new(CoinRng), crate::ip::IpVersion::V4.iter(),
                           std::time::Duration::from_millis(1));
    w.register(IP_A, "a", HostTimer::new(std::time::Duration::ZERO, std::time::Duration::ZERO), &cfg);
    w.register(IP_B, "b", HostTimer::new(std::time::Duration::ZERO, std::time::Duration::ZERO), &cfg);
    w
}

/// peer: 0 = remote host, 1 = same host through its own address, 2 = same host through 127.0.0.1
fn teardown(peer: u8, unread: bool, shutdown_first: bool, read_half_first: bool) -> (usize, usize) {
    teardown_ex(peer, unread, shutdown_first, read_half_first, false)
}
/// `queued_fin`: the peer has already shut down its write side; its FIN sits unread in the receive
/// queue when the stream is dropped. That is NOT unread data: the close stays graceful.
fn teardown_ex(peer: u8, unread: bool, shutdown_first: bool, read_half_first: bool, queued_fin: bool) -> (usize, usize) {
    let mut world = two_host_world(2);
    let pair = match peer {
        0 => SocketPair::new(SocketAddr::new(IP_A, 49152), SocketAddr::new(IP_B, 80)),
        1 => SocketPair::new(SocketAddr::new(IP_A, 49152), SocketAddr::new(IP_A, 80)),
        _ => SocketPair::new(SocketAddr::new(IpAddr::V4(Ipv4Addr::LOCALHOST), 49152), SocketAddr::new(IpAddr::V4(Ipv4Addr::LOCALHOST), 80)),
    };
    let (rx, bidi) = world.hosts.get_mut(&IP_A).unwrap().tcp.new_stream(pair);
    world.current = Some(IP_A);
    if queued_fin {
        let r = world.hosts.get_mut(&IP_A).unwrap().receive_from_network(crate::envelope::Envelope {
            src: pair.remote,
            dst: pair.local,
            message: Protocol::Tcp(Segment::Fin(1)),
        });
        assert!(r.is_ok(), "the FIN is taken");
        std::mem::forget(r);
    }
    let stream = TcpStream::new(pair, rx, bidi);
    let TcpStream { mut read_half, mut write_half } = stream;
    if unread {
        let b: [u8; 1] = kani::any();
        read_half.rx.buffer = Some(Bytes::copy_from_slice(&b));
    }
    assert!(world.hosts.get(&IP_A).unwrap().tcp.stream_count() == 1);
    let cell = RefCell::new(world);
    World::enter(&cell, || {
        if shutdown_first {
            let r = write_half.poll_shutdown_priv();
            match &r {
                Poll::Ready(Ok(())) => {}
                _ => panic!("shutdown of a live stream succeeds"),
            }
            std::mem::forget(r);
        }
        if read_half_first {
            drop(read_half);
            drop(write_half);
        } else {
            drop(write_half);
            drop(read_half);
        }
    });
    let mut world = cell.into_inner();
    let left = world.hosts.get(&IP_A).unwrap().tcp.stream_count();
    assert!(left == 0, "both halves dropped: the stream no longer counts as established on this host");
    // what went out on the wire towards the remote peer (the crate's own public link iterator)
    let mut fins = 0;
    let mut rsts = 0;
    if peer == 0 {
        for link in world.topology.iter_mut() {
            for sent in link {
                match sent.protocol() {
                    Protocol::Tcp(Segment::Fin(_)) => fins += 1,
                    Protocol::Tcp(Segment::Rst) => rsts += 1,
                    _ => {}
                }
            }
        }
        assert!(fins <= 1 && rsts <= 1, "at most one FIN and one RST per stream");
        if unread {
            assert!(rsts == 1, "closing with unread data tells the peer with a RST");
        } else {
            assert!(rsts == 0 && fins == 1, "a graceful close sends exactly one FIN");
        }
    }
    std::mem::forget(world);
    (fins, rsts)
}
// (unread data towards a REMOTE peer is not an instance: the RST path followed by the sibling half's
// drop - which finds the stream gone, builds an `io::Error` and drops it - had no verdict in 15 min
// in either drop order; the same-host instances cover the unread-data path)
// @verif id=C12 tier=quick role=stream_teardown timeout=900 mem=12 vt=1 desc=same-host(127.0.0.1),unread-data,write-side-shut-down-first
crate::verif_proof! { unwind = 8;
fn c12_dropped_loopback_stream_is_released_after_shutdown() {
    let (_f, _r) = teardown(2, true, true, true);
    kani::cover!(true, "released");
}
}
// @verif id=C12 tier=quick role=stream_teardown timeout=900 mem=12 vt=1 desc=remote-peer,graceful,write-half-dropped-first
crate::verif_proof! { unwind = 8;
fn c12_dropped_stream_graceful_close_sends_one_fin() {
    let (f, r) = teardown(0, false, false, false);
    kani::cover!(f == 1 && r == 0, "one FIN");
}
}
// a FIN that is still queued unread is not unread DATA: dropping the stream stays a graceful close
// (seed C02-5: `!recv.is_empty()` instead of "a Data segment is queued" turned it into a reset)
// (no verdict in 900 s, measured: `Host::receive_from_network` on a World adds the whole receive path;
// unshipped - seed C02-5 stays undetected)
// @verif id=C12,C02 tier=unshipped role=stream_teardown timeout=900 mem=12 vt=1 desc=remote-peer,peer-FIN-queued-unread,read-half-dropped-first
crate::verif_proof! { unwind = 8;
fn c12_dropping_a_stream_whose_peer_already_sent_fin_is_still_graceful() {
    let (f, r) = teardown_ex(0, false, false, true, true);
    kani::cover!(f == 1 && r == 0, "one FIN, no RST");
}
}
// @verif id=C12 tier=thorough role=stream_teardown timeout=900 mem=12 vt=1 desc=same-host(own-address),unread-data,write-half-dropped-first
crate::verif_proof! { unwind = 8;
fn c12_dropped_same_host_stream_is_released() {
    let (_f, _r) = teardown(1, true, false, false);
    kani::cover!(true, "released");
}
}
// @verif id=C12 tier=thorough role=stream_teardown timeout=900 mem=12 vt=1 desc=remote-peer,shutdown-then-drop,graceful
crate::verif_proof! { unwind = 8;
fn c12_dropped_stream_after_shutdown_sends_no_second_fin() {
    let (f, r) = teardown(0, false, true, true);
    kani::cover!(f == 1 && r == 0, "only the shutdown's FIN");
}
}

// ---------------------------------------------------------------------------------------------------
// C02, writer side ("a writer that outruns the reader is blocked or told WouldBlock, never silently
// discarded"): the REAL `WriteHalf::poll_write_priv` inside `World::enter` on the two-host World.
// Every accepted write puts exactly one data segment on the link, in write order, with growing
// sequence numbers and the written bytes unaltered; a write without credit parks and puts NOTHING on
// the link; a credit handed back by the reader lets the next write through.
/// `N` writes of 2 symbolic bytes each on a stream with `CAP` credits; after write number
/// `release_after` (if < N) the peer's reader gives one credit back.
fn write_schedule<const CAP: usize, const N: usize>(release_after: usize) -> (usize, usize) {
    let mut world = two_host_world(CAP);
    let pair = SocketPair::new(SocketAddr::new(IP_A, 49152), SocketAddr::new(IP_B, 80));
    let (rx, bidi) = world.hosts.get_mut(&IP_A).unwrap().tcp.new_stream(pair);
    world.current = Some(IP_A);
    let stream = TcpStream::new(pair, rx, bidi);
    let TcpStream { read_half, write_half } = stream;
    let data: [[u8; 2]; N] = kani::any();
    let cell = RefCell::new(world);
    let mut accepted = [false; N];
    let mut n_acc = 0;
    let mut blocked = 0;
    World::enter(&cell, || {
        let mut cx = std::task::Context::from_waker(std::task::Waker::noop());
        let mut i = 0;
        while i < N {
            let r = write_half.poll_write_priv(&mut cx, &data[i]);
            match &r {
                Poll::Ready(Ok(n)) => {
                    assert!(*n == 2, "an accepted write takes the whole buffer");
                    accepted[i] = true;
                    n_acc += 1;
                }
                Poll::Ready(Err(_)) => panic!("a live stream does not fail a write"),
                Poll::Pending => blocked += 1,
            }
            std::mem::forget(r);
            if i == release_after {
                // what the PEER's reader does when it takes a data segment off its queue: the write
                // half's credit pool is the one the peer's read half releases into
                write_half.flow_control.release();
            }
            i += 1;
        }
    });
    let mut world = cell.into_inner();
    // every accepted write, and nothing else, is on the wire exactly once, in order, unaltered
    let mut seen = 0;
    let mut last_seq = 0u64;
    for link in world.topology.iter_mut() {
        for sent in link {
            match sent.protocol() {
                Protocol::Tcp(Segment::Data(seq, bytes)) => {
                    assert!(*seq > last_seq || seen == 0, "sequence numbers grow");
                    last_seq = *seq;
                    // the seen-th accepted write
                    let mut k = 0;
                    let mut idx = 0;
                    let mut found = false;
                    while k < N {
                        if accepted[k] {
                            if idx == seen {
                                assert!(bytes.len() == 2 && bytes[0] == data[k][0] && bytes[1] == data[k][1], "payload unaltered, in write order");
                                found = true;
                            }
                            idx += 1;
                        }
                        k += 1;
                    }
                    assert!(found);
                    seen += 1;
                }
                _ => panic!("only data segments were sent"),
            }
        }
    }
    assert!(seen == n_acc, "one segment per accepted write: nothing silently discarded, nothing duplicated");
    assert!(n_acc + blocked == N);
    std::mem::forget(world);
    std::mem::forget(read_half);
    std::mem::forget(write_half);
    (n_acc, blocked)
}
// @verif id=C02 tier=quick role=write_half timeout=1800 mem=16 vt=1 desc=capacity=1,two-writes(second-blocked)
crate::verif_proof! { unwind = 8;
fn c02_write_without_credit_is_blocked_not_discarded() {
    let (acc, blocked) = write_schedule::<1, 2>(9);
    assert!(acc == 1 && blocked == 1, "the writer that outruns the reader is blocked, not discarded");
    kani::cover!(blocked == 1, "second write blocked");
}
}
// (not shipped: three writes - accepted, blocked, accepted after the credit came back - had no verdict
// in 40 min, two accepted writes none in 30 min: every accepted write is one more pass through the
// float latency arithmetic of `Link::enqueue_message`) C02 role=write_half desc=capacity=1,two-writes,credit-returned-in-between
crate::verif_proof! { unwind = 8;
fn c02_write_resumes_after_the_reader_returns_a_credit() {
    let (acc, blocked) = write_schedule::<1, 2>(0);
    assert!(acc == 2 && blocked == 0);
    kani::cover!(acc == 2, "both writes on the wire, in order");
}
}
