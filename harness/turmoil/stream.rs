//! Kani harnesses for crates/turmoil/src/net/tcp/stream.rs (reader side of a TCP stream, with the
//! tokio MODEL's channel so that the receive half is executable).
use super::*;
use std::net::{IpAddr, Ipv4Addr};

fn pair() -> Arc<SocketPair> {
    Arc::new(SocketPair::new(
        SocketAddr::new(IpAddr::V4(Ipv4Addr::new(192, 168, 0, 1)), 40000),
        SocketAddr::new(IpAddr::V4(Ipv4Addr::new(192, 168, 0, 2)), 80),
    ))
}

/// Reader over a queue holding DATA(2 bytes), DATA(1 byte) and optionally FIN; the writer has used two
/// of `CAP` credits. `ops` is a concrete schedule of (peek?, buffer size); byte contents are symbolic.
/// Checked after every operation:
///  * the bytes handed out are exactly the next bytes of the written stream, unaltered, and a peek
///    does not consume them;
///  * credits + unread data segments still queued == CAP (each data segment gives back exactly one
///    credit, when it leaves the queue), so credits never exceed CAP;
///  * end-of-file is reported only after both data segments were consumed and the FIN dequeued.
fn read_schedule<const CAP: usize, const N: usize>(ops: [(bool, usize); N], with_fin: bool) -> (usize, bool) {
    let (tx, rx) = mpsc::channel::<SequencedSegment>(CAP + 1);
    let d: [u8; 3] = kani::any();
    assert!(tx.try_send(SequencedSegment::Data(Bytes::copy_from_slice(&d[..2]))).is_ok());
    assert!(tx.try_send(SequencedSegment::Data(Bytes::copy_from_slice(&d[2..]))).is_ok());
    if with_fin {
        assert!(tx.try_send(SequencedSegment::Fin).is_ok());
    }
    let fc = Arc::new(FlowControl::new(CAP));
    assert!(fc.try_acquire() && fc.try_acquire());
    let mut rh = ReadHalf { pair: pair(), rx: Rx { recv: rx, buffer: None }, is_closed: false, flow_control: fc.clone() };
    let mut cx = std::task::Context::from_waker(std::task::Waker::noop());
    let mut pos = 0usize; // bytes consumed so far
    let mut eof = false;
    let mut i = 0;
    while i < N {
        let (peek, size) = ops[i];
        let mut storage = [0u8; 4];
        let mut rb = ReadBuf::new(&mut storage[..size]);
        // results are inspected by reference and then leaked: the drop glue of `io::Error` (a
        // `Box<dyn Error>` whose destructor dispatches to every error type) explodes in CBMC
        let got: usize = if peek {
            let r = rh.poll_peek(&mut cx, &mut rb);
            let g = match &r {
                Poll::Ready(Ok(n)) => *n,
                Poll::Ready(Err(_)) => usize::MAX - 1,
                Poll::Pending => usize::MAX,
            };
            std::mem::forget(r);
            g
        } else {
            let r = rh.poll_read_priv(&mut cx, &mut rb);
            let g = match &r {
                Poll::Ready(Ok(())) => rb.filled().len(),
                Poll::Ready(Err(_)) => usize::MAX - 1,
                Poll::Pending => usize::MAX,
            };
            std::mem::forget(r);
            g
        };
        assert!(got != usize::MAX - 1, "no reset in this schedule: the writer is alive");
        if got == usize::MAX {
            // parked: only legal when nothing is left and no FIN is queued
            assert!(pos == 3 && !with_fin, "a reader is parked only when the queue is empty");
        } else {
            assert!(got <= size && pos + got <= 3);
            let mut j = 0;
            while j < got {
                assert!(rb.filled()[j] == d[pos + j], "bytes are the next bytes of the stream, unaltered");
                j += 1;
            }
            if size > 0 && pos < 3 {
                assert!(got >= 1, "data is available: at least one byte is handed out");
            }
            if got == 0 && size > 0 {
                assert!(pos == 3 && with_fin, "EOF only after every byte was consumed and a FIN arrived");
                eof = true;
            }
            if !peek {
                pos += got;
            }
        }
        // credit accounting: one credit per data segment that left the queue
        let queued_data = {
            let n = rh.rx.recv.len();
            // the FIN (if still queued) is not a data segment
            if with_fin && !rh.is_closed && n > 0 { n - 1 } else { n }
        };
        let credits = fc.credits.load(Ordering::Acquire);
        assert!(credits <= CAP, "credits never exceed the capacity");
        assert!(credits + queued_data == CAP, "exactly one credit per consumed data segment");
        i += 1;
    }
    std::mem::forget(rh);
    std::mem::forget(tx);
    (pos, eof)
}

// @verif id=C02 tier=quick role=read_half timeout=900 mem=16 desc=peek(1),read(1),read(4)
crate::verif_proof! { unwind = 8;
fn c02_peek_then_reads_hand_out_the_stream_once() {
    let (pos, eof) = read_schedule::<2, 3>([(true, 1), (false, 1), (false, 4)], true);
    assert!(pos == 2 && !eof);
    kani::cover!(pos == 2, "first segment consumed after a peek");
}
}
// @verif id=C02 tier=quick role=read_half timeout=900 mem=16 desc=read(4),read(4),read(4)->EOF
crate::verif_proof! { unwind = 8;
fn c02_reads_reach_eof_after_all_bytes() {
    let (pos, eof) = read_schedule::<2, 3>([(false, 4), (false, 4), (false, 4)], true);
    assert!(pos == 3 && eof);
    kani::cover!(eof, "EOF after all bytes");
}
}
// @verif id=C02 tier=thorough role=read_half timeout=1800 mem=24 desc=read(1),read(1),peek(2),read(1)
crate::verif_proof! { unwind = 8;
fn c02_byte_wise_reads_cross_segment_boundary() {
    let (pos, eof) = read_schedule::<3, 4>([(false, 1), (false, 1), (true, 2), (false, 1)], false);
    assert!(pos == 3 && !eof);
    kani::cover!(pos == 3, "three bytes in three reads");
}
}
// @verif id=C02 tier=thorough role=read_half timeout=1800 mem=24 desc=peek(4),peek(4),read(4),peek(4)
crate::verif_proof! { unwind = 8;
fn c02_repeated_peeks_do_not_leak_credits() {
    let (pos, eof) = read_schedule::<2, 4>([(true, 4), (true, 4), (false, 4), (true, 4)], true);
    assert!(pos == 2 && !eof);
    kani::cover!(pos == 2, "peeks do not consume");
}
}
