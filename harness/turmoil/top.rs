//! Kani harnesses for crates/turmoil/src/top.rs (child module: sees Link, State, Sent, DeliveryStatus).
use super::*;
use crate::envelope::Datagram;
use bytes::Bytes;
use std::net::{Ipv4Addr, SocketAddr};

pub(crate) const IP_A: IpAddr = IpAddr::V4(Ipv4Addr::new(192, 168, 0, 1));
pub(crate) const IP_B: IpAddr = IpAddr::V4(Ipv4Addr::new(192, 168, 0, 2));

/// Every word of the world rng is an arbitrary value: "for every seed" is literal.
pub(crate) struct SymRng;
impl RngCore for SymRng {
    fn next_u32(&mut self) -> u32 {
        kani::any()
    }
    fn next_u64(&mut self) -> u64 {
        kani::any()
    }
    fn fill_bytes(&mut self, d: &mut [u8]) {
        for b in d {
            *b = kani::any();
        }
    }
}

/// An rng whose every word is one of the two extremes, chosen symbolically: every Bernoulli coin can
/// still come up either way (0 < p, MAX >= p) while the latency sample degenerates to a constant, so
/// harnesses that are about the coins do not pay for bit-blasting IEEE-754 arithmetic (the latency
/// window for ALL samples is the subject of `c14_sampled_latency_is_clamped_into_window`).
pub(crate) struct CoinRng;
impl RngCore for CoinRng {
    fn next_u32(&mut self) -> u32 {
        if kani::any() { 0 } else { u32::MAX }
    }
    fn next_u64(&mut self) -> u64 {
        if kani::any() { 0 } else { u64::MAX }
    }
    fn fill_bytes(&mut self, d: &mut [u8]) {
        for b in d {
            *b = if kani::any() { 0 } else { 255 };
        }
    }
}

/// tokio (model) Instant at `secs`+`nanos` since the model's origin; no clock is read.
pub(crate) fn instant(secs: i64, nanos: u32) -> Instant {
    Instant::model_at(Duration::new(secs as u64, nanos))
}

pub(crate) fn any_state() -> State {
    match kani::any::<u8>() & 3 {
        0 => State::Healthy,
        1 => State::ExplicitPartition,
        2 => State::RandPartition,
        _ => State::Hold,
    }
}
pub(crate) fn is_explicit(s: State) -> bool {
    matches!(s, State::ExplicitPartition)
}
pub(crate) fn is_healthy(s: State) -> bool {
    matches!(s, State::Healthy)
}

fn loss_cfg(fail_rate: f64, repair_rate: f64) -> config::Link {
    config::Link {
        latency: Some(config::Latency {
            min_message_latency: Duration::from_millis(0),
            max_message_latency: Duration::from_millis(100),
            latency_distribution: Exp::new(5.0).unwrap(),
        }),
        message_loss: Some(config::MessageLoss { fail_rate, repair_rate }),
    }
}

// ---------------------------------------------------------------------------------------------------
// C03-S1: the random partition / repair process must leave an explicitly partitioned direction alone.
// Pre-state: both direction states symbolic (all 16 combinations, restricted to the alphabet of the
// property: no Hold), empty queues. Operation: the coin-flip step that runs before every send, with
// symbolic coins. Obligation: a direction that was ExplicitPartition still is.
fn rand_step(fail_rate: f64, repair_rate: f64) -> (bool, bool) {
    let mut link = Link::new(instant(1000, 0));
    link.state_a_b = any_state();
    link.state_b_a = any_state();
    kani::assume(!matches!(link.state_a_b, State::Hold) && !matches!(link.state_b_a, State::Hold));
    let pre_ab = link.state_a_b;
    let pre_ba = link.state_b_a;
    let cfg = loss_cfg(fail_rate, repair_rate);
    let mut rng = SymRng;
    link.rand_partition_or_repair(&cfg, &mut rng);
    if is_explicit(pre_ab) {
        assert!(is_explicit(link.state_a_b), "explicit a->b partition overwritten by the random fail/repair process");
    }
    if is_explicit(pre_ba) {
        assert!(is_explicit(link.state_b_a), "explicit b->a partition overwritten by the random fail/repair process");
    }
    let changed = !(is_healthy(pre_ab) == is_healthy(link.state_a_b) && is_healthy(pre_ba) == is_healthy(link.state_b_a));
    let one_way = is_explicit(pre_ab) != is_explicit(pre_ba);
    std::mem::forget(link);
    (changed, one_way)
}

// @verif id=C03 tier=quick role=rand_process_keeps_explicit derived=0 witness=c03_oneway_partition_survives_random_failures timeout=900 desc=fail_rate=1,repair_rate=1
crate::verif_proof! { unwind = 4;
fn c03_rand_process_keeps_explicit_partition_rates_1_1() {
    let (changed, one_way) = rand_step(1.0, 1.0);
    kani::cover!(changed, "random process changed a direction");
    kani::cover!(one_way, "one-way explicit partition");
}
}
// @verif id=C03 tier=quick role=rand_process_keeps_explicit witness=c03_oneway_partition_survives_random_failures timeout=900 desc=fail_rate=0.5,repair_rate=0.5
crate::verif_proof! { unwind = 4;
fn c03_rand_process_keeps_explicit_partition_rates_half() {
    let (changed, one_way) = rand_step(0.5, 0.5);
    kani::cover!(changed, "random process changed a direction");
    kani::cover!(one_way, "one-way explicit partition");
}
}
// @verif id=C03 tier=quick role=rand_process_off timeout=900 desc=fail_rate=0
crate::verif_proof! { unwind = 4;
fn c03_rand_process_off_changes_nothing_healthy() {
    let mut link = Link::new(instant(1000, 0));
    link.state_a_b = if kani::any() { State::Healthy } else { State::ExplicitPartition };
    link.state_b_a = if kani::any() { State::Healthy } else { State::ExplicitPartition };
    let (a, b) = (link.state_a_b, link.state_b_a);
    let cfg = loss_cfg(0.0, kani::any::<bool>() as u8 as f64);
    let mut rng = SymRng;
    link.rand_partition_or_repair(&cfg, &mut rng);
    assert!(is_healthy(a) == is_healthy(link.state_a_b) && is_explicit(a) == is_explicit(link.state_a_b));
    assert!(is_healthy(b) == is_healthy(link.state_b_a) && is_explicit(b) == is_explicit(link.state_b_a));
    kani::cover!(is_healthy(a) && is_explicit(b), "one-way partition untouched");
    std::mem::forget(link);
}
}

// ---------------------------------------------------------------------------------------------------
// helpers for queue states

fn sa(ip: IpAddr, port: u16) -> SocketAddr {
    SocketAddr::new(ip, port)
}
fn udp_msg() -> Protocol {
    Protocol::Udp(Datagram(Bytes::new()))
}
/// Queue one in-flight message with identity `id` (carried in the source port), direction a->b or b->a.
fn push_sent(link: &mut Link, id: u16, a_to_b: bool, status: DeliveryStatus) {
    let (s, d) = if a_to_b { (IP_A, IP_B) } else { (IP_B, IP_A) };
    link.sent.push_back(Sent { src: sa(s, id), dst: sa(d, 9), status, protocol: udp_msg() });
}
fn id_of(s: &Sent) -> u16 {
    s.src.port()
}
fn is_a_to_b(s: &Sent) -> bool {
    s.src.ip() == IP_A
}

// ---------------------------------------------------------------------------------------------------
// C03-S2/S3 + C14-S1: one send (the whole `enqueue_message`: coin flips, routing by direction state,
// latency sampling, maturation) from a link with symbolic direction states (no Hold: outside the C03
// alphabet) and an empty queue.
//  * a direction that is ExplicitPartition before the call still is afterwards, and a message sent
//    in that direction is neither queued nor matured - whatever the coins (any fail/repair rate);
//  * with fail_rate = 0 a message on a Healthy direction is queued exactly once with a deliver-after
//    instant in [now+min, now+max] (latency window), nothing else changes.
fn send_step(ab: State, ba: State, a_to_b: bool, fail_rate: f64, repair_rate: f64) -> (bool, bool, bool) {
    let now = instant(1000, 0);
    let mut link = Link::new(now);
    // the state pair and the direction of the send are concrete per instance (symbolic: > 8 GB);
    // every coin of the random fail/repair process is symbolic
    link.state_a_b = ab;
    link.state_b_a = ba;
    let (pre_ab, pre_ba) = (link.state_a_b, link.state_b_a);
    let cfg = loss_cfg(fail_rate, repair_rate);
    let mut rng = CoinRng;
    let (s, d) = if a_to_b { (IP_A, IP_B) } else { (IP_B, IP_A) };
    let r = link.enqueue_message(&cfg, &mut rng, sa(s, 7), sa(d, 9), udp_msg());
    assert!(r.is_ok());
    std::mem::forget(r);
    let pre_dir = if a_to_b { pre_ab } else { pre_ba };
    if is_explicit(pre_ab) {
        assert!(is_explicit(link.state_a_b), "explicit partition a->b survives the send");
    }
    if is_explicit(pre_ba) {
        assert!(is_explicit(link.state_b_a), "explicit partition b->a survives the send");
    }
    let queued = link.sent.len();
    let matured: usize = link.deliverable.values().map(|q| q.len()).sum();
    assert!(queued + matured <= 1);
    if is_explicit(pre_dir) {
        assert!(queued == 0 && matured == 0, "nothing sent across an explicitly partitioned direction is queued");
    }
    if fail_rate == 0.0 && is_healthy(pre_dir) {
        assert!(queued + matured == 1, "healthy direction, no random failures: the message is in flight exactly once");
        if queued == 1 {
            let m = link.sent.front().unwrap();
            assert!(m.src == sa(s, 7) && m.dst == sa(d, 9));
            match m.status {
                DeliveryStatus::DeliverAfter(t) => {
                    assert!(t >= now && t <= now + Duration::from_millis(100), "C14: latency inside [min, max]");
                }
                DeliveryStatus::Hold => panic!("not held"),
            }
        }
    }
    let changed = is_healthy(pre_ab) != is_healthy(link.state_a_b) || is_healthy(pre_ba) != is_healthy(link.state_b_a);
    std::mem::forget(link);
    (changed, queued == 1, matured == 1)
}
// @verif id=C03 tier=quick role=send_step timeout=900 desc=(Explicit,Healthy),send-a->b,rates=1/1
crate::verif_proof! { unwind = 4;
#[kani::stub(std::collections::VecDeque::remove, crate::verif_common::vecdeque_remove_stub)]
#[kani::stub(std::collections::VecDeque::swap_remove_back, crate::verif_common::vecdeque_swap_remove_back_stub)]
#[kani::stub(std::collections::VecDeque::swap_remove_front, crate::verif_common::vecdeque_swap_remove_front_stub)]
fn c03_send_across_explicit_oneway_partition_is_dropped() {
    let (_, queued, matured) = send_step(State::ExplicitPartition, State::Healthy, true, 1.0, 1.0);
    assert!(!queued && !matured);
    kani::cover!(!queued, "dropped");
}
}
// @verif id=C03 tier=quick role=send_step timeout=900 desc=(Explicit,Healthy),send-b->a,rates=1/1
crate::verif_proof! { unwind = 4;
#[kani::stub(std::collections::VecDeque::remove, crate::verif_common::vecdeque_remove_stub)]
#[kani::stub(std::collections::VecDeque::swap_remove_back, crate::verif_common::vecdeque_swap_remove_back_stub)]
#[kani::stub(std::collections::VecDeque::swap_remove_front, crate::verif_common::vecdeque_swap_remove_front_stub)]
fn c03_reverse_traffic_with_random_failures_keeps_explicit_partition() {
    let (changed, queued, _) = send_step(State::ExplicitPartition, State::Healthy, false, 1.0, 1.0);
    assert!(changed && !queued);
    kani::cover!(changed, "the healthy direction failed at random");
}
}
// (not shipped: no verdict in 40 min - the Bernoulli comparison with p = 0.5 keeps both coin outcomes and the
// float latency arithmetic symbolic at once) C03 tier=thorough role=send_step desc=(Explicit,Healthy),send-b->a,rates=0.5/0.5(symbolic-coin)
crate::verif_proof! { unwind = 4;
#[kani::stub(std::collections::VecDeque::remove, crate::verif_common::vecdeque_remove_stub)]
#[kani::stub(std::collections::VecDeque::swap_remove_back, crate::verif_common::vecdeque_swap_remove_back_stub)]
#[kani::stub(std::collections::VecDeque::swap_remove_front, crate::verif_common::vecdeque_swap_remove_front_stub)]
fn c03_reverse_traffic_with_symbolic_coin_keeps_explicit_partition() {
    let (changed, queued, _) = send_step(State::ExplicitPartition, State::Healthy, false, 0.5, 0.5);
    kani::cover!(changed, "the healthy direction failed at random");
    kani::cover!(queued, "reverse direction still delivers");
}
}
// @verif id=C03 tier=quick role=send_step timeout=900 desc=(RandPartition,Explicit),send-a->b,rates=1/1(random-repair)
crate::verif_proof! { unwind = 4;
#[kani::stub(std::collections::VecDeque::remove, crate::verif_common::vecdeque_remove_stub)]
#[kani::stub(std::collections::VecDeque::swap_remove_back, crate::verif_common::vecdeque_swap_remove_back_stub)]
#[kani::stub(std::collections::VecDeque::swap_remove_front, crate::verif_common::vecdeque_swap_remove_front_stub)]
fn c03_random_repair_does_not_heal_explicit_partition() {
    let (changed, _, _) = send_step(State::RandPartition, State::ExplicitPartition, true, 1.0, 1.0);
    kani::cover!(changed, "random repair healed the random partition");
}
}
// @verif id=C03,C14 tier=quick role=send_step timeout=900 desc=(Healthy,Healthy),send-a->b,fail_rate=0
crate::verif_proof! { unwind = 4;
#[kani::stub(std::collections::VecDeque::remove, crate::verif_common::vecdeque_remove_stub)]
#[kani::stub(std::collections::VecDeque::swap_remove_back, crate::verif_common::vecdeque_swap_remove_back_stub)]
#[kani::stub(std::collections::VecDeque::swap_remove_front, crate::verif_common::vecdeque_swap_remove_front_stub)]
fn c03_healthy_send_is_in_flight_exactly_once() {
    let (changed, queued, matured) = send_step(State::Healthy, State::Healthy, true, 0.0, 1.0);
    assert!(!changed && (queued || matured));
    kani::cover!(queued || matured, "message in flight");
}
}
// @verif id=C03 tier=thorough role=send_step timeout=900 desc=(Healthy,Explicit),send-b->a,rates=1/0
crate::verif_proof! { unwind = 4;
#[kani::stub(std::collections::VecDeque::remove, crate::verif_common::vecdeque_remove_stub)]
#[kani::stub(std::collections::VecDeque::swap_remove_back, crate::verif_common::vecdeque_swap_remove_back_stub)]
#[kani::stub(std::collections::VecDeque::swap_remove_front, crate::verif_common::vecdeque_swap_remove_front_stub)]
fn c03_send_across_explicit_b_to_a_is_dropped() {
    let (_, queued, matured) = send_step(State::Healthy, State::ExplicitPartition, false, 1.0, 0.0);
    assert!(!queued && !matured);
    kani::cover!(!queued, "dropped");
}
}
// @verif id=C03 tier=thorough role=send_step timeout=900 desc=(Explicit,RandPartition),send-b->a,rates=1/1
crate::verif_proof! { unwind = 4;
#[kani::stub(std::collections::VecDeque::remove, crate::verif_common::vecdeque_remove_stub)]
#[kani::stub(std::collections::VecDeque::swap_remove_back, crate::verif_common::vecdeque_swap_remove_back_stub)]
#[kani::stub(std::collections::VecDeque::swap_remove_front, crate::verif_common::vecdeque_swap_remove_front_stub)]
fn c03_random_repair_of_reverse_direction_keeps_explicit() {
    let (changed, _, _) = send_step(State::ExplicitPartition, State::RandPartition, false, 1.0, 1.0);
    kani::cover!(changed, "random repair");
}
}
// @verif id=C03 tier=thorough role=send_step timeout=900 desc=(Explicit,Explicit),send-a->b,rates=1/1
crate::verif_proof! { unwind = 4;
#[kani::stub(std::collections::VecDeque::remove, crate::verif_common::vecdeque_remove_stub)]
#[kani::stub(std::collections::VecDeque::swap_remove_back, crate::verif_common::vecdeque_swap_remove_back_stub)]
#[kani::stub(std::collections::VecDeque::swap_remove_front, crate::verif_common::vecdeque_swap_remove_front_stub)]
fn c03_full_partition_ignores_random_process() {
    let (changed, queued, _) = send_step(State::ExplicitPartition, State::ExplicitPartition, true, 1.0, 1.0);
    assert!(!changed && !queued);
    kani::cover!(!changed, "unchanged");
}
}

// @verif id=C03 tier=thorough role=send_step timeout=900 desc=(Healthy,Explicit),send-a->b(healthy-direction),rates=0/1
crate::verif_proof! { unwind = 4;
#[kani::stub(std::collections::VecDeque::remove, crate::verif_common::vecdeque_remove_stub)]
#[kani::stub(std::collections::VecDeque::swap_remove_back, crate::verif_common::vecdeque_swap_remove_back_stub)]
#[kani::stub(std::collections::VecDeque::swap_remove_front, crate::verif_common::vecdeque_swap_remove_front_stub)]
fn c03_healthy_direction_of_a_oneway_partition_still_delivers() {
    let (changed, queued, matured) = send_step(State::Healthy, State::ExplicitPartition, true, 0.0, 1.0);
    assert!(!changed && (queued || matured));
    kani::cover!(queued || matured, "in flight on the healthy direction");
}
}
// @verif id=C03 tier=thorough role=send_step timeout=900 desc=(Explicit,Explicit),send-b->a,rates=1/1
crate::verif_proof! { unwind = 4;
#[kani::stub(std::collections::VecDeque::remove, crate::verif_common::vecdeque_remove_stub)]
#[kani::stub(std::collections::VecDeque::swap_remove_back, crate::verif_common::vecdeque_swap_remove_back_stub)]
#[kani::stub(std::collections::VecDeque::swap_remove_front, crate::verif_common::vecdeque_swap_remove_front_stub)]
fn c03_full_partition_drops_reverse_traffic_too() {
    let (changed, queued, matured) = send_step(State::ExplicitPartition, State::ExplicitPartition, false, 1.0, 1.0);
    assert!(!changed && !queued && !matured);
    kani::cover!(!queued, "dropped");
}
}
// @verif id=C03 tier=thorough role=send_step timeout=900 desc=(Healthy,Explicit),send-a->b,rates=1/1(random-failure-of-the-healthy-direction)
crate::verif_proof! { unwind = 4;
#[kani::stub(std::collections::VecDeque::remove, crate::verif_common::vecdeque_remove_stub)]
#[kani::stub(std::collections::VecDeque::swap_remove_back, crate::verif_common::vecdeque_swap_remove_back_stub)]
#[kani::stub(std::collections::VecDeque::swap_remove_front, crate::verif_common::vecdeque_swap_remove_front_stub)]
fn c03_random_failure_next_to_an_explicit_partition() {
    let (changed, _queued, _matured) = send_step(State::Healthy, State::ExplicitPartition, true, 1.0, 1.0);
    kani::cover!(changed, "the healthy direction failed at random, the explicit one stayed explicit");
}
}

// (not shipped: a `deliver_step` through `Link::deliver_messages` with a real `Host` refusing a TCP
// segment - the refusal RST must not cross an explicitly partitioned direction - had no verdict in
// 15 min, with symbolic or concrete addresses: `drain(..).collect()` of envelopes plus the reply's
// enqueue make the in-flight deque's head symbolic and `make_contiguous` rotates it)
// ---------------------------------------------------------------------------------------------------
// C03-S2: imposing a partition drops exactly the in-flight messages of the affected direction(s);
// C03-S3: explicit repair restores exactly the named direction(s).
// Queue: two in-flight messages with symbolic directions. Operation: symbolic choice of
// partition / partition_oneway(a,b) / partition_oneway(b,a) / repair / repair_oneway(a,b) / (b,a).
fn partition_op(op: u8, dirs: Option<(bool, bool)>) -> (bool, bool, bool) {
    partition_op_h(op, dirs, false)
}
/// `held`: the link is held (both directions `State::Hold`) and the queued messages are parked
/// (`DeliveryStatus::Hold`) - what `hold(a, b)` followed by two sends leaves behind.
fn partition_op_h(op: u8, dirs: Option<(bool, bool)>, held: bool) -> (bool, bool, bool) {
    let now = instant(1000, 0);
    let mut link = Link::new(now);
    if held {
        link.state_a_b = State::Hold;
        link.state_b_a = State::Hold;
    } else {
        link.state_a_b = any_state();
        link.state_b_a = any_state();
        kani::assume(!matches!(link.state_a_b, State::Hold) && !matches!(link.state_b_a, State::Hold));
    }
    let (pre_ab, pre_ba) = (link.state_a_b, link.state_b_a);
    // `retain` with a symbolic keep/drop pattern compacts the queue with byte-wise swaps (8 M SAT
    // variables, out of memory): the one-way instances fix the directions of the two queued messages
    let (d0, d1): (bool, bool) = match dirs {
        Some(d) => d,
        None => (kani::any(), kani::any()),
    };
    if held {
        push_sent(&mut link, 1, d0, DeliveryStatus::Hold);
        push_sent(&mut link, 2, d1, DeliveryStatus::Hold);
    } else {
        push_sent(&mut link, 1, d0, DeliveryStatus::DeliverAfter(now + Duration::from_millis(5)));
        push_sent(&mut link, 2, d1, DeliveryStatus::DeliverAfter(now + Duration::from_millis(6)));
    }
    match op {
        0 => link.explicit_partition(),
        1 => link.partition_oneway(IP_A, IP_B),
        2 => link.partition_oneway(IP_B, IP_A),
        3 => link.explicit_repair(),
        4 => link.repair_oneway(IP_A, IP_B),
        _ => link.repair_oneway(IP_B, IP_A),
    }
    let drop_ab = op == 0 || op == 1;
    let drop_ba = op == 0 || op == 2;
    let keep0 = !(if d0 { drop_ab } else { drop_ba });
    let keep1 = !(if d1 { drop_ab } else { drop_ba });
    assert!(link.sent.len() == keep0 as usize + keep1 as usize, "exactly the messages of the partitioned direction(s) are dropped");
    if keep0 {
        assert!(id_of(&link.sent[0]) == 1);
    }
    if keep1 {
        assert!(id_of(&link.sent[link.sent.len() - 1]) == 2);
    }
    // direction states
    match op {
        0 => assert!(is_explicit(link.state_a_b) && is_explicit(link.state_b_a)),
        1 => assert!(is_explicit(link.state_a_b) && is_explicit(link.state_b_a) == is_explicit(pre_ba) && is_healthy(link.state_b_a) == is_healthy(pre_ba)),
        2 => assert!(is_explicit(link.state_b_a) && is_explicit(link.state_a_b) == is_explicit(pre_ab) && is_healthy(link.state_a_b) == is_healthy(pre_ab)),
        3 => assert!(is_healthy(link.state_a_b) && is_healthy(link.state_b_a)),
        4 => assert!(is_healthy(link.state_a_b) && is_explicit(link.state_b_a) == is_explicit(pre_ba)),
        _ => assert!(is_healthy(link.state_b_a) && is_explicit(link.state_a_b) == is_explicit(pre_ab)),
    }
    std::mem::forget(link);
    (d0, d1, is_explicit(pre_ab))
}
// @verif id=C03 tier=quick role=partition_ops timeout=900 desc=partition_oneway(a,b)
crate::verif_proof! { unwind = 5;
fn c03_partition_oneway_drops_inflight_of_that_direction() {
    let (d0, d1, _) = partition_op(1, Some((true, false)));
    kani::cover!(d0 && !d1, "one-way partition drops one of two in-flight messages");
}
}
// @verif id=C03 tier=quick role=partition_ops timeout=900 desc=partition
crate::verif_proof! { unwind = 5;
fn c03_partition_drops_all_inflight() {
    let (d0, d1, _) = partition_op(0, None);
    kani::cover!(d0 != d1, "messages in both directions dropped");
}
}
// a message that is parked on a HELD link when the partition is imposed is in flight too: it is
// dropped, not kept for a later release (seed C12-6)
// @verif id=C03,C08,C12 tier=quick role=partition_ops timeout=900 desc=partition-of-a-held-link
crate::verif_proof! { unwind = 5;
fn c03_partition_drops_messages_parked_on_a_held_link() {
    let (d0, d1, _) = partition_op_h(0, None, true);
    kani::cover!(d0 != d1, "held messages in both directions dropped");
}
}
// @verif id=C03 tier=quick role=partition_ops timeout=900 desc=repair_oneway(b,a)
crate::verif_proof! { unwind = 5;
fn c03_repair_oneway_leaves_other_direction() {
    let (_, _, ex_ab) = partition_op(5, None);
    kani::cover!(ex_ab, "repairing b->a leaves a->b partitioned");
}
}
// @verif id=C03 tier=quick role=partition_ops timeout=900 desc=partition_oneway(b,a)
crate::verif_proof! { unwind = 5;
fn c03_partition_oneway_reverse() {
    let (d0, d1, _) = partition_op(2, Some((false, true)));
    kani::cover!(!d0 && d1, "b->a message kept out");
}
}
// @verif id=C03 tier=thorough role=partition_ops timeout=900 desc=repair
crate::verif_proof! { unwind = 5;
fn c03_repair_restores_both() {
    let (_, _, ex_ab) = partition_op(3, None);
    kani::cover!(ex_ab, "explicit partition repaired");
}
}
// @verif id=C03 tier=thorough role=partition_ops timeout=900 desc=repair_oneway(a,b)
crate::verif_proof! { unwind = 5;
fn c03_repair_oneway_ab() {
    let (_, _, ex_ab) = partition_op(4, None);
    kani::cover!(ex_ab, "a->b repaired");
}
}

// ---------------------------------------------------------------------------------------------------
// C08: hold / release / tick on a queue of three in-flight messages (symbolic directions, symbolic
// deliver-after instants around `now`).
//  S1  hold marks the link and every queued message held; a later tick moves nothing.
//  S2  release + tick moves exactly the held messages, each once, in queue order per destination,
//      and leaves messages that are not yet due queued; the id multiset is preserved throughout.
fn hold_release<const N: usize>(dir: [bool; N], due_now: [bool; N], do_hold: bool, do_release: bool) -> (usize, usize) {
    let now = instant(1000, 0);
    let mut link = Link::new(now);
    // directions are concrete per instance (a symbolic destination makes the per-destination queue
    // lookup a symbolic table index); the deliver-after instants are symbolic
    // which messages are due at the tick (now + 2 ms) is concrete per instance: a symbolic due-ness
    // makes the removal index symbolic; the exact deliver-after instants stay symbolic inside their
    // class (due: <= 2 ms, not due: 2 ms + 1 ns ..= 4 ms)
    let mut due_ms = [0u8; N];
    let mut i = 0;
    while i < N {
        // without a hold the deliver-after instants are the boundary values of their class (exactly
        // at the tick instant / one nanosecond after it): a symbolic instant makes the removal index
        // symbolic (out of memory); under a hold they are irrelevant and stay symbolic
        let nanos: u32 = if do_hold {
            let n: u32 = kani::any();
            kani::assume(n <= 4_000_000);
            n
        } else if due_now[i] {
            2_000_000
        } else {
            2_000_001
        };
        due_ms[i] = if due_now[i] { 0 } else { 4 };
        push_sent(&mut link, i as u16 + 1, dir[i], DeliveryStatus::DeliverAfter(now + Duration::new(0, nanos)));
        i += 1;
    }
    if do_hold {
        link.hold();
        assert!(matches!(link.state_a_b, State::Hold) && matches!(link.state_b_a, State::Hold));
        let mut j = 0;
        while j < N {
            assert!(matches!(link.sent[j].status, DeliveryStatus::Hold) && id_of(&link.sent[j]) == j as u16 + 1);
            j += 1;
        }
    }
    let later = now + Duration::new(0, 2_000_000);
    if do_hold && !do_release {
        link.tick(later);
        assert!(link.sent.len() == N, "held messages are not delivered while the hold lasts");
        assert!(link.deliverable.values().map(|q| q.len()).sum::<usize>() == 0);
        std::mem::forget(link);
        return (N, 0);
    }
    if do_release {
        link.release();
        assert!(is_healthy(link.state_a_b) && is_healthy(link.state_b_a));
    }
    link.tick(later);
    // expected: held (if any) -> all due at release time `now` <= later; otherwise due iff due_ms <= 2
    let mut exp_to_b = [0u16; N];
    let mut nb = 0;
    let mut exp_to_a = [0u16; N];
    let mut na = 0;
    let mut exp_left = 0;
    let mut k = 0;
    while k < N {
        let due = do_hold || due_ms[k] <= 2;
        if due {
            if dir[k] {
                exp_to_b[nb] = k as u16 + 1;
                nb += 1;
            } else {
                exp_to_a[na] = k as u16 + 1;
                na += 1;
            }
        } else {
            exp_left += 1;
        }
        k += 1;
    }
    assert!(link.sent.len() == exp_left, "messages that are not due stay queued");
    let qb = link.deliverable.get(&IP_B).map(|q| q.len()).unwrap_or(0);
    let qa = link.deliverable.get(&IP_A).map(|q| q.len()).unwrap_or(0);
    assert!(qb == nb && qa == na, "each due message is handed over exactly once");
    let mut m = 0;
    while m < nb {
        assert!(link.deliverable.get(&IP_B).unwrap()[m].src.port() == exp_to_b[m], "per-direction order is the send order");
        m += 1;
    }
    m = 0;
    while m < na {
        assert!(link.deliverable.get(&IP_A).unwrap()[m].src.port() == exp_to_a[m]);
        m += 1;
    }
    std::mem::forget(link);
    (exp_left, nb + na)
}
// @verif id=C08 tier=quick role=hold_blocks timeout=900
crate::verif_proof! { unwind = 5;
#[kani::stub(std::collections::VecDeque::remove, crate::verif_common::vecdeque_remove_stub)]
#[kani::stub(std::collections::VecDeque::swap_remove_back, crate::verif_common::vecdeque_swap_remove_back_stub)]
#[kani::stub(std::collections::VecDeque::swap_remove_front, crate::verif_common::vecdeque_swap_remove_front_stub)]
fn c08_hold_then_tick_delivers_nothing() {
    let (left, moved) = hold_release::<3>([true, false, true], [true, false, true], true, false);
    kani::cover!(left == 3 && moved == 0, "all three stay held");
}
}
// @verif id=C08 tier=quick role=release_delivers timeout=900
crate::verif_proof! { unwind = 5;
#[kani::stub(std::collections::VecDeque::remove, crate::verif_common::vecdeque_remove_stub)]
#[kani::stub(std::collections::VecDeque::swap_remove_back, crate::verif_common::vecdeque_swap_remove_back_stub)]
#[kani::stub(std::collections::VecDeque::swap_remove_front, crate::verif_common::vecdeque_swap_remove_front_stub)]
fn c08_hold_release_tick_delivers_all_in_order() {
    let (left, moved) = hold_release::<2>([true, true], [false, true], true, true);
    assert!(left == 0 && moved == 2);
    kani::cover!(moved == 2, "both released, in send order");
}
}
// @verif id=C08,C14 tier=quick role=tick_matures_due timeout=900
crate::verif_proof! { unwind = 5;
#[kani::stub(std::collections::VecDeque::remove, crate::verif_common::vecdeque_remove_stub)]
#[kani::stub(std::collections::VecDeque::swap_remove_back, crate::verif_common::vecdeque_swap_remove_back_stub)]
#[kani::stub(std::collections::VecDeque::swap_remove_front, crate::verif_common::vecdeque_swap_remove_front_stub)]
fn c14_tick_matures_exactly_the_due_messages_in_order() {
    let (left, moved) = hold_release::<2>([true, true], [true, true], false, false);
    assert!(left == 0 && moved == 2);
    kani::cover!(moved == 2, "both due: delivered in send order");
}
}
// @verif id=C08,C14 tier=quick role=tick_matures_due timeout=900 desc=second-message-overtakes(first-not-due)
crate::verif_proof! { unwind = 5;
#[kani::stub(std::collections::VecDeque::remove, crate::verif_common::vecdeque_remove_stub)]
#[kani::stub(std::collections::VecDeque::swap_remove_back, crate::verif_common::vecdeque_swap_remove_back_stub)]
#[kani::stub(std::collections::VecDeque::swap_remove_front, crate::verif_common::vecdeque_swap_remove_front_stub)]
fn c14_tick_leaves_undue_message_queued() {
    let (left, moved) = hold_release::<2>([true, true], [false, true], false, false);
    assert!(left == 1 && moved == 1);
    kani::cover!(moved == 1, "later message with shorter latency overtakes");
}
}
// @verif id=C08 tier=quick role=release_delivers timeout=900 desc=three-held-messages-one-direction
crate::verif_proof! { unwind = 6;
#[kani::stub(std::collections::VecDeque::remove, crate::verif_common::vecdeque_remove_stub)]
#[kani::stub(std::collections::VecDeque::swap_remove_back, crate::verif_common::vecdeque_swap_remove_back_stub)]
#[kani::stub(std::collections::VecDeque::swap_remove_front, crate::verif_common::vecdeque_swap_remove_front_stub)]
fn c08_release_three_held_messages_in_send_order() {
    let (left, moved) = hold_release::<3>([true, true, true], [true, false, true], true, true);
    assert!(left == 0 && moved == 3);
    kani::cover!(moved == 3, "three released in send order");
}
}
// @verif id=C08,C14 tier=thorough role=tick_matures_due timeout=900 desc=three-messages,two-directions
crate::verif_proof! { unwind = 6;
#[kani::stub(std::collections::VecDeque::remove, crate::verif_common::vecdeque_remove_stub)]
#[kani::stub(std::collections::VecDeque::swap_remove_back, crate::verif_common::vecdeque_swap_remove_back_stub)]
#[kani::stub(std::collections::VecDeque::swap_remove_front, crate::verif_common::vecdeque_swap_remove_front_stub)]
fn c14_tick_three_messages_two_directions() {
    let (left, moved) = hold_release::<3>([true, false, true], [true, true, false], false, false);
    assert!(left == 1 && moved == 2);
    kani::cover!(moved == 2, "one per direction");
}
}

// @verif id=C08 tier=thorough role=release_delivers timeout=900 desc=three-held-messages-two-directions
crate::verif_proof! { unwind = 6;
#[kani::stub(std::collections::VecDeque::remove, crate::verif_common::vecdeque_remove_stub)]
#[kani::stub(std::collections::VecDeque::swap_remove_back, crate::verif_common::vecdeque_swap_remove_back_stub)]
#[kani::stub(std::collections::VecDeque::swap_remove_front, crate::verif_common::vecdeque_swap_remove_front_stub)]
fn c08_release_three_held_messages_two_directions() {
    let (left, moved) = hold_release::<3>([true, false, true], [false, true, false], true, true);
    assert!(left == 0 && moved == 3);
    kani::cover!(moved == 3, "all released, each direction in its own send order");
}
}
// @verif id=C08 tier=thorough role=hold_blocks timeout=900 desc=two-held-messages-reverse-direction
crate::verif_proof! { unwind = 5;
#[kani::stub(std::collections::VecDeque::remove, crate::verif_common::vecdeque_remove_stub)]
#[kani::stub(std::collections::VecDeque::swap_remove_back, crate::verif_common::vecdeque_swap_remove_back_stub)]
#[kani::stub(std::collections::VecDeque::swap_remove_front, crate::verif_common::vecdeque_swap_remove_front_stub)]
fn c08_hold_blocks_the_reverse_direction_too() {
    let (left, moved) = hold_release::<2>([false, false], [true, true], true, false);
    assert!(left == 2 && moved == 0);
    kani::cover!(left == 2, "both stay held");
}
}

// C08-S3: the links iterator shows exactly the in-flight messages in order; SentRef::deliver
// schedules exactly that one message for the next tick.
// @verif id=C08 tier=quick role=manual_delivery timeout=900
crate::verif_proof! { unwind = 5;
#[kani::stub(std::collections::VecDeque::remove, crate::verif_common::vecdeque_remove_stub)]
#[kani::stub(std::collections::VecDeque::swap_remove_back, crate::verif_common::vecdeque_swap_remove_back_stub)]
#[kani::stub(std::collections::VecDeque::swap_remove_front, crate::verif_common::vecdeque_swap_remove_front_stub)]
fn c08_sentref_deliver_schedules_exactly_one() {
    sentref_deliver(1, [true, false, true]);
}
}
// @verif id=C08 tier=thorough role=manual_delivery timeout=900 desc=pick-last
crate::verif_proof! { unwind = 5;
#[kani::stub(std::collections::VecDeque::remove, crate::verif_common::vecdeque_remove_stub)]
#[kani::stub(std::collections::VecDeque::swap_remove_back, crate::verif_common::vecdeque_swap_remove_back_stub)]
#[kani::stub(std::collections::VecDeque::swap_remove_front, crate::verif_common::vecdeque_swap_remove_front_stub)]
fn c08_sentref_deliver_last() {
    sentref_deliver(2, [true, true, false]);
}
}
fn sentref_deliver(pick: usize, dir: [bool; 3]) {
    let now = instant(1000, 0);
    let mut link = Link::new(now);
    let mut i = 0;
    while i < 3 {
        push_sent(&mut link, i as u16 + 1, dir[i], DeliveryStatus::DeliverAfter(now));
        i += 1;
    }
    link.hold();
    {
        let it = LinkIter { a: IP_A, b: IP_B, now: link.now, iter: link.sent.iter_mut() };
        assert!(it.pair() == (IP_A, IP_B));
        let mut n = 0;
        for s in it {
            let (src, dst) = s.pair();
            assert!(src.port() == n as u16 + 1 && dst.port() == 9, "iterator shows the in-flight messages in order");
            assert!((src.ip() == IP_A) == dir[n]);
            if n == pick {
                s.deliver();
            }
            n += 1;
        }
        assert!(n == 3);
    }
    link.tick(now + Duration::from_millis(1));
    assert!(link.sent.len() == 2, "exactly one message left the held queue");
    let total: usize = link.deliverable.values().map(|q| q.len()).sum();
    assert!(total == 1);
    let dst_ip = if dir[pick] { IP_B } else { IP_A };
    assert!(link.deliverable.get(&dst_ip).unwrap()[0].src.port() == pick as u16 + 1, "the chosen message, to its destination");
    let mut j = 0;
    while j < 2 {
        assert!(matches!(link.sent[j].status, DeliveryStatus::Hold));
        j += 1;
    }
    kani::cover!(total == 1, "one message delivered manually");
    std::mem::forget(link);
}

// ---------------------------------------------------------------------------------------------------
// C14-S1: the sampled latency is clamped into [min, max] for EVERY sample the distribution can
// produce (the rand_distr model returns an arbitrary non-negative finite f64 derived from one
// symbolic rng word) and every min <= max (whole milliseconds below 2^32 ms); a per-link latency
// setting takes precedence over the global one.
// @verif id=C14 tier=quick role=latency_clamp timeout=1200 mem=16
crate::verif_proof! { unwind = 4;
fn c14_sampled_latency_is_clamped_into_window() {
    let min_ms: u32 = kani::any();
    let max_ms: u32 = kani::any();
    kani::assume(min_ms <= max_ms);
    let lat = config::Latency {
        min_message_latency: Duration::new((min_ms / 1000) as u64, (min_ms % 1000) * 1_000_000),
        max_message_latency: Duration::new((max_ms / 1000) as u64, (max_ms % 1000) * 1_000_000),
        latency_distribution: Exp::new(5.0).unwrap(),
    };
    let other = config::Latency {
        min_message_latency: Duration::from_secs(7000),
        max_message_latency: Duration::from_secs(9000),
        latency_distribution: Exp::new(5.0).unwrap(),
    };
    let mut link = Link::new(instant(1000, 0));
    let per_link: bool = kani::any();
    let (mn, mx) = (lat.min_message_latency, lat.max_message_latency);
    let global = if per_link {
        link.config.latency = Some(lat);
        other
    } else {
        lat
    };
    let mut rng = SymRng;
    let d = link.delay(&global, &mut rng);
    assert!(d >= mn && d <= mx, "latency lies inside the configured window (per-link setting wins)");
    kani::cover!(per_link && d == mx && mn < mx, "clamped to the per-link maximum");
    kani::cover!(d > mn && d < mx, "strictly inside the window");
    std::mem::forget(link);
}
}

// ---------------------------------------------------------------------------------------------------
// C14 "a per-link latency setting takes precedence over the global one from the moment it is made":
// the per-link configuration slot of a real Link, driven the way `Topology::set_link_message_latency`
// and `set_link_max_message_latency` drive it (those are two-line wrappers around `Link::latency`;
// building a `Topology` itself trips a CBMC deallocation check inside the runtime it owns, which does
// not reproduce natively). A fixed per-link latency v, then a per-link maximum w >= v: the link's own
// minimum survives the later call (v), its maximum is w, changing the GLOBAL window afterwards touches
// neither, and a delay sampled on that link lies inside [v, w] whatever the global window is.
// @verif id=C14 tier=quick role=per_link_latency timeout=900 mem=12
crate::verif_proof! { unwind = 5;
fn c14_per_link_latency_settings_accumulate_and_take_precedence() {
    let g_min: u16 = kani::any();
    let g_max: u16 = kani::any();
    kani::assume(g_min <= g_max);
    let mut global = config::Latency {
        min_message_latency: Duration::from_millis(g_min as u64),
        max_message_latency: Duration::from_millis(g_max as u64),
        latency_distribution: Exp::new(5.0).unwrap(),
    };
    let mut link = Link::new(instant(1000, 0));
    let v: u16 = kani::any();
    let w: u16 = kani::any();
    kani::assume(v <= w);
    {
        // set_link_message_latency(a, b, v)
        let l = link.latency(&global);
        l.min_message_latency = Duration::from_millis(v as u64);
        l.max_message_latency = Duration::from_millis(v as u64);
    }
    {
        let l = link.config.latency.as_ref().unwrap();
        assert!(l.min_message_latency == Duration::from_millis(v as u64) && l.max_message_latency == Duration::from_millis(v as u64));
    }
    // set_link_max_message_latency(a, b, w)
    link.latency(&global).max_message_latency = Duration::from_millis(w as u64);
    // set_max_message_latency(g2): the global window changes afterwards
    let g2: u16 = kani::any();
    global.max_message_latency = Duration::from_millis(g2 as u64);
    let l = link.config.latency.as_ref().unwrap();
    assert!(l.min_message_latency == Duration::from_millis(v as u64), "an earlier per-link setting survives a later per-link call");
    assert!(l.max_message_latency == Duration::from_millis(w as u64), "the per-link maximum is the one that was set, not the global one");
    let mut rng = CoinRng;
    let d = link.delay(&global, &mut rng);
    assert!(d >= Duration::from_millis(v as u64) && d <= Duration::from_millis(w as u64), "delays on the link come from the link's own window");
    kani::cover!(v < w && g_max < v, "per-link window above the global one");
    kani::cover!(w < g_min, "per-link window below the global one");
    std::mem::forget(link);
}
}
