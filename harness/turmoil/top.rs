//! Kani harnesses for crates/turmoil/src/top.rs (child module: sees Link, State, Sent, DeliveryStatus).
use super::*;
use crate::envelope::Datagram;
use bytes::Bytes;
use std::net::{Ipv4Addr, SocketAddr};

pub(crate) const IP_A: IpAddr = IpAddr::V4(Ipv4Addr::new(192, 168, 0, 1));
pub(crate) const IP_B: IpAddr = IpAddr::V4(Ipv4Addr::new(192, 168, 0, 2));

/// Every word of the world rng is an arbitrary value: "for every seed" is literal.
pub(crate) struct SymRng;
impl RngCore for SymRng {
    fn next_u32(&mut self) -> u32 {
        kani::any()
    }
    fn next_u64(&mut self) -> u64 {
        kani::any()
    }
    fn fill_bytes(&mut self, d: &mut [u8]) {
        for b in d {
            *b = kani::any();
        }
    }
}

/// tokio Instant at `secs` (+nanos) on an arbitrary timeline: built from the (secs, nanos) layout of
/// std::time::Instant on Linux; no clock is read.
pub(crate) fn instant(secs: i64, nanos: u32) -> Instant {
    #[repr(C)]
    struct Raw {
        s: i64,
        n: u32,
    }
    let std_i: std::time::Instant = unsafe { std::mem::transmute(Raw { s: secs, n: nanos }) };
    Instant::from_std(std_i)
}

pub(crate) fn any_state() -> State {
    match kani::any::<u8>() & 3 {
        0 => State::Healthy,
        1 => State::ExplicitPartition,
        2 => State::RandPartition,
        _ => State::Hold,
    }
}
pub(crate) fn is_explicit(s: State) -> bool {
    matches!(s, State::ExplicitPartition)
}
pub(crate) fn is_healthy(s: State) -> bool {
    matches!(s, State::Healthy)
}

fn loss_cfg(fail_rate: f64, repair_rate: f64) -> config::Link {
    config::Link {
        latency: Some(config::Latency {
            min_message_latency: Duration::from_millis(0),
            max_message_latency: Duration::from_millis(100),
            latency_distribution: Exp::new(5.0).unwrap(),
        }),
        message_loss: Some(config::MessageLoss { fail_rate, repair_rate }),
    }
}

// ---------------------------------------------------------------------------------------------------
// C03-S1: the random partition / repair process must leave an explicitly partitioned direction alone.
// Pre-state: both direction states symbolic (all 16 combinations, restricted to the alphabet of the
// property: no Hold), empty queues. Operation: the coin-flip step that runs before every send, with
// symbolic coins. Obligation: a direction that was ExplicitPartition still is.
fn rand_step(fail_rate: f64, repair_rate: f64) -> (bool, bool) {
    let mut link = Link::new(instant(1000, 0));
    link.state_a_b = any_state();
    link.state_b_a = any_state();
    kani::assume(!matches!(link.state_a_b, State::Hold) && !matches!(link.state_b_a, State::Hold));
    let pre_ab = link.state_a_b;
    let pre_ba = link.state_b_a;
    let cfg = loss_cfg(fail_rate, repair_rate);
    let mut rng = SymRng;
    link.rand_partition_or_repair(&cfg, &mut rng);
    if is_explicit(pre_ab) {
        assert!(is_explicit(link.state_a_b), "explicit a->b partition overwritten by the random fail/repair process");
    }
    if is_explicit(pre_ba) {
        assert!(is_explicit(link.state_b_a), "explicit b->a partition overwritten by the random fail/repair process");
    }
    let changed = !(is_healthy(pre_ab) == is_healthy(link.state_a_b) && is_healthy(pre_ba) == is_healthy(link.state_b_a));
    let one_way = is_explicit(pre_ab) != is_explicit(pre_ba);
    std::mem::forget(link);
    (changed, one_way)
}

// @verif id=C03 tier=quick role=rand_process_keeps_explicit derived=0 witness=c03_oneway_partition_survives_random_failures timeout=900 desc=fail_rate=1,repair_rate=1
#[kani::proof]
#[kani::unwind(4)]
fn c03_rand_process_keeps_explicit_partition_rates_1_1() {
    let (changed, one_way) = rand_step(1.0, 1.0);
    kani::cover!(changed, "random process changed a direction");
    kani::cover!(one_way, "one-way explicit partition");
}
// @verif id=C03 tier=quick role=rand_process_keeps_explicit witness=c03_oneway_partition_survives_random_failures timeout=900 desc=fail_rate=0.5,repair_rate=0.5
#[kani::proof]
#[kani::unwind(4)]
fn c03_rand_process_keeps_explicit_partition_rates_half() {
    let (changed, one_way) = rand_step(0.5, 0.5);
    kani::cover!(changed, "random process changed a direction");
    kani::cover!(one_way, "one-way explicit partition");
}
// @verif id=C03 tier=quick role=rand_process_off timeout=900 desc=fail_rate=0
#[kani::proof]
#[kani::unwind(4)]
fn c03_rand_process_off_changes_nothing_healthy() {
    let mut link = Link::new(instant(1000, 0));
    link.state_a_b = if kani::any() { State::Healthy } else { State::ExplicitPartition };
    link.state_b_a = if kani::any() { State::Healthy } else { State::ExplicitPartition };
    let (a, b) = (link.state_a_b, link.state_b_a);
    let cfg = loss_cfg(0.0, kani::any::<bool>() as u8 as f64);
    let mut rng = SymRng;
    link.rand_partition_or_repair(&cfg, &mut rng);
    assert!(is_healthy(a) == is_healthy(link.state_a_b) && is_explicit(a) == is_explicit(link.state_a_b));
    assert!(is_healthy(b) == is_healthy(link.state_b_a) && is_explicit(b) == is_explicit(link.state_b_a));
    kani::cover!(is_healthy(a) && is_explicit(b), "one-way partition untouched");
    std::mem::forget(link);
}
