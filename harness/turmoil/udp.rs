//! Kani harnesses for crates/turmoil/src/net/udp.rs (MulticastGroups).
use super::*;

const G1: IpAddr = IpAddr::V4(Ipv4Addr::new(239, 0, 0, 1));
const G2: IpAddr = IpAddr::V4(Ipv4Addr::new(239, 0, 0, 2));
const M1: SocketAddr = SocketAddr::new(IpAddr::V4(Ipv4Addr::new(192, 168, 0, 1)), 7000);
const M2: SocketAddr = SocketAddr::new(IpAddr::V4(Ipv4Addr::new(192, 168, 0, 2)), 7000);

fn apply(g: &mut MulticastGroups, model: &mut [[bool; 2]; 2], op: u8, grp: bool, mem: bool) {
    let group = if grp { G2 } else { G1 };
    let member = if mem { M2 } else { M1 };
    match op {
        0 => {
            g.join(group, member);
            model[grp as usize][mem as usize] = true;
        }
        1 => {
            g.leave(group, member);
            model[grp as usize][mem as usize] = false;
        }
        _ => {
            g.leave_all(member);
            model[0][mem as usize] = false;
            model[1][mem as usize] = false;
        }
    }
}

/// Two membership operations (join / leave / leave_all over 2 groups x 2 members) against a bitset
/// reference: a group's destination list is exactly its current members, without duplicates;
/// non-members never receive; empty groups disappear. The operation kinds are concrete per instance,
/// their group/member arguments symbolic.
fn membership(op0: u8, op1: u8) -> [[bool; 2]; 2] {
    let mut g = MulticastGroups::default();
    let mut model = [[false; 2]; 2];
    // first operation on (G1, M2) concretely, second operation with symbolic group and member
    let grp: [bool; 2] = [false, kani::any()];
    let mem: [bool; 2] = [true, kani::any()];
    // start from "M1 joined G1"
    g.join(G1, M1);
    model[0][0] = true;
    apply(&mut g, &mut model, op0, grp[0], mem[0]);
    apply(&mut g, &mut model, op1, grp[1], mem[1]);
    let mut gi = 0;
    while gi < 2 {
        let group = if gi == 1 { G2 } else { G1 };
        let dests = g.destination_addresses(SocketAddr::new(group, 7000));
        let expect = model[gi][0] as usize + model[gi][1] as usize;
        assert!(dests.len() == expect, "exactly the current members, no duplicates");
        assert!(dests.contains(&M1) == model[gi][0] && dests.contains(&M2) == model[gi][1]);
        assert!(g.contains_destination_address(group, M1) == model[gi][0]);
        assert!(g.contains_destination_address(group, M2) == model[gi][1]);
        std::mem::forget(dests);
        gi += 1;
    }
    let nonempty = (model[0][0] || model[0][1]) as usize + (model[1][0] || model[1][1]) as usize;
    assert!(g.0.len() == nonempty, "empty groups disappear");
    std::mem::forget(g);
    model
}
// (not shipped: symbolic group/member keys exceed 8 GB, re-measured after the entry-API redesign) C09 tier=thorough role=multicast_membership timeout=900 desc=join,leave
crate::verif_proof! { unwind = 6;
fn c09_multicast_join_then_leave() {
    let m = membership(0, 1);
    kani::cover!(!m[0][0] && !m[0][1] && !m[1][0] && !m[1][1], "everyone left");
    kani::cover!(m[0][0] && m[0][1], "two members in one group");
}
}
// (not shipped: symbolic group/member keys exceed 8 GB, re-measured after the entry-API redesign) C09 tier=thorough role=multicast_membership timeout=900 desc=join,leave_all
crate::verif_proof! { unwind = 6;
fn c09_multicast_join_then_leave_all() {
    let m = membership(0, 2);
    kani::cover!(!m[0][0] && m[0][1], "leave_all removed one member, the other stays");
}
}
// (not shipped: symbolic group/member keys exceed 8 GB, re-measured after the entry-API redesign) C09 tier=thorough role=multicast_membership timeout=900 desc=join,join
crate::verif_proof! { unwind = 6;
fn c09_multicast_join_join() {
    let m = membership(0, 0);
    kani::cover!(m[0][0] && m[1][1], "members in two groups");
}
}
// (not shipped: symbolic group/member keys exceed 8 GB, re-measured after the entry-API redesign) C09 tier=thorough role=multicast_membership timeout=900 desc=leave,join
crate::verif_proof! { unwind = 6;
fn c09_multicast_leave_then_join() {
    let m = membership(1, 0);
    kani::cover!(!m[0][0] && m[1][0], "left one group, joined another");
}
}

// C09 "carries the sender's payload unaltered, cut only to the receive buffer length":
// `UdpSocket::try_recv_from` (and `Rx::try_recv_from` with a datagram parked by `readable`) on a
// 3-byte datagram with symbolic contents and symbolic origin; the receive buffer length is concrete
// per instance. The call returns min(3, B) bytes, those bytes are the datagram's prefix, the rest of
// the buffer is untouched, the origin is the sender, the datagram is consumed exactly once and the
// next datagram is not disturbed.
fn truncation<const B: usize>(parked: bool) -> usize {
    let (tx, rx) = mpsc::channel::<(Datagram, SocketAddr)>(2);
    let payload: [u8; 3] = kani::any();
    let next: [u8; 1] = kani::any();
    let src = SocketAddr::new(IpAddr::V4(Ipv4Addr::new(kani::any(), kani::any(), kani::any(), kani::any())), kani::any());
    let src2 = SocketAddr::new(IpAddr::V4(Ipv4Addr::new(10, 0, 0, 9)), 99);
    let sock = UdpSocket::new(M1, rx);
    if parked {
        // what `readable()` does: the first datagram is taken out of the channel and parked
        let mut g = match sock.rx.try_lock() {
            Ok(g) => g,
            Err(_) => panic!("uncontended"),
        };
        g.buffer = Some((Datagram(Bytes::copy_from_slice(&payload)), src));
        drop(g);
    } else {
        assert!(tx.try_send((Datagram(Bytes::copy_from_slice(&payload)), src)).is_ok());
    }
    assert!(tx.try_send((Datagram(Bytes::copy_from_slice(&next)), src2)).is_ok());
    let mut buf = [0xAAu8; B];
    let r = sock.try_recv_from(&mut buf);
    let n = match &r {
        Ok((n, from)) => {
            assert!(*from == src, "origin is the sending socket");
            *n
        }
        Err(_) => panic!("a datagram is queued"),
    };
    std::mem::forget(r);
    assert!(n == if B < 3 { B } else { 3 }, "cut only to the receive buffer length");
    let mut i = 0;
    while i < B {
        if i < n {
            assert!(buf[i] == payload[i], "payload unaltered");
        } else {
            assert!(buf[i] == 0xAA, "nothing beyond the datagram is written");
        }
        i += 1;
    }
    // the next datagram is whole and comes next; then the queue is empty (no duplicate of the first)
    let mut b2 = [0u8; 4];
    let r2 = sock.try_recv_from(&mut b2);
    match &r2 {
        Ok((n2, from2)) => assert!(*n2 == 1 && b2[0] == next[0] && *from2 == src2),
        Err(_) => panic!("second datagram must still be there"),
    }
    std::mem::forget(r2);
    let r3 = sock.try_recv_from(&mut b2);
    match &r3 {
        Ok(_) => panic!("each datagram is received at most once"),
        Err(e) => assert!(e.kind() == io::ErrorKind::WouldBlock),
    }
    std::mem::forget(r3);
    std::mem::forget(sock);
    std::mem::forget(tx);
    n
}
// @verif id=C09 tier=quick role=udp_truncation timeout=900 desc=buffer=2<datagram=3
crate::verif_proof! { unwind = 6;
fn c09_udp_recv_cuts_to_buffer_length() {
    let n = truncation::<2>(false);
    kani::cover!(n == 2, "truncated");
}
}
// @verif id=C09 tier=quick role=udp_truncation timeout=900 desc=buffer=4>datagram=3,parked-by-readable
crate::verif_proof! { unwind = 6;
fn c09_udp_recv_after_readable_returns_whole_datagram() {
    let n = truncation::<4>(true);
    kani::cover!(n == 3, "whole datagram");
}
}
// @verif id=C09 tier=thorough role=udp_truncation timeout=900 desc=buffer=0
crate::verif_proof! { unwind = 6;
fn c09_udp_recv_into_empty_buffer_consumes_the_datagram() {
    let n = truncation::<0>(false);
    kani::cover!(n == 0, "nothing copied");
}
}
// @verif id=C09 tier=thorough role=udp_truncation timeout=900 desc=buffer=3==datagram
crate::verif_proof! { unwind = 6;
fn c09_udp_recv_exact_fit() {
    let n = truncation::<3>(true);
    kani::cover!(n == 3, "exact fit");
}
}

// ---------------------------------------------------------------------------------------------------
// C09 "only current members for a multicast group" / C15 "a port becomes available again once its
// socket is dropped", through the REAL `UdpSocket::join_multicast_v4` and `Drop for UdpSocket`
// running inside `World::enter` on a real two-host World (scoped-tls model; no runtime involved):
// a socket bound on the wildcard (or localhost) address that joined a group is a member under its
// HOST address; once it is dropped it is no member of any group any more and its port is free, so a
// socket bound to the same port later does not inherit the membership.
use crate::host::HostTimer;
use rand::RngCore;
use std::cell::RefCell;

struct CoinRng;
impl RngCore for CoinRng {
    fn next_u32(&mut self) -> u32 {
        if kani::any() { 0 } else { u32::MAX }
    }
    fn next_u64(&mut self) -> u64 {
        if kani::any() { 0 } else { u64::MAX }
    }
    fn fill_bytes(&mut self, d: &mut [u8]) {
        for b in d {
            *b = if kani::any() { 0 } else { 255 };
        }
    }
}
const HOST_A: IpAddr = IpAddr::V4(Ipv4Addr::new(192, 168, 0, 1));
const HOST_B: IpAddr = IpAddr::V4(Ipv4Addr::new(192, 168, 0, 2));

fn two_host_world() -> World {
    let cfg = crate::Config {
        duration: std::time::Duration::from_secs(10),
        tick: std::time::Duration::from_millis(1),
        epoch: std::time::SystemTime::UNIX_EPOCH,
        ephemeral_ports: 49152..=49155,
        tcp_capacity: 2,
        udp_capacity: 2,
        enable_tokio_io: false,
        random_node_order: false,
    };
    let link = crate::config::Link {
        latency: Some(crate::config::Latency::default()),
        message_loss: Some(crate::config::MessageLoss::default()),
    };
    let mut w = World::new(link, Box::new(CoinRng), crate::ip::IpVersion::V4.iter(), std::time::Duration::from_millis(1));
    w.register(HOST_A, "a", HostTimer::new(std::time::Duration::ZERO, std::time::Duration::ZERO), &cfg);
    w.register(HOST_B, "b", HostTimer::new(std::time::Duration::ZERO, std::time::Duration::ZERO), &cfg);
    w
}

fn drop_member(localhost_bind: bool, explicit_leave: bool) -> bool {
    let mut world = two_host_world();
    let bind_ip = if localhost_bind { IpAddr::V4(Ipv4Addr::LOCALHOST) } else { IpAddr::V4(Ipv4Addr::UNSPECIFIED) };
    let sock = match world.hosts.get_mut(&HOST_A).unwrap().udp.bind(SocketAddr::new(bind_ip, 9000)) {
        Ok(s) => s,
        Err(_) => panic!("bind"),
    };
    world.current = Some(HOST_A);
    let group = Ipv4Addr::new(239, 1, 2, 3);
    let me = SocketAddr::new(HOST_A, 9000);
    let cell = RefCell::new(world);
    let was_member = World::enter(&cell, || {
        let r = sock.join_multicast_v4(group, Ipv4Addr::UNSPECIFIED);
        assert!(r.is_ok());
        std::mem::forget(r);
        let m = World::current(|w| w.multicast_groups.contains_destination_address(IpAddr::V4(group), me));
        if explicit_leave {
            let r = sock.leave_multicast_v4(group, Ipv4Addr::UNSPECIFIED);
            assert!(r.is_ok());
            std::mem::forget(r);
        }
        drop(sock);
        m
    });
    assert!(was_member, "joined under the host address");
    let world = cell.into_inner();
    assert!(!world.multicast_groups.contains_destination_address(IpAddr::V4(group), me), "a dropped socket is no member any more");
    assert!(world.multicast_groups.destination_addresses(SocketAddr::new(IpAddr::V4(group), 9000)).len() == 0, "nobody is left in the group");
    assert!(!world.hosts.get(&HOST_A).unwrap().udp.is_port_assigned(9000), "its port is free again");
    std::mem::forget(world);
    was_member
}
// (not shipped: OOM at 12 GB / no verdict in 15 min - the group table is an IndexMap of IndexSets keyed by socket addresses) C09,C15 role=udp_drop desc=wildcard-bind,joined,dropped-without-leave
crate::verif_proof! { unwind = 8;
fn c09_dropped_socket_leaves_its_multicast_groups() {
    let m = drop_member(false, false);
    kani::cover!(m, "was a member, then dropped");
}
}
// (not shipped: same) C09,C15 role=udp_drop desc=localhost-bind,joined,left,dropped
crate::verif_proof! { unwind = 8;
fn c09_dropped_socket_after_explicit_leave() {
    let m = drop_member(true, true);
    kani::cover!(m, "joined, left, dropped");
}
}
