#!/usr/bin/env python3
"""Regenerate /verif/MANIFEST.json from lib/property_info.py (claimed checks + not_applicable)."""
import json
import sys
from pathlib import Path

VERIF = Path("/verif")
sys.path.insert(0, str(VERIF / "lib"))
from property_info import CLAIMS, NOT_APPLICABLE  # noqa: E402

props = [json.loads(l)["id"] for l in open(VERIF / "properties.jsonl")]

TRUST = ("Trusted base: Kani 0.68.0 / CBMC 6.11.0 / CaDiCaL; rustc MIR of the overlay build (dev profile, overflow checks on); "
         "dependency models in /verif/models (indexmap: inline-prefix linear map; bytes: value-semantics Vec-backed; tracing: no-op; "
         "rand_distr: arbitrary non-negative finite sample; for turmoil-fs an inline-storage model of std::path::{Path, PathBuf}, "
         "validated against std::path on every normalised path of at most 6 bytes), each validated by running the repository's own "
         "test-suites against it or by a differential test (setup_cmd); Waker wake/clone/drop stubs (wake-ups are not part of any claimed clause); memory-safety and "
         "assertion-reachability instrumentation off (functional claims only; vacuity is guarded by kani::cover! witnesses); "
         "the reference predicates written in the harnesses; the constructed pre-states being a superset of the reachable ones under "
         "the stated representation invariants (re-established by every step harness).")

checks = []
for pid in props:
    if pid not in CLAIMS:
        continue
    c = CLAIMS[pid]
    checks.append({
        "property_id": pid,
        "quick_cmd": "bin/vcheck %s --tier quick" % pid,
        "thorough_cmd": "bin/vcheck %s --tier thorough" % pid,
        "evidence_file": "/verif/evidence/%s.json" % pid,
        "replay_cmd_template": "bin/vreplay %s {path}" % pid,
        "engine": "kani-overlay",
        "level_claimed": {
            "category": "model_checking",
            "text": c["text"],
            "design_ref": c.get("design_ref", "DESIGN.md §3 " + pid),
        },
        "level_note": c["note"] + " " + TRUST,
        "technique": c.get("technique", "bounded model checking of the real Rust code with Kani (CBMC + CaDiCaL): one-step inductive harnesses over symbolic pre-states, solver verdict per harness, concrete-playback replay of counterexamples"),
    })

na = []
for pid in props:
    if pid in CLAIMS:
        continue
    na.append({"property_id": pid, "reason": NOT_APPLICABLE.get(pid, "check not built (see DESIGN.md)")})

m = {
    "version": 1,
    "setup_cmd": "python3 /verif/lib/setup.py",
    "hooks": {
        "guard": "kani",
        "enable": "no source hooks in /repo: bin/vcheck copies the crates into a scratch overlay and appends `#[cfg(kani)] mod verif_harness;` lines there, so harnesses are child modules of the real code (cfg(kani) is set by the Kani compiler only)",
        "baseline_off_cmd": "cd /repo && cargo test --workspace --no-fail-fast --offline",
        "source_commits": [],
        "add_only": True,
    },
    "engines": [{
        "name": "kani-overlay",
        "path": "/verif/bin/vcheck",
        "serves_properties": [c["property_id"] for c in checks],
        "kind_free_text": "Kani 0.68 (CBMC 6.11 + CaDiCaL) proof harnesses attached to an overlay copy of /repo's working tree; inputs, pre-states, sequence numbers, contents and fault decisions are kani::any(); counterexamples are replayed natively with cargo kani playback before VIOLATION is printed",
    }],
    "checks": checks,
    "not_applicable": na,
    "notes": "Exit codes of bin/vcheck: 0 = every harness of the property verified with all cover witnesses satisfied; 1 = VIOLATION (replayed counterexample not listed in known_findings.json); 2 = INCONCLUSIVE (timeout, out of memory, compile error after a refactoring, unwinding assertion, vacuous harness, non-reproducing counterexample) - never reported as pass.",
}
(VERIF / "MANIFEST.json").write_text(json.dumps(m, indent=1) + "\n")
print("claimed:", [c["property_id"] for c in checks])
print("not applicable:", [x["property_id"] for x in na])
