#!/usr/bin/env python3
"""Regenerate the seeded-breakage table of DESIGN.md (between the SEED-TABLE markers) from seeded/*/meta.json."""
import json
import re
from pathlib import Path

VERIF = Path("/verif")


def first_sentence(readme):
    txt = readme.read_text() if readme.exists() else ""
    for ln in txt.splitlines():
        ln = ln.strip().lstrip("#").strip()
        if len(ln) > 30 and not ln.lower().startswith(("run", "command", "```")):
            return re.sub(r"\s+", " ", ln)[:230]
    return ""


def main():
    rows = []
    for d in sorted((VERIF / "seeded").iterdir()):
        mp = d / "meta.json"
        if not mp.exists():
            continue
        m = json.loads(mp.read_text())
        files = sorted(set(re.findall(r"^\+\+\+ b/(\S+)", (d / "patch.diff").read_text(), re.M))) if (d / "patch.diff").exists() else []
        det = m.get("detected_by") or []
        checks = m.get("checks", {})
        which = []
        for c, r in checks.items():
            names = []
            for ln in r.get("lines", []):
                mm = re.search(r"\] (\S+)\s+violation", ln)
                if mm:
                    names.append(mm.group(1))
            verdict = {0: "pass (missed)", 1: "VIOLATION", 2: "inconclusive"}.get(r.get("exit"), str(r.get("exit")))
            which.append("%s: %s%s" % (c, verdict, (" by `" + "`, `".join(names[:3]) + "`") if names else ""))
        earlier = [e for e in m.get("earlier_check_runs", []) if e]
        note = ""
        if earlier and det:
            # a run that could not compile the harness crate (a harness file was being edited) is not a run
            missed_before = [c for e in earlier for c, r in e.items() if r.get("exit") != 1
                             and not any("compile_error" in ln for ln in r.get("lines", []))]
            if missed_before:
                note = " (first run: not detected; check strengthened, see below)"
        rows.append((m["seed"], m.get("property"), ", ".join(f.replace("crates/", "") for f in files), first_sentence(d / "README.md"),
                     "; ".join(which) + note, "yes" if m.get("confirmed") else "NO"))
    out = ["| seed | property | file(s) changed | change | result of the checks | confirmed (suite passes, demo fails) |", "|---|---|---|---|---|---|"]
    for r in rows:
        out.append("| " + " | ".join(x.replace("|", "\\|") for x in r) + " |")
    det = sum(1 for r in rows if "VIOLATION" in r[4])
    out.append("")
    out.append("%d seeds, %d detected by at least one check (exit 1 with a replayed counterexample), %d not detected." % (len(rows), det, len(rows) - det))
    table = "\n".join(out)
    p = VERIF / "DESIGN.md"
    s = p.read_text()
    a = s.index("<!-- SEED-TABLE-BEGIN -->") + len("<!-- SEED-TABLE-BEGIN -->")
    b = s.index("<!-- SEED-TABLE-END -->")
    p.write_text(s[:a] + "\n" + table + "\n" + s[b:])
    print(table)


if __name__ == "__main__":
    main()
