"""Which harness file attaches to which source file of which crate, and per-property static info."""

# key: path under /verif/harness ; anchor: source file (relative to overlay root) that gets the
# `#[cfg(kani)] mod <mod>;` line appended, so the harness is a child module and sees private items.
HARNESS_FILES = {
    "turmoil-net/kernel_socket.rs": {"crate": "turmoil-net", "anchor": "crates/turmoil-net/src/kernel/socket.rs"},
    "turmoil-net/kernel_mod.rs": {"crate": "turmoil-net", "anchor": "crates/turmoil-net/src/kernel/mod.rs"},
    "turmoil-net/kernel_tcp.rs": {"crate": "turmoil-net", "anchor": "crates/turmoil-net/src/kernel/tcp.rs"},
    "turmoil-net/kernel_udp.rs": {"crate": "turmoil-net", "anchor": "crates/turmoil-net/src/kernel/udp.rs"},
    "turmoil-net/lib.rs": {"crate": "turmoil-net", "anchor": "crates/turmoil-net/src/lib.rs"},
    "turmoil-net/fabric.rs": {"crate": "turmoil-net", "anchor": "crates/turmoil-net/src/fabric.rs"},
    "turmoil-net/scheduler.rs": {"crate": "turmoil-net", "anchor": "crates/turmoil-net/src/fixture/scheduler.rs"},
}

PROPERTY_INFO = {}
