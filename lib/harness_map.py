"""Which harness file attaches to which source file of which crate, and per-property static info."""

# key: path under /verif/harness ; anchor: source file (relative to overlay root) that gets the
# `#[cfg(kani)] mod <mod>;` line appended, so the harness is a child module and sees private items.
HARNESS_FILES = {
    "turmoil-net/kernel_socket.rs": {"crate": "turmoil-net", "anchor": "crates/turmoil-net/src/kernel/socket.rs"},
    "turmoil-net/kernel_mod.rs": {"crate": "turmoil-net", "anchor": "crates/turmoil-net/src/kernel/mod.rs"},
    "turmoil-net/kernel_tcp.rs": {"crate": "turmoil-net", "anchor": "crates/turmoil-net/src/kernel/tcp.rs"},
    "turmoil-net/kernel_udp.rs": {"crate": "turmoil-net", "anchor": "crates/turmoil-net/src/kernel/udp.rs"},
    "turmoil-net/lib.rs": {"crate": "turmoil-net", "anchor": "crates/turmoil-net/src/lib.rs"},
    "turmoil-net/fabric.rs": {"crate": "turmoil-net", "anchor": "crates/turmoil-net/src/fabric.rs"},
    "turmoil-net/scheduler.rs": {"crate": "turmoil-net", "anchor": "crates/turmoil-net/src/fixture/scheduler.rs"},
    "turmoil/host.rs": {"crate": "turmoil", "anchor": "crates/turmoil/src/host.rs"},
    "turmoil/sim.rs": {"crate": "turmoil", "anchor": "crates/turmoil/src/sim.rs"},
    "turmoil/top.rs": {"crate": "turmoil", "anchor": "crates/turmoil/src/top.rs"},
    "turmoil/ip.rs": {"crate": "turmoil", "anchor": "crates/turmoil/src/ip.rs"},
    "turmoil/dns.rs": {"crate": "turmoil", "anchor": "crates/turmoil/src/dns.rs"},
    "turmoil/udp.rs": {"crate": "turmoil", "anchor": "crates/turmoil/src/net/udp.rs"},
    "turmoil/stream.rs": {"crate": "turmoil", "anchor": "crates/turmoil/src/net/tcp/stream.rs"},
    "turmoil/barriers.rs": {"crate": "turmoil", "anchor": "crates/turmoil/src/barriers.rs", "features": "unstable-barriers"},
    "turmoil-fs/lib.rs": {"crate": "turmoil-fs", "anchor": "crates/turmoil-fs/src/lib.rs"},
    "turmoil-io-uring/sim.rs": {"crate": "turmoil-io-uring", "anchor": "crates/turmoil-io-uring/src/sim.rs", "features": "fs"},
}

import os, sys
sys.path.insert(0, os.path.dirname(__file__))
from property_info import PROPERTY_INFO  # noqa: E402,F401
