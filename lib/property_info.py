"""Per-property static information: what is claimed (MANIFEST), what is encoded (evidence)."""

NOT_APPLICABLE = {
    "C01": ("whole-run trace equality (two runs, fresh process) is decided by the tokio current-thread scheduler, per-process "
            "SipHash keys of std hash containers and wall-clock reads; none is encodable (tokio runtime construction and "
            "thread-locals with destructors ICE/are unsupported in Kani 0.68; hashbrown with symbolic keys did not finish in 30 min); "
            "trace diffing would be a different technique"),
    "C04": ("decided by Rt::crash/bounce dropping and rebuilding a tokio Runtime + LocalSet so that every task destructor runs, and by "
            "peers being woken; runtime construction, task teardown and wake-ups are not encodable with Kani (wakers are stubbed by "
            "necessity); the table-release functions the destructors call are covered under C12/C15/C09 but do not decide C04"),
    "C11": ("decided by Sim::step's loop over Rt values and Rt::tick (block_on, JoinHandle::is_finished, panic forwarding); an Rt cannot "
            "be constructed without a tokio runtime, which Kani cannot build; stubbing Rt::tick away would leave nothing of the property"),
}

# --------------------------------------------------------------------------------------------------
CLAIMS = {}
PROPERTY_INFO = {}


def claim(pid, text, note, functions, bounds, outside, assumptions=None):
    CLAIMS[pid] = {"text": text, "note": note}
    PROPERTY_INFO[pid] = {
        "functions": functions,
        "bounds": bounds,
        "outside": outside,
        "assumptions": assumptions or [],
    }


COMMON_ASSUME = [
    "indexmap / bytes are replaced by the models in /verif/models (validated by the repository's test-suites in setup_cmd)",
    "Waker::{wake,wake_by_ref,clone,drop} are stubbed (no-op / bitwise copy): who is woken is not part of the claimed clauses",
    "memory-safety (pointer validity) checks are off: the claims are functional; arithmetic-overflow and unwinding checks are on",
    "pre-states are constructed directly (field writes) under the representation invariant stated in the harness file; "
    "the invariant is re-asserted after every step, which is what lets one step stand for histories of any length",
]

claim(
    "C06",
    "Bounded model checking (Kani/CBMC) of the real turmoil-net TCP step functions: for one connected socket in an arbitrary "
    "invariant-satisfying state (all six data states, full 32-bit sequence space incl. wrap-around, arbitrary windows/flags, symbolic "
    "buffer contents, buffer lengths on a small grid) ONE inbound segment / read / write-shutdown / retransmit pass / segmentation "
    "pass is compared with a reference model of the prefix property: the receiver appends only the in-order payload prefix that fits, "
    "ACKs exactly what it accepted; the sender frees exactly the acknowledged bytes; segments carry exactly the buffered bytes at their "
    "sequence offset; reads return the oldest bytes unaltered; exhausted retransmission surfaces as TimedOut on every later call. "
    "The solver decides each step for ALL values of the symbolic inputs within the stated sizes; induction over the re-established "
    "invariant I6 covers arbitrary loss/reorder/delay schedules for the safety (prefix) half. The progress half is covered only through "
    "derived obligations (window re-opening D2) confirmed by an end-to-end witness.",
    "One-step induction: a counterexample from a pre-state no history reaches would be a false alarm; pre-states are restricted by I6 "
    "(kernel_tcp.rs) which every step harness re-proves. Multi-packet schedules, the async shim and fixture loops are NOT executed; "
    "liveness beyond D2 (lost pure ACK, lost handshake ACK) is outside the claim of this check and recorded in DESIGN.md §4.",
    ["kernel::tcp::handle_established", "kernel::tcp::segment_all", "kernel::tcp::segment_one", "kernel::tcp::poll_send",
     "kernel::tcp::poll_recv", "kernel::tcp::poll_peek", "kernel::tcp::poll_shutdown_write", "kernel::tcp::check_retx",
     "kernel::tcp::abort_with", "kernel::tcp::advertised_window", "kernel::tcp::mss_for", "kernel::tcp::emit"],
    "Bounds: one socket; send buffer 0-4 bytes, receive buffer 0-4 bytes, payload 0-4 bytes, caps 2-8 (concrete per harness instance); "
    "sequence/ack numbers, windows, flags, contents, counters symbolic; sweep functions (segment_all, check_retx) with concrete state, "
    "snd_una (incl. u32::MAX neighbourhood), in-flight count, MSS 1-2 and window on a grid; unwind 5-10 with unwinding assertions on.",
    "two-kernel packet schedules; shim/tokio layers; handshake retransmission; liveness other than D2; sizes off the grid",
    COMMON_ASSUME,
)

claim(
    "C16",
    "Bounded model checking (Kani/CBMC) of the real functions that enforce turmoil-net's caps: poll_send never lets the send buffer exceed "
    "its cap, accepts exactly the prefix that fits and parks when full; handle_established never lets the receive buffer exceed its cap "
    "and advertises min(cap-buffered,65535); segment_all never emits a payload above the MSS derived from the MTU of the source "
    "interface nor beyond the peer's last advertised window; UDP send_to rejects payloads above mtu-headers with EMSGSIZE and queues "
    "nothing. Each is decided by the solver for all symbolic inputs of its harness (contents, sequence numbers, windows, MTUs) on a "
    "small grid of concrete buffer sizes.",
    "Same step-wise encoding as C06 (shared harnesses carry both ids). mss_for / max_payload are checked for ALL u32 MTUs and both "
    "address families on bare values. Cross-host delayed-ACK schedules are covered only inductively (any segment may arrive next).",
    ["kernel::tcp::poll_send", "kernel::tcp::handle_established", "kernel::tcp::segment_all", "kernel::tcp::segment_one",
     "kernel::tcp::mss_for", "kernel::tcp::advertised_window", "kernel::udp::send_to", "kernel::udp::max_payload"],
    "Bounds: buffers 0-4 bytes, caps 2-8, MSS 1-2 (segmentation) and all u32 MTUs (mss_for/max_payload), requests 0-3 bytes; unwind 5-10.",
    "netstat queue depths; multi-step window growth/shrink sequences as such (covered inductively)",
    COMMON_ASSUME,
)

claim(
    "C17",
    "Bounded model checking (Kani/CBMC) of turmoil-net's real bind/allocate/demultiplex code: Kernel::bind against a table with one "
    "existing binding for a symbolic (address from a 7-address pool incl. non-local, wildcard, loopback, v4/v6; port; type) equals the "
    "reference accept/AddrInUse/AddrNotAvailable predicate, local_addr reports the binding and close frees it; port 0 yields the first "
    "free port cyclically from the cursor that is not bound at any local address of the protocol; PortAllocator::allocate for all "
    "range positions/cursors/occupancies of a 4-port range.",
    "The table has at most two sockets per harness (measured limit: three real-API operations on one kernel exceed 10 GB in CBMC). "
    "UDP/TCP demultiplexing over several sockets and Fabric routing are NOT covered by this check (DESIGN.md §3 C17).",
    ["kernel::Kernel::bind", "kernel::Kernel::close", "kernel::Kernel::local_addr", "kernel::Kernel::is_local",
     "kernel::socket::SocketTable::allocate_port", "kernel::socket::SocketTable::bindings_on_port",
     "kernel::socket::SocketTable::insert_binding", "kernel::socket::SocketTable::remove", "kernel::socket::PortAllocator::allocate"],
    "Bounds: one pre-existing binding (4 shapes), new bind over 7 addresses x 2 ports x 2 types symbolic; ephemeral range of 3-4 ports, "
    "symbolic cursor and occupancy; unwind 6-18.",
    "multi-socket demultiplexing (exact before wildcard, 4-tuple before listener), Fabric::deliver host routing, connected-UDP filter",
    COMMON_ASSUME,
)

claim(
    "C19",
    "Bounded model checking (Kani/CBMC) of the real rule chain and scheduler queue: Net::evaluate over three installed rules with "
    "symbolic verdicts (Pass / Drop / Deliver(d)) after a removal pattern returns the first non-Pass verdict of the remaining rules in "
    "installation order, consults each live rule up to the winner exactly once and no other; re-installation appends last; "
    "Scheduler::schedule into a sorted pending list (1-3 entries, symbolic deadlines, symbolic now and delay) keeps (deadline, emission "
    "order) sorted, sets deadline = now + delay and puts equal deadlines in emission order.",
    "Scheduler::tick and RuleGuard::drop go through the CURRENT thread-local (a Net with a destructor); Kani 0.68 ICEs on the TLS "
    "destructor registration path, so the due-prefix drain of tick, guard-drop uninstallation and the loopback bypass in "
    "Kernel::egress are outside this check. Vec::insert is replaced by a semantically identical swap-based stub (symbolic-length "
    "memmove is intractable in CBMC).",
    ["Net::install_rule", "Net::uninstall_rule", "Net::evaluate", "rule::Rule::on_packet (closure and struct impls)",
     "fixture::scheduler::Scheduler::schedule"],
    "Bounds: 3 rules, 5 concrete removal patterns, verdicts and delays symbolic (delays multiples of 0.25 ms < 64 ms); pending list of "
    "1-3 entries; unwind 6-7.",
    "Scheduler::tick, RuleGuard drop/forget, fixture::lo / ClientServer loops, loopback fold-back",
    COMMON_ASSUME,
)

claim(
    "C02",
    "Bounded model checking (Kani/CBMC) of turmoil::net's real TCP reorder buffer with the REAL tokio mpsc sender: from a stream socket "
    "with symbolic next-expected sequence (u64), symbolic queue occupancy and a parked set, one arriving segment is forwarded together "
    "with the maximal contiguous run that fits into the free queue slots; the queue grows by exactly the forwarded count, nothing is "
    "lost, duplicated or altered and parked segments stay parked. A derived progress obligation (a FIN must not be left parked at the "
    "head of the reorder buffer when nothing else will arrive) is confirmed by an end-to-end witness before being reported.",
    "Only the send half of tokio's channel compiles under Kani (Receiver::poll_recv/try_recv ICE), so poll_read/peek chunking and the "
    "credit accounting in net/tcp/stream.rs are outside this check; queue contents are observed through Sender::capacity().",
    ["host::StreamSocket::new", "host::StreamSocket::buffer", "tokio::sync::mpsc::{channel, Sender::try_send, Sender::try_reserve, Permit::send, Sender::capacity}"],
    "Bounds: channel capacity 1-3, parked set a subset of {r+2, r+3}, arriving sequence r+1..r+3, r symbolic u64; unwind 6.",
    "reader side (poll_read, poll_peek, split halves), flow-control credits, World/Topology delivery, holds and partitions (C03/C08)",
    COMMON_ASSUME[:1] + ["tokio is the REAL crate (send half of mpsc)", COMMON_ASSUME[2], COMMON_ASSUME[3]],
)

claim(
    "C09",
    "Bounded model checking (Kani/CBMC) of the address-matching predicate every turmoil::net receive path relies on: for ALL IPv4 and "
    "IPv6 (bind, destination) socket-address pairs `matches` is true exactly for a wildcard bind on the same port or an identical "
    "address; multicast group membership (join / leave / leave_all) against a bitset reference.",
    "Narrow claim: the receive filter in Udp::receive_from_network needs the tokio channel inside the bind table (send half works, but "
    "the table with channels exceeds the memory cap together with the filter); routing by destination class, broadcast fan-out and "
    "recv_from truncation need World/Topology (tokio runtime) and are outside this check.",
    ["host::matches", "net::udp::MulticastGroups::{join, leave, leave_all, destination_addresses, contains_destination_address}"],
    "Bounds: all 2^96 v4 pairs; v6 pairs with the destination equal to the bind address or ::1; 3 membership operations over 2 groups x 2 members.",
    "UdpSocket::send routing, broadcast, loopback tasks, capacity overflow, origin address reporting, recv buffer truncation",
    COMMON_ASSUME,
)
