"""Per-property static information: what is claimed (MANIFEST), what is encoded (evidence)."""

NOT_APPLICABLE = {
    "C01": ("whole-run trace equality (two runs, fresh process) is decided by the tokio current-thread scheduler, per-process "
            "SipHash keys of std hash containers and wall-clock reads; none is encodable (tokio runtime construction and "
            "thread-locals with destructors ICE/are unsupported in Kani 0.68; hashbrown with symbolic keys did not finish in 30 min); "
            "an executor model of the paused tokio runtime was built and validated against the real one, but one Sim::step with a client "
            "that sleeps once had no verdict in 15 min (nested async blocks are not constant-folded by CBMC; DESIGN.md section 1); "
            "trace diffing would be a different technique"),
    "C04": ("decided by Rt::crash/bounce dropping and rebuilding a tokio Runtime + LocalSet so that every task destructor runs, and by "
            "peers being woken; runtime construction, task teardown and wake-ups are not encodable with Kani (wakers are stubbed by "
            "necessity); with the executor model of /verif/models/tokio (validated against the real runtime incl. crash = LocalSet drop) "
            "Sim::new + client + one Sim::step is encodable only for a client without any await point (80 s); one sleep: no verdict in "
            "15 min; the table-release functions the destructors call are covered under C12/C15/C09 but do not decide C04"),
    "C11": ("decided by Sim::step's loop over Rt values and Rt::tick (block_on, JoinHandle::is_finished, panic forwarding); an Rt cannot "
            "be constructed without a tokio runtime, which Kani cannot build; with the executor MODEL (models/tokio, validated against "
            "the real paused runtime) Rt::tick's nested async blocks are not constant-folded and one step with a sleeping client had "
            "no verdict in 15 min (measured, DESIGN.md section 1); stubbing Rt::tick away would leave nothing of the property"),
}

# --------------------------------------------------------------------------------------------------
CLAIMS = {}
PROPERTY_INFO = {}


def claim(pid, text, note, functions, bounds, outside, assumptions=None):
    CLAIMS[pid] = {"text": text, "note": note}
    PROPERTY_INFO[pid] = {
        "functions": functions,
        "bounds": bounds,
        "outside": outside,
        "assumptions": assumptions or [],
    }


COMMON_ASSUME = [
    "indexmap / bytes are replaced by the models in /verif/models (validated by the repository's test-suites in setup_cmd)",
    "Waker::{wake,wake_by_ref,clone,drop} are stubbed (no-op / bitwise copy): who is woken is not part of the claimed clauses",
    "memory-safety (pointer validity) checks are off: the claims are functional; arithmetic-overflow and unwinding checks are on",
    "pre-states are constructed directly (field writes) under the representation invariant stated in the harness file; "
    "the invariant is re-asserted after every step, which is what lets one step stand for histories of any length",
]

CORE_ASSUME = COMMON_ASSUME + [
    "crates/turmoil is built against the tokio MODEL in /verif/models/tokio (functional mpsc / oneshot / Notify / Mutex, "
    "Instant = duration since an origin with a harness-controlled clock; runtime, LocalSet, spawn, sleep are unimplemented!() "
    "and unreachable from every harness)",
    "rand_distr::Exp is modelled as an arbitrary non-negative finite f64 derived from one rng word; the world rng is a "
    "generator whose every word is kani::any()",
]

claim(
    "C06",
    "Bounded model checking (Kani/CBMC) of the real turmoil-net TCP step functions: for one connected socket in an arbitrary "
    "invariant-satisfying state (all six data states, full 32-bit sequence space incl. wrap-around, arbitrary windows/flags, symbolic "
    "buffer contents, buffer lengths on a small grid) ONE inbound segment / read / write-shutdown / retransmit pass / segmentation "
    "pass is compared with a reference model of the prefix property: the receiver appends only the in-order payload prefix that fits, "
    "ACKs exactly what it accepted; the sender frees exactly the acknowledged bytes; segments carry exactly the buffered bytes at their "
    "sequence offset; reads return the oldest bytes unaltered; exhausted retransmission surfaces as TimedOut on every later call. "
    "The solver decides each step for ALL values of the symbolic inputs within the stated sizes; induction over the re-established "
    "invariant I6 covers arbitrary loss/reorder/delay schedules for the safety (prefix) half. The progress half is covered only through "
    "derived obligations (window re-opening D2) confirmed by an end-to-end witness.",
    "One-step induction: a counterexample from a pre-state no history reaches would be a false alarm; pre-states are restricted by I6 "
    "(kernel_tcp.rs) which every step harness re-proves. Multi-packet schedules, the async shim and fixture loops are NOT executed; "
    "liveness beyond D2 (lost pure ACK, lost handshake ACK) is outside the claim of this check and recorded in DESIGN.md §4.",
    ["kernel::tcp::handle_established", "kernel::tcp::segment_all", "kernel::tcp::segment_one", "kernel::tcp::poll_send",
     "kernel::tcp::poll_recv", "kernel::tcp::poll_peek", "kernel::tcp::poll_shutdown_write", "kernel::tcp::check_retx",
     "kernel::tcp::abort_with", "kernel::tcp::advertised_window", "kernel::tcp::mss_for", "kernel::tcp::emit"],
    "Bounds: one socket; send buffer 0-4 bytes, receive buffer 0-4 bytes, payload 0-4 bytes, caps 2-8 (concrete per harness instance); "
    "sequence/ack numbers, windows, flags, contents, counters symbolic; sweep functions (segment_all, check_retx) with concrete state, "
    "snd_una (incl. u32::MAX neighbourhood), in-flight count, MSS 1-2 and window on a grid; unwind 5-10 with unwinding assertions on.",
    "two-kernel packet schedules; shim/tokio layers; handshake retransmission; liveness other than D2; sizes off the grid",
    COMMON_ASSUME,
)

claim(
    "C16",
    "Bounded model checking (Kani/CBMC) of the real functions that enforce turmoil-net's caps: poll_send never lets the send buffer exceed "
    "its cap, accepts exactly the prefix that fits and parks when full; handle_established never lets the receive buffer exceed its cap "
    "and never advertises more than cap-buffered (nor zero while there is room); segment_all never emits a payload above the MSS derived from the MTU of the source "
    "interface nor beyond the peer's last advertised window; UDP send_to rejects payloads above mtu-headers with EMSGSIZE and queues "
    "nothing. Each is decided by the solver for all symbolic inputs of its harness (contents, sequence numbers, windows, MTUs) on a "
    "small grid of concrete buffer sizes.",
    "Same step-wise encoding as C06 (shared harnesses carry both ids). mss_for / max_payload are checked for ALL u32 MTUs and both "
    "address families on bare values. Cross-host delayed-ACK schedules are covered only inductively (any segment may arrive next).",
    ["kernel::tcp::poll_send", "kernel::tcp::handle_established", "kernel::tcp::segment_all", "kernel::tcp::segment_one",
     "kernel::tcp::mss_for", "kernel::tcp::advertised_window", "kernel::udp::send_to", "kernel::udp::max_payload"],
    "Bounds: buffers 0-4 bytes, caps 2-8, MSS 1-2 (segmentation) and all u32 MTUs (mss_for/max_payload), requests 0-3 bytes; unwind 5-10.",
    "netstat queue depths; multi-step window growth/shrink sequences as such (covered inductively)",
    COMMON_ASSUME,
)

claim(
    "C17",
    "Bounded model checking (Kani/CBMC) of turmoil-net's real bind/allocate/demultiplex code: Kernel::bind against a table with one "
    "existing binding (address from a 7-address pool incl. non-local, wildcard, loopback, v4/v6; port; symbolic type) equals the "
    "reference accept/AddrInUse/AddrNotAvailable predicate, local_addr reports the binding and close frees it; port 0 yields a port "
    "of the range that is not bound at any local address of the protocol (which free port is not asserted); PortAllocator::allocate "
    "returns a free port whenever one exists and None only on exhaustion, for all range positions/cursors/occupancies of a 4-port range; UDP delivery over two bound sockets picks the exact binding before the "
    "wildcard, never a socket of another port, and drops when nothing matches; an inbound TCP segment goes to the connection with "
    "the exact 4-tuple before the listener on the same port, a SYN for a 4-tuple without connection goes to the listener and a "
    "non-SYN without connection is answered with RST.",
    "The table has at most two sockets per harness; the bind matrix keeps exactly one dimension symbolic per instance (measured: two "
    "symbolic dimensions exceed 20 GB). Fabric host routing is NOT covered by this check (DESIGN.md §3 C17).",
    ["kernel::Kernel::bind", "kernel::Kernel::close", "kernel::Kernel::local_addr", "kernel::Kernel::is_local",
     "kernel::socket::SocketTable::allocate_port", "kernel::socket::SocketTable::bindings_on_port",
     "kernel::socket::SocketTable::insert_binding", "kernel::socket::SocketTable::remove", "kernel::socket::PortAllocator::allocate",
     "kernel::udp::deliver", "kernel::tcp::deliver", "kernel::tcp::find_listener"],
    "Bounds: one pre-existing binding (4 shapes), new bind over 7 addresses x 2 ports x 2 types; ephemeral range of 3-4 ports, "
    "symbolic cursor and occupancy; two sockets for demultiplexing with concrete bind shapes and symbolic source address; unwind 6-18.",
    "Fabric::deliver host routing, connected-UDP peer filter, more than two sockets per table",
    COMMON_ASSUME,
)

claim(
    "C19",
    "Bounded model checking (Kani/CBMC) of the real rule chain and scheduler queue: Net::evaluate over three installed rules with "
    "symbolic verdicts (Pass / Drop / Deliver(d)) after a removal pattern returns the first non-Pass verdict of the remaining rules in "
    "installation order and consults each live rule up to the winner; re-installation appends last; "
    "Scheduler::schedule into a sorted pending list (1-3 entries, symbolic deadlines, symbolic now and delay) keeps (deadline, emission "
    "order) sorted, sets deadline = now + delay and puts equal deadlines in emission order.",
    "Scheduler::tick and RuleGuard::drop go through the CURRENT thread-local (a Net with a destructor); Kani 0.68 ICEs on the TLS "
    "destructor registration path, so the due-prefix drain of tick, guard-drop uninstallation and the loopback bypass in "
    "Kernel::egress are outside this check. Vec::insert is replaced by a semantically identical swap-based stub (symbolic-length "
    "memmove is intractable in CBMC).",
    ["Net::install_rule", "Net::uninstall_rule", "Net::evaluate", "rule::Rule::on_packet (closure and struct impls)",
     "fixture::scheduler::Scheduler::schedule"],
    "Bounds: 3 rules, 5 concrete removal patterns, verdicts and delays symbolic (delays multiples of 0.25 ms < 64 ms); pending list of "
    "1-3 entries; unwind 6-7.",
    "Scheduler::tick, RuleGuard drop/forget, fixture::lo / ClientServer loops, loopback fold-back",
    COMMON_ASSUME,
)

claim(
    "C02",
    "Bounded model checking (Kani/CBMC) of turmoil::net's real TCP reorder buffer and stream read half (tokio MODEL channel): (writer "
    "to queue) from a stream socket with symbolic next-expected sequence (u64), symbolic queue occupancy and a parked set, one arriving "
    "segment is forwarded together with the maximal contiguous run that fits into the free queue slots; the queue grows by exactly the "
    "forwarded count, nothing is lost, duplicated or altered and parked segments stay parked; (queue to reader) for concrete schedules "
    "of read / peek calls with buffer sizes 1-4 over a queue DATA(2) DATA(1) [FIN] with symbolic byte contents, every call hands out "
    "exactly the next bytes of the stream unaltered, a peek consumes nothing, each data segment returns exactly one flow-control credit "
    "(credits + queued data segments == capacity at every point) and end-of-file is reported only after every byte and the FIN; "
    "(writer) the REAL WriteHalf::poll_write_priv inside World::enter on a real two-host World: every accepted write puts exactly one "
    "data segment on the link, in write order, with growing sequence numbers and the written bytes unaltered; a write without credit "
    "parks and puts nothing on the link (blocked, never silently discarded); a credit returned by the reader lets the next write "
    "through. A derived progress obligation (a FIN must not be left parked at the head of the reorder buffer when nothing else will arrive) is "
    "confirmed by an end-to-end witness before being reported (F-C02-1, repaired).",
    "Delivery of the in-flight segments into the destination host (Topology::deliver_messages, Sim::step) is not executed.",
    ["host::StreamSocket::new", "host::StreamSocket::buffer", "net::tcp::stream::ReadHalf::{poll_read_priv, poll_peek, put_slice}",
     "net::tcp::stream::FlowControl::{new, try_acquire, release}", "net::tcp::stream::WriteHalf::{poll_write_priv, try_write, seq, send}",
     "world::World::{new, register, enter, current, send_message}", "top::Topology::enqueue_message", "top::Link::enqueue_message"],
    "Bounds: channel capacity 1-3, parked set a subset of {r+2, r+3}, arriving sequence r+1..r+3, r symbolic u64; reader: 3-4 calls "
    "per schedule, 3 data bytes in two segments; writer: capacity 1, 2-3 writes of 2 bytes, fixed 5 ms latency; unwind 6-8.",
    "delivery into the destination host, split halves dropped separately (C12), holds and partitions (C03/C08)",
    CORE_ASSUME + ["scoped-tls is replaced by the model of /verif/models/scoped-tls (plain static under cfg(kani))"],
)

claim(
    "C09",
    "Bounded model checking (Kani/CBMC) of the receiving half of turmoil::net UDP (tokio MODEL channel): (1) the address-matching "
    "predicate `matches` for ALL IPv4 (bind, destination) pairs and for IPv6 pairs; (2) the receive filter "
    "Udp::receive_from_network through the real Udp::bind / Udp::connect: for a symbolic destination address, symbolic source socket, "
    "symbolic connected peer and symbolic payload a datagram is queued iff its destination port is the bound port, the bind address "
    "is the wildcard or equals the destination, the socket is unconnected or its peer IS the source socket (address and port), and the "
    "queue has room; a queued datagram carries the payload unaltered and the true origin, everything else leaves earlier datagrams "
    "untouched, and each send yields at most one receive; (3) UdpSocket::try_recv_from (also after `readable` parked the datagram) "
    "returns min(len, buffer) bytes, exactly the datagram's prefix, writes nothing beyond it, consumes the datagram once and leaves "
    "the next one whole.",
    "Sender-side routing (UdpSocket::send: loopback, broadcast fan-out, multicast membership) was tried on a real three-host World "
    "(unicast, broadcast with and without the option, multicast to members): no verdict in 25 minutes for any of the four instances; "
    "multicast membership tables with symbolic group/member keys exceeded the 8 GB cap. Both are outside this check.",
    ["host::matches", "host::Udp::{new, bind, connect, receive_from_network}", "net::udp::UdpSocket::{new, try_recv_from}",
     "net::udp::Rx::try_recv_from"],
    "Bounds: one bound socket (3 bind-address shapes), capacity 1-2 with 0-1 queued datagrams, 2-3 byte payloads, receive buffers of "
    "0/2/3/4 bytes (concrete per instance); addresses, ports of source/peer, contents symbolic; unwind 6-18.",
    "UdpSocket::send routing, broadcast, multicast membership, loopback tasks, async recv_from/readable under an executor",
    CORE_ASSUME,
)

claim(
    "C03",
    "Bounded model checking (Kani/CBMC) of the real link state machine (crates/turmoil/src/top.rs): for ALL 9 combinations of the two "
    "direction states in the partition alphabet (Healthy / ExplicitPartition / RandPartition), symbolic rng words (every seed) and "
    "fail/repair rates in {0, 0.5, 1}: (S1) the random fail/repair step never changes a direction that is explicitly partitioned; "
    "(S2) a send across an explicitly partitioned direction is neither queued nor matured, whatever the coins; partition / "
    "partition_oneway drop exactly the in-flight messages of the affected direction(s); (S3) with fail_rate 0 a send on a healthy "
    "direction is in flight exactly once with a deliver-after instant inside the latency window; repair / repair_oneway make exactly "
    "the named direction(s) healthy. These are one-step obligations whose invariant (explicit direction => state ExplicitPartition "
    "and nothing of that direction queued) is re-established by every operation, which covers arbitrary interleavings of explicit "
    "calls with the random process. The one-way-partition defect this found was repaired (known_findings.json F-C03-1).",
    "World/Sim wrappers that resolve host sets by name or regex, TCP connect results across a partition and the hand-over to the "
    "destination host are not executed.",
    ["top::Link::rand_partition_or_repair", "top::Link::rand_partition", "top::Link::rand_repair", "top::Link::enqueue_message",
     "top::Link::enqueue", "top::Link::get_state_for_message", "top::Link::process_deliverables", "top::Link::explicit_partition",
     "top::Link::partition_oneway", "top::Link::explicit_repair", "top::Link::repair_oneway", "top::Link::delay"],
    "Bounds: one link, queue of 0-2 in-flight datagrams with symbolic directions, one operation per harness; rates in {0,0.5,1}; unwind 4-5.",
    "host-set resolution (for_pairs), hold/release mixed with one-way partitions (documented unsupported), sequences as such (covered inductively)",
    CORE_ASSUME,
)

claim(
    "C08",
    "Bounded model checking (Kani/CBMC) of hold / release / tick / manual delivery on the real Link: a queue of 2-3 in-flight messages "
    "(concrete direction pattern, symbolic deliver-after instants inside their due / not-due class): hold marks every message held "
    "and a later tick delivers nothing; release + tick hands over exactly the held messages, each once, in send order per destination, "
    "and leaves nothing behind; a plain tick matures exactly the due messages in order and keeps the rest; the link iterator shows the "
    "in-flight messages in order with the right endpoints and SentRef::deliver schedules exactly the chosen message.",
    "The hand-over from the link's deliverable queue to the destination host (Host::receive_from_network via World) and host-set "
    "resolution by name/regex are not executed; VecDeque::remove is replaced by a semantically identical typed-move stub.",
    ["top::Link::hold", "top::Link::release", "top::Link::tick", "top::Link::process_deliverables", "top::Sent::deliver",
     "top::LinkIter::next", "top::LinkIter::pair", "top::SentRef::{pair, deliver}"],
    "Bounds: 2-3 queued messages, one hold/release/tick sequence per harness, concrete due pattern per instance; unwind 5-6.",
    "delivery into host sockets, TCP handshakes across a hold, unrelated links (separate Link values share no state by construction)",
    CORE_ASSUME,
)

claim(
    "C14",
    "Bounded model checking (Kani/CBMC): (S1) Link::delay is inside [min,max] for EVERY non-negative finite sample of the latency "
    "distribution and every min <= max (whole milliseconds < 2^32), with the per-link setting taking precedence over the global one "
    "(IEEE-754 multiplication and float-to-integer conversion are bit-blasted); (S3) a message enqueued on a healthy link gets "
    "deliver-after = link-now + delay and a tick moves it exactly when that instant is <= the new link time; (S4) messages that are "
    "due together leave in queue (send) order and a not-yet-due message does not block a later due one.",
    "The +-1 tick slack of the property comes from the relation between link time and the host clocks (Sim::step), which needs a "
    "tokio runtime and is not encoded.",
    ["top::Link::delay", "top::Link::enqueue", "top::Link::tick", "top::Link::process_deliverables", "config::Link::latency"],
    "Bounds: min/max whole ms < 2^32 symbolic, sample any non-negative finite f64; 2-3 queued messages; unwind 4-6.",
    "Sim::step time structure, distribution parameters (the sample is arbitrary in the model), 'every message is delivered' beyond maturity",
    CORE_ASSUME,
)

claim(
    "C05",
    "Bounded model checking (Kani/CBMC) of the per-host clock algebra (HostTimer) against a harness-controlled tokio clock: for symbolic "
    "registration offset, epoch base, two tick lengths and in-step progress, elapsed = sum of ticks + progress, sim_elapsed = offset + "
    "elapsed, since_epoch = epoch + sim_elapsed, and the values are monotone across the step boundary; the clock does not depend on "
    "the runtime's clock origin (bounce). REGISTRATION through the real Sim::host / Sim::client (tokio executor model, no step "
    "executed): a host or client registered after the simulation has run for a symbolic number of milliseconds, with a symbolic "
    "epoch, starts at host time zero with sim time = simulation time at registration and epoch time = configured epoch + sim time.",
    "NARROW CLAIM: that Sim::step ticks every registered host exactly once per step, that host code only observes times inside its step "
    "window, timer firing instants and crash/bounce continuity live in Sim::step / Rt::tick, which need a tokio runtime and are NOT "
    "covered. The check detects breakage of the clock algebra and of the clock a newly registered host is given.",
    ["host::HostTimer::{new, tick, now, elapsed, sim_elapsed, since_epoch}", "sim::Sim::{new, host, client}", "world::World::{new, register}",
     "rt::Rt::{host, client}"],
    "Bounds: offsets and ticks in whole ms (u32 / u16), progress < 1 ms in ns, two steps; unwind 4. Registration: one host, elapsed "
    "simulation time < 2^32 ms, epoch < 2^32 s, rng words in {0, MAX}; unwind 34.",
    "Sim::step, Rt::tick, tokio timers, crash/bounce",
    CORE_ASSUME,
)

claim(
    "C12",
    "Bounded model checking (Kani/CBMC) of the host-side connection tables of turmoil::net and of the stream teardown: a SYN is queued "
    "iff a listener is bound on the destination port and its bind address matches the destination (for a symbolic destination "
    "address and source); otherwise the request - and with it the connector's one-shot channel - is dropped, which is what the "
    "connector observes as ConnectionRefused; accept returns queued requests in arrival order, also around a connector that gave up "
    "(its one-shot channel is closed: it is not accepted, the live ones keep their order); unbinding the listener discards every "
    "queued request and frees the port; a stream stays in the table until both halves are closed, or it is reset locally or by the "
    "peer, and segments for unknown streams are answered with RST; and, through the REAL Drop impls of ReadHalf / WriteHalf running "
    "inside World::enter on a real two-host World: once both halves of a stream are dropped (remote peer or the host itself through "
    "its own address or 127.0.0.1, with or without a prior shutdown, with unread data on the same-host paths, both drop orders) the "
    "host's stream table has no entry for it, a graceful close puts exactly one FIN on the link and a shutdown followed by a drop "
    "no second one.",
    "The async bodies of TcpStream::connect / TcpListener::accept (one-shot receive under an executor, address mirroring) are not "
    "executed (one poll of the real `accept()` future on a two-host World with two queued connectors had no verdict in 20 min; the "
    "accept loop's skipping of dead connectors is emulated by the harness on the real queue instead); dropping a stream with unread data towards a REMOTE peer had no verdict in 15 min (io::Error drop glue in the sibling "
    "half's drop) and is covered only on the same-host paths.",
    ["host::Tcp::{bind, unbind, accept, receive_from_network, new_stream, stream_count, close_stream_half, reset_stream, is_port_assigned}",
     "host::matches", "net::SocketPair::new", "net::tcp::stream::{TcpStream::new, <ReadHalf as Drop>::drop, <WriteHalf as Drop>::drop, "
     "WriteHalf::poll_shutdown_priv}", "world::World::{new, register, enter, current, send_message}", "top::Topology::enqueue_message"],
    "Bounds: one listener (3 bind-address shapes), 1-3 queued requests, one stream; two registered hosts, fixed 5 ms latency, no "
    "random failures for the teardown harnesses; destination port concrete per instance, addresses symbolic; unwind 6-8.",
    "connect/accept futures, partitions around the handshake (C03), tcp_capacity overflow panic, unread data towards a remote peer",
    CORE_ASSUME + ["scoped-tls is replaced by the model of /verif/models/scoped-tls (plain static under cfg(kani))"],
)

claim(
    "C15",
    "Bounded model checking (Kani/CBMC): the ephemeral port handed out by Host::assign_ephemeral_port is never one bound by a UDP "
    "socket, a TCP listener or a live TCP stream and lies inside the range, for every position of the cursor and every occupancy of "
    "a 4-port range that leaves a port free (wrap-around included; WHICH free port is chosen is not asserted); binding a port in use fails with AddrInUse per protocol while UDP and TCP listener spaces are "
    "independent; a port is assignable again after its stream is closed/reset; the address iterator is injective for ALL counters "
    "below 2^16 (IPv4) / 2^64 (IPv6) inside its subnet; names resolve to stable, pairwise distinct addresses with reverse lookup "
    "inverting the mapping and literal addresses passing through.",
    "Crash-time release (C04) and regex lookups (feature off) are not covered; IPv4 counters above 2^16 wrap inside the /16 (outside "
    "'several hundred names').",
    ["host::Host::assign_ephemeral_port", "host::Udp::{bind, is_port_assigned}", "host::Tcp::{bind, new_stream, is_port_assigned}",
     "ip::IpVersionAddrIter::next", "dns::Dns::{lookup, reverse}", "dns::ToIpAddr for &str / Ipv4Addr"],
    "Bounds: 4-port range, 0-3 occupied ports; address counters symbolic over the stated ranges; 3 names in symbolic order; unwind 6-18.",
    "crash/bounce, regex, lookup_many",
    CORE_ASSUME,
)

claim(
    "C20",
    "Bounded model checking (Kani/CBMC) of the barrier REGISTRY: with three live barriers whose conditions are symbolic (one matches "
    "everything), a concrete dropped subset and a symbolic trigger value, the lookup returns the earliest-created live matching barrier "
    "with its reaction, a trigger sent through the returned channel reaches exactly that barrier and no other, dropped barriers are "
    "never returned, values of another type or without a live match are reported nowhere.",
    "NARROW CLAIM (registry semantics only): Barrier::build / trigger / trigger_noop / Barrier::wait go through the BARRIERS "
    "thread-local (a value with a destructor: Kani 0.68 ICEs on TLS destructor registration) and through channel receive under an "
    "executor; exactly-once reporting in trigger order as seen by wait, Suspend/release and Panic propagation are NOT covered.",
    ["barriers::BarrierRepo::{new, insert, drop, barrier}", "type-erased condition closure as built by Barrier::build"],
    "Bounds: 3 barriers, 3 drop patterns, trigger values 0..3; unwind 18.",
    "trigger/wait async paths, Suspend release, Panic reaction, filesystem corruption hook",
    CORE_ASSUME,
)

claim(
    "C13",
    "Bounded model checking (Kani/CBMC) of turmoil-net's connection life-cycle on one kernel: (listener) a SYN creates exactly one "
    "SynReceived child while the backlog has room and none beyond it; the handshake ACK moves exactly that child to the ready queue; "
    "accept hands out each ready child once, in order, and never a child that is not Established; closing the listener resets and "
    "reclaims every child not yet accepted and leaves accepted ones alone; a child aborted before it was accepted (RST, or handshake "
    "retransmission exhausted) is reclaimed with its index entry and frees its backlog slot (derived obligation, defect F-C13-1, "
    "repaired); (connection) close with unread bytes sends a RST (seq = snd_nxt, ack = rcv_nxt) and reclaims the socket at once; a "
    "clean close lingers with the FIN queued right behind the buffered bytes, marks the handle gone and emits nothing itself; whenever "
    "an entry is reclaimed the socket, its binding and its 4-tuple index entry are all gone; lingering sockets are reaped by the "
    "end-of-egress sweep exactly when Closed / reset / timed out and never while the handle is held; an inbound RST aborts the "
    "connection and every later read/write reports ConnectionReset; a segment for a 4-tuple without socket is answered with RST.",
    "Full close handshakes across two kernels (FIN/ACK exchange in both orders, TIME_WAIT-less reuse of a 4-tuple) are covered only "
    "step-wise on one endpoint; connect cancellation through the shim's futures is not executed.",
    ["kernel::Kernel::close", "kernel::Kernel::accept", "kernel::tcp::on_close", "kernel::tcp::reap_closed", "kernel::tcp::abort_with",
     "kernel::tcp::accept_syn", "kernel::tcp::push_to_listener", "kernel::tcp::count_children", "kernel::tcp::handle_on_connection", "kernel::tcp::deliver",
     "kernel::tcp::check_retx (handshake exhaustion)", "kernel::socket::SocketTable::remove"],
    "Bounds: one listener with 0-2 children (backlog 1-2) or one connected socket, buffers 0-2 bytes, states concrete per instance, "
    "sequence numbers / flags / source addresses symbolic; unwind 4-8.",
    "two-kernel close handshakes, shim futures (connect cancellation), more than two children",
    COMMON_ASSUME,
)

claim(
    "C18",
    "Bounded model checking (Kani/CBMC) of the per-ring completion ACCOUNTING of the simulated io_uring (RingState): from a ring with "
    "two in-flight operations and one matured completion, (1) schedule / post_immediate_error add exactly one completion that is "
    "visible at its own instant and not one nanosecond earlier (symbolic instants); (2) cancel of an in-flight, of an already matured "
    "and of an unknown operation: the target is removed without being executed and replaced by exactly one -ECANCELED completion plus "
    "one 0 completion for the cancel (or one -ENOENT), every other submission keeps exactly one pending completion; (3) pop_ready "
    "yields exactly the visible completions, each once, never one whose latency has not elapsed, for every outcome of the shuffle "
    "(symbolic rng), and ready_cq_count equals the number that can be drained. (4) EFFECT PARITY of read and write: the completion-time "
    "executors exec_write / exec_read run against a real turmoil-fs Fs (std::path model) and are compared with Fs::write_file / "
    "read_file / file_len on a twin filesystem - same CQE result, same bytes (symbolic contents, offset 0..1), same length, the tail "
    "of the buffer untouched; a bad fd completes with -EBADF and neither buffer nor filesystem is touched.",
    "NARROW CLAIM: the ring accounting and the read/write executors with all fault knobs off. Submit-side draining (submit.rs: latency "
    "sampling, page-cache probing), the CompletionQueue iterator, AsyncFd readiness, fsync parity (Fs::sync_file has no verdict under "
    "Kani, DESIGN.md section 1), the capacity check (-ENOSPC; Fs::used_bytes: out of memory at 12 GB, instances unshipped), O_DIRECT "
    "alignment, the probabilistic faults and the crash clause are NOT covered. "
    "Notify::notify_waiters is stubbed to a no-op; turmoil-fs is built against the std::path model of /verif/models/path.",
    ["sim::RingState::{new, schedule, post_immediate_error, cancel, ready_cq_count, promote_ready, pop_ready}",
     "sim::{exec_read, exec_write, sample_prob}", "turmoil_fs::Fs::{new, alloc_fd, write_file, read_file, file_len, check_space}"],
    "Bounds: 3 entries in the ring; cancel target and (for pop_ready) completion instants concrete per instance, other instants and "
    "the rng symbolic; unwind 8.",
    "submit / SQ draining, CQ iteration, fs effects (exec_read/exec_write/exec_fsync), crash, multi-ring interleavings",
    COMMON_ASSUME[:1] + ["the crate is built against the REAL tokio; tokio::sync::Notify::notify_waiters is stubbed (wake-up plumbing)"] + COMMON_ASSUME[2:],
)

FS_ASSUME = [
    "std::path::{Path, PathBuf} are replaced, for crates/turmoil-fs/src/lib.rs only, by the inline-storage model /verif/models/path "
    "(the one import line is rewritten in the scratch overlay; validated against std::path on every normalised path of at most 6 bytes "
    "by models/validate_path in setup_cmd); paths are normalised, absolute, at most 6 bytes; the std/tokio shim modules (thin wrappers "
    "around the Fs methods) are compiled out and are NOT covered",
    COMMON_ASSUME[0],
    COMMON_ASSUME[2],
    "the Fs is built field by field with the values Fs::new uses, except that its rng returns symbolic words (every seed)",
]

claim(
    "C10",
    "Bounded model checking (Kani/CBMC) of the real turmoil-fs Fs (crates/turmoil-fs/src/lib.rs) against what a plain in-memory POSIX "
    "file tree returns, on histories of 2-4 operations over concrete paths with SYMBOLIC file contents: a read returns what was "
    "written (length, existence, contents); where writes overlap the later one wins - over synced data for every offset 0..2 incl. "
    "reads at an offset and past the end, over pending data for the overwrite and the append offset; a truncation discards the tail "
    "for good: after truncate-then-extend the cut-off bytes read as zeros, also for a read that starts beyond the cut, and a partial "
    "truncation keeps exactly the prefix, with the data pending or already synced (F-C10-1, fixed); a chain of two unsynced renames "
    "keeps length and contents under the final name only; unlink removes and fails on a missing name; mkdir needs an existing parent "
    "and a free name; a file removed and created again must be empty (F-C10-2: it is NOT - open known finding, reported as "
    "KNOWN-FINDING).",
    "NARROW CLAIM: the Fs core only (not the std / tokio shims, not io_uring, not latency / page cache / fault knobs), one host, files of "
    "2-3 bytes, at most 4 pending operations and 2-4 queries per history (more ran out of memory at 8 GB, measured). 'Sync never "
    "changes anything observable' is decided only by comparing the pending with the pre-synced (persisted) variants of the truncate / "
    "overlay instances: every history THROUGH sync_file / sync_file_data / sync_dir, rename() followed by reads, rmdir, and three "
    "pending operations with a symbolic offset had no verdict (out of memory / no result after 400-900 s, measured) - those instances "
    "are kept in harness/turmoil-fs/lib.rs as tier=unshipped and are part of neither tier. Directory listings (std HashSet), hard "
    "links and symlinks are not covered.",
    ["Fs::{create_file_with_mode, write_file, set_file_len, read_file, file_len, file_exists, dir_exists, symlink_exists, unlink, mkdir_with_mode, "
     "parent_exists, resolve_content_path, resolve_persisted_path, resolve_hardlink_target, path_renamed_to}"],
    "Bounds: paths '/f' '/g' '/h' '/d' '/d/e' '/d/f' '/x/f'; 2-3 byte contents (symbolic), offsets 0..2, <= 4 pending ops; unwind 10.",
    "shim::std / shim::tokio, io_uring, sync_* followed by reads, rename() followed by reads, rmdir, hard links, symlinks, dir_entries, "
    "page cache, latency, fault injection, more than one host",
    FS_ASSUME,
)

claim(
    "C07",
    "Bounded model checking (Kani/CBMC) of the real crash step of turmoil-fs (inductive-step style: the pre-state - durable inodes, durable "
    "directory entries, pending log - is written directly): from a state with one durable file (symbolic contents), one orphan inode "
    "whose entry was never synced, and one of five pending unsynced histories (overwrite + create, rename, remove, truncate, mkdir + "
    "create inside), Fs::crash leaves exactly the durable image: the durable file with its last-synced contents and length, nothing "
    "else, an empty pending log, inode tables holding exactly the durable objects; a durable directory holding a durable file survives "
    "with the unsynced removal of both rolled back. With a torn-write block size and the rng word "
    "that lets no block survive, pending writes leave no trace and a write to a non-durable file leaves nothing.",
    "NARROW CLAIM: Fs::crash (and the no-survivor path of apply_torn_writes) from directly constructed pre-states. The operations that "
    "BUILD the durable image - sync_file, sync_file_data, sync_dir - had no verdict under Kani (drain + partition of the pending Vec of a "
    "data-carrying enum: 5-6.6 GB and no verdict after 600-900 s, measured), nor had the torn-write instances in which one or both "
    "blocks survive (rng word fixed or symbolic: 5.7 GB, no verdict after 500 s): those instances are kept in "
    "harness/turmoil-fs/lib.rs as tier=unshipped and are part of neither tier. Random background sync (sync_probability), io_uring "
    "fsync and the shims are not covered. A change confined to sync_* or to which torn prefix survives is NOT detected.",
    ["Fs::{crash, apply_torn_writes, file_exists, dir_exists, file_len, read_file}"],
    "Bounds: 1-2 persisted files of 2 symbolic bytes, <= 2 pending ops per instance (6 instances), block size 1 with rng word 0; unwind 10.",
    "sync_file / sync_file_data / sync_dir, surviving torn blocks, sync_probability, io_uring, shims, files longer than 2 bytes",
    FS_ASSUME,
)
