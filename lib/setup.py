#!/usr/bin/env python3
"""setup: warm per-crate Kani build caches (optional; checks work without them)."""
import sys
print("setup: nothing to build yet")
sys.exit(0)
