#!/usr/bin/env python3
"""setup_cmd: validate the dependency models natively and warm the Kani build caches.

1. indexmap + bytes models: the repository's own test-suites (`cargo test --workspace`) are run
   against them in a scratch copy of /repo and must pass (this is how the models are validated).
2. tokio model: a differential test drives the model and the REAL tokio channels with the same
   operation sequences (mpsc bounded / oneshot: try_send, try_reserve, permits, try_recv, close,
   drops) and compares every result.
3. warm one Kani target directory per (crate, features) under /verif/.cache so that checks only
   recompile the overlay crate.
Everything here is optional for the checks (they rebuild what is missing); a failure of step 1 or
2 is fatal because it would invalidate the trusted base.
"""
import os
import shutil
import subprocess
import sys
import time
from pathlib import Path

VERIF = Path("/verif")
REPO = Path("/repo")
sys.path.insert(0, str(VERIF / "lib"))
ENV = dict(os.environ)
ENV["CARGO_NET_OFFLINE"] = "true"
ENV.pop("RUSTUP_TOOLCHAIN", None)


def log(*a):
    print("[setup]", *a, flush=True)


def validate_models():
    root = Path("/var/tmp/turmoil-verif-validate")
    if root.exists():
        shutil.rmtree(root)
    root.mkdir(parents=True)
    try:
        subprocess.run(["rsync", "-a", "--exclude", "target", str(REPO / "crates"), str(root)], check=True)
        shutil.copy(REPO / "Cargo.lock", root / "Cargo.lock")
        (root / "Cargo.toml").write_text(
            '[workspace]\nresolver = "2"\nmembers = ["crates/*"]\n[patch.crates-io]\n'
            'indexmap = { path = "/verif/models/indexmap" }\nbytes = { path = "/verif/models/bytes" }\n'
            'scoped-tls = { path = "/verif/models/scoped-tls" }\n')
        (root / ".cargo").mkdir()
        (root / ".cargo" / "config.toml").write_text(
            '[net]\noffline = true\n[build]\nrustflags = ["--cfg", "tokio_unstable"]\n')
        env = dict(ENV)
        env["CARGO_TARGET_DIR"] = str(VERIF / ".cache" / "validate-target")
        t0 = time.time()
        p = subprocess.run(["cargo", "test", "--offline", "--workspace", "--no-fail-fast"], cwd=root, env=env,
                           stdout=subprocess.PIPE, stderr=subprocess.STDOUT, text=True)
        passed = failed = 0
        for ln in p.stdout.splitlines():
            if ln.startswith("test result:"):
                parts = ln.split()
                passed += int(parts[3])
                failed += int(parts[5])
        log("repo suites against indexmap+bytes models: passed=%d failed=%d (%.0fs)" % (passed, failed, time.time() - t0))
        if failed or passed < 150 or p.returncode != 0:
            sys.stdout.write(p.stdout[-4000:])
            return False
        # feature-gated suites of turmoil (fs / io_uring / barriers) as well
        p = subprocess.run(["cargo", "test", "--offline", "-p", "turmoil", "--features",
                            "unstable-fs,unstable-io_uring,unstable-barriers", "--no-fail-fast"], cwd=root, env=env,
                           stdout=subprocess.PIPE, stderr=subprocess.STDOUT, text=True)
        passed = failed = 0
        for ln in p.stdout.splitlines():
            if ln.startswith("test result:"):
                parts = ln.split()
                passed += int(parts[3])
                failed += int(parts[5])
        log("turmoil feature-gated suites against the models: passed=%d failed=%d" % (passed, failed))
        if failed or p.returncode != 0:
            sys.stdout.write(p.stdout[-4000:])
            return False
        return True
    finally:
        shutil.rmtree(root, ignore_errors=True)


def validate_tokio_model():
    d = VERIF / "models" / "validate_tokio"
    if not d.exists():
        return True
    env = dict(ENV)
    env["CARGO_TARGET_DIR"] = str(VERIF / ".cache" / "validate-tokio-target")
    p = subprocess.run(["cargo", "test", "--offline"], cwd=d, env=env, stdout=subprocess.PIPE,
                       stderr=subprocess.STDOUT, text=True)
    ok = p.returncode == 0 and "test result: ok" in p.stdout
    log("tokio model differential test vs real tokio:", "ok" if ok else "FAILED")
    if not ok:
        sys.stdout.write(p.stdout[-4000:])
    return ok


def validate_path_model():
    d = VERIF / "models" / "validate_path"
    if not d.exists():
        return True
    env = dict(ENV)
    env["CARGO_TARGET_DIR"] = str(VERIF / ".cache" / "validate-path-target")
    p = subprocess.run(["cargo", "test", "--offline"], cwd=d, env=env, stdout=subprocess.PIPE,
                       stderr=subprocess.STDOUT, text=True)
    ok = p.returncode == 0 and "test result: ok. 1 passed" in p.stdout
    log("std::path model differential test vs std::path (all normalised paths up to CAP bytes):", "ok" if ok else "FAILED")
    if not ok:
        sys.stdout.write(p.stdout[-4000:])
    return ok


def warm_kani():
    import vcheck
    hs = vcheck.discover()
    seen = {}
    for h in hs:
        key = (h["crate"], h["features"])
        if key not in seen:
            seen[key] = h
    base = Path("/var/tmp/turmoil-verif.setup.%d" % os.getpid())
    try:
        for (crate, feats), h in seen.items():
            g = "core" if crate == "turmoil" else ("fsm" if crate == "turmoil-fs" else "leaf")
            ov = base / g
            if not ov.exists():
                members = {crate} | ({"turmoil-fs"} if crate == "turmoil-io-uring" else set())
                if g == "leaf":
                    members = {x["crate"] for x in hs if x["crate"] not in ("turmoil", "turmoil-fs")}
                    if "turmoil-io-uring" in members:
                        members.add("turmoil-fs")
                vcheck.make_overlay(ov, sorted(members), tokio_model=(g == "core" and vcheck.tokio_model_needed("turmoil")),
                                    path_model=(g == "fsm" or (g == "leaf" and "turmoil-io-uring" in members)))
            tgt = vcheck.CACHE / ("target-%s-%s" % (crate, __import__("re").sub(r"[^a-z0-9]", "_", feats) or "default"))
            if tgt.exists():
                shutil.rmtree(tgt)
            cmd = ["cargo", "kani", "-Z", "stubbing", "--only-codegen", "--harness", h["full"], "--exact",
                   "--target-dir", str(tgt)]
            if feats:
                cmd += ["--features", feats]
            t0 = time.time()
            p = subprocess.run(cmd, cwd=ov / "crates" / crate, env=ENV, stdout=subprocess.PIPE,
                               stderr=subprocess.STDOUT, text=True)
            log("warm %s [%s]: rc=%d %.0fs" % (crate, feats, p.returncode, time.time() - t0))
            if p.returncode != 0:
                shutil.rmtree(tgt, ignore_errors=True)
    finally:
        shutil.rmtree(base, ignore_errors=True)


def main():
    (VERIF / ".cache").mkdir(exist_ok=True)
    ok = validate_models()
    ok = validate_tokio_model() and ok
    ok = validate_path_model() and ok
    if not ok:
        log("model validation FAILED")
        return 1
    try:
        warm_kani()
    except Exception as e:  # noqa
        log("cache warming skipped:", repr(e))
    log("done")
    return 0


if __name__ == "__main__":
    sys.exit(main())
