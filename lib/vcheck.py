#!/usr/bin/env python3
"""vcheck -- solver-based (Kani/CBMC) checking of tokio-rs/turmoil properties.

Usage: vcheck <PROPERTY-ID> [--tier quick|thorough] [--only SUBSTR] [--jobs N] [--keep]

On every invocation the four crates are copied from /repo's working tree into a scratch overlay,
the harness files of /verif/harness are attached to the anchored source files as child modules
(#[cfg(kani)] mod), and each selected #[kani::proof] harness is decided by cargo-kani (CBMC +
CaDiCaL).  Exit 0: every harness verified (all cover witnesses satisfied).  Exit 1: a violation was
found, replayed natively, and is not a listed known finding.  Exit 2: inconclusive (timeout, OOM,
compile error, unwinding assertion, vacuous harness, non-reproducing counterexample).
"""
import argparse
import json
import os
import re
import shutil
import signal
import subprocess
import sys
import threading
import time
from pathlib import Path

VERIF = Path(os.environ.get("VERIF_ROOT", "/verif"))
REPO = Path(os.environ.get("VERIF_REPO", "/repo"))
CRATES = ["turmoil", "turmoil-net", "turmoil-fs", "turmoil-io-uring"]
CACHE = VERIF / ".cache"

sys.path.insert(0, str(VERIF / "lib"))
from harness_map import HARNESS_FILES, PROPERTY_INFO  # noqa: E402

if os.environ.get("VERIF_EXTRA_HARNESS"):
    # development aid: {"<abs path to harness .rs>": {"crate": .., "anchor": ..}}
    HARNESS_FILES = dict(HARNESS_FILES)
    HARNESS_FILES.update(json.loads(os.environ["VERIF_EXTRA_HARNESS"]))

ENV_BASE = dict(os.environ)
ENV_BASE.update({
    "CARGO_NET_OFFLINE": "true",
    "CARGO_TERM_COLOR": "never",
})
# the Kani toolchain is pinned by cargo-kani itself; make sure a stray override does not leak in
ENV_BASE.pop("RUSTUP_TOOLCHAIN", None)
ENV_BASE.pop("RUSTFLAGS", None)


# Memory-safety (pointer validity) checks and assertion-reachability instrumentation are switched off:
# every claimed property is functional, the code under test is safe Rust (memory safety is the
# compiler's guarantee), and these checks multiply the formula size by ~3-5x (measured). Arithmetic
# overflow checks, user assertions/panics, unwinding assertions and kani::cover! witnesses stay on.
KANI_FLAGS = os.environ.get("VERIF_KANI_FLAGS",
                            "-Z unstable-options --no-memory-safety-checks --no-assertion-reach-checks").split()


CBMC_ARGS = os.environ.get("VERIF_CBMC_ARGS", "--max-field-sensitivity-array-size 4096").split()


def log(*a):
    print(*a, file=sys.stderr, flush=True)


# ---------------------------------------------------------------------------------------------
# harness discovery

ANNOT = re.compile(r"^\s*//\s*@verif\s+(.*)$")
FN = re.compile(r"^\s*(?:pub\s+)?fn\s+([a-zA-Z0-9_]+)\s*\(")
INST = re.compile(r"^\s*([a-z0-9_]+)!\s*\(\s*([a-zA-Z0-9_]+)\s*[,)]")


def module_path(src_rel):
    """crates/<c>/src/kernel/socket.rs -> kernel::socket ; src/lib.rs -> '' ; src/kernel/mod.rs -> kernel"""
    parts = list(Path(src_rel).parts)
    i = parts.index("src")
    mods = parts[i + 1:]
    last = mods[-1]
    if last in ("lib.rs", "mod.rs"):
        mods = mods[:-1]
    else:
        mods[-1] = last[:-3]
    return "::".join(mods)


def discover():
    """Return list of harness dicts from annotation comments in /verif/harness."""
    out = []
    for hf, info in HARNESS_FILES.items():
        p = VERIF / "harness" / hf
        if not p.exists():
            continue
        lines = p.read_text().splitlines()
        pending = None
        for ln in lines:
            m = ANNOT.match(ln)
            if m:
                kv = dict(x.split("=", 1) for x in m.group(1).split() if "=" in x)
                pending = kv
                if "name" in kv:  # explicit (macro-instantiated) harness
                    out.append(mk(kv, kv["name"], hf, info))
                    pending = None
                continue
            if pending is not None:
                m = FN.match(ln)
                if m:
                    out.append(mk(pending, m.group(1), hf, info))
                    pending = None
    return out


def mk(kv, name, hf, info):
    mp = module_path(info["anchor"])
    modname = info.get("mod", "verif_harness")
    full = "::".join(x for x in (mp, modname, name) if x)
    return {
        "name": name,
        "full": full,
        "ids": kv["id"].split(","),
        "tier": kv.get("tier", "quick"),
        "role": kv.get("role", name),
        "timeout": int(kv.get("timeout", "0")),
        "mem_gb": int(kv.get("mem", "0")),
        "expect": kv.get("expect", "pass"),  # pass | known (listed in known_findings)
        "desc": kv.get("desc", ""),
        "file": hf,
        "crate": info["crate"],
        "features": info.get("features", ""),
        "anchor": info["anchor"],
        "stubs": kv.get("stubs", ""),
        "witness": kv.get("witness", ""),
        "derived": kv.get("derived", "0") == "1",
        "fs": kv.get("fs", ""),
        "unwindset": kv.get("unwindset", ""),
        "vt": kv.get("vt", "") == "1",
        "replay": kv.get("replay", "native"),
    }


# ---------------------------------------------------------------------------------------------
# overlay


def tokio_model_needed(crate):
    return crate in ("turmoil",) and (VERIF / "models" / "tokio").exists()


PATH_IMPORT = "use std::path::{Path, PathBuf};"


def apply_path_model(root: Path):
    """turmoil-fs only: std::path -> /verif/models/path (inline-storage model) under cfg(kani).

    std cannot be replaced with [patch], so the ONE import line of crates/turmoil-fs/src/lib.rs is
    rewritten in the scratch copy (same line, nothing moves) and the std/tokio shim modules - thin
    wrappers that are not part of any fs claim and are written against std::path - are compiled out
    under cfg(kani). If the import line is not found the harnesses fail to compile -> exit 2."""
    lib = root / "crates" / "turmoil-fs" / "src" / "lib.rs"
    pm = VERIF / "models" / "path" / "verif_path.rs"
    if not lib.exists() or not pm.exists():
        return
    t = lib.read_text()
    if PATH_IMPORT not in t:
        return
    dst = root / "crates" / "turmoil-fs" / "src" / "verif_path.rs"
    shutil.copy(pm, dst)
    t = t.replace(PATH_IMPORT,
                  "#[cfg(not(any(kani, verif_path)))] use std::path::{Path, PathBuf}; "
                  "#[cfg(any(kani, verif_path))] use crate::verif_path::{Path, PathBuf};", 1)
    t = t.replace("pub mod shim;", "#[cfg(not(any(kani, verif_path)))] pub mod shim;", 1)
    t += "\n#[cfg(any(kani, verif_path))] #[path = \"%s\"] pub mod verif_path;\n" % dst
    lib.write_text(t)


def make_overlay(root: Path, crates_needed, use_real_indexmap=False, tokio_model=False, path_model=False):
    """Copy crates from /repo working tree, attach harness modules, write workspace files."""
    if root.exists():
        shutil.rmtree(root)
    (root / "crates").mkdir(parents=True)
    root.parent.mkdir(parents=True, exist_ok=True)
    for c in CRATES:
        subprocess.run(["rsync", "-a", "--exclude", "target", "--exclude", "tests", "--exclude", "examples",
                        str(REPO / "crates" / c), str(root / "crates")], check=True)
    shutil.copy(REPO / "Cargo.lock", root / "Cargo.lock")
    # strip dev-dependencies (not built by cargo kani; some are not needed offline)
    for c in CRATES:
        ct = root / "crates" / c / "Cargo.toml"
        txt = ct.read_text()
        txt = strip_sections(txt, ["dev-dependencies", "target.'cfg(target_os = \"linux\")'.dev-dependencies"])
        ct.write_text(txt)
    # attach harness files as child modules (copied into the overlay so that concrete playback can
    # write its unit tests "in place" without touching /verif)
    for hf, info in HARNESS_FILES.items():
        src = VERIF / "harness" / hf
        if not src.exists():
            continue
        anchor = root / info["anchor"]
        if not anchor.exists():
            # anchored file was refactored away: harnesses of this file become compile errors -> exit 2
            continue
        dst = root / "crates" / info["crate"] / "src" / ("verif_h_" + hf.replace("/", "_"))
        shutil.copy(src, dst)
        modname = info.get("mod", "verif_harness")
        with open(anchor, "a") as f:
            f.write("\n#[cfg(kani)] #[path = \"%s\"] mod %s;\n" % (dst, modname))
    # shared stubs/helpers at every crate root
    for c in CRATES:
        lib = root / "crates" / c / "src" / "lib.rs"
        dst = root / "crates" / c / "src" / "verif_common.rs"
        shutil.copy(VERIF / "harness" / "common.rs", dst)
        with open(lib, "a") as f:
            f.write("\n#[cfg(kani)] #[path = \"%s\"] pub mod verif_common;\n" % dst)
        # the generic Vec stubs in verif_common name the (unstable) Allocator trait; a crate-level
        # feature attribute has to come first, so lib.rs (only) is shifted down by one line
        txt = lib.read_text()
        lib.write_text("#![cfg_attr(kani, feature(allocator_api))]\n" + txt)
    if tokio_model:
        # The crate's OWN unit tests (cfg(test) modules) are written against the real tokio
        # (AsyncReadExt, Semaphore, ...) and do not compile against the model; they would keep
        # `cargo kani playback` (a cfg(test) build) from running the counterexample replays.
        # They are switched off in the overlay copy, in place (no line moves).
        for f in (root / "crates" / "turmoil" / "src").rglob("*.rs"):
            if f.name.startswith("verif_"):
                continue
            t = f.read_text()
            if "#[cfg(test)]" in t:
                f.write_text(t.replace("#[cfg(test)]", "#[cfg(any())]"))
    if path_model:
        apply_path_model(root)
    members = ", ".join('"crates/%s"' % c for c in crates_needed)
    patch = []
    if not use_real_indexmap:
        patch.append('indexmap = { path = "%s" }' % (VERIF / "models" / "indexmap"))
    patch.append('tracing = { path = "%s" }' % (VERIF / "models" / "tracing"))
    patch.append('rand_distr = { path = "%s" }' % (VERIF / "models" / "rand_distr"))
    if (VERIF / "models" / "bytes").exists():
        patch.append('bytes = { path = "%s" }' % (VERIF / "models" / "bytes"))
    if tokio_model:
        patch.append('tokio = { path = "%s" }' % (VERIF / "models" / "tokio"))
        patch.append('scoped-tls = { path = "%s" }' % (VERIF / "models" / "scoped-tls"))
    (root / "Cargo.toml").write_text(
        "[workspace]\nresolver = \"2\"\nmembers = [%s]\n[patch.crates-io]\n%s\n" % (members, "\n".join(patch)))
    (root / ".cargo").mkdir()
    (root / ".cargo" / "config.toml").write_text(
        "[net]\noffline = true\n[build]\nrustflags = [\"--cfg\", \"tokio_unstable\"]\n")


def strip_sections(txt, names):
    out = []
    skip = False
    for ln in txt.splitlines():
        m = re.match(r"^\[(.+)\]\s*$", ln)
        if m:
            skip = m.group(1) in names
        if not skip:
            out.append(ln)
    return "\n".join(out) + "\n"


# ---------------------------------------------------------------------------------------------
# running one harness

RE_STATS = {
    "symex_s": re.compile(r"^Runtime Symex: ([0-9.e+-]+)s"),
    "steps": re.compile(r"^size of program expression: (\d+) steps"),
    "vccs": re.compile(r"^Generated (\d+) VCC\(s\), (\d+) remaining"),
    "vars": re.compile(r"^(\d+) variables, (\d+) clauses"),
    "solver_s": re.compile(r"^Runtime Solver: ([0-9.e+-]+)s"),
    "verif_time": re.compile(r"^Verification Time: ([0-9.e+-]+)s"),
}


def parse_log(text):
    r = {"symex_s": 0.0, "steps": 0, "vccs": 0, "vccs_remaining": 0, "vars": 0, "clauses": 0,
         "solver_s": 0.0, "solver_calls": 0, "verif_time": 0.0, "failed_checks": [], "covers": [],
         "stubs": [], "status": "unknown"}
    cur = None
    for ln in text.splitlines():
        m = RE_STATS["symex_s"].match(ln)
        if m:
            r["symex_s"] = float(m.group(1)); continue
        m = RE_STATS["steps"].match(ln)
        if m:
            r["steps"] = int(m.group(1)); continue
        m = RE_STATS["vccs"].match(ln)
        if m:
            r["vccs"] = int(m.group(1)); r["vccs_remaining"] = int(m.group(2)); continue
        m = RE_STATS["vars"].match(ln)
        if m:
            r["vars"] = max(r["vars"], int(m.group(1))); r["clauses"] = max(r["clauses"], int(m.group(2))); continue
        m = RE_STATS["solver_s"].match(ln)
        if m:
            r["solver_s"] += float(m.group(1)); r["solver_calls"] += 1; continue
        m = RE_STATS["verif_time"].match(ln)
        if m:
            r["verif_time"] = float(m.group(1)); continue
        m = re.match(r"^\s*-\s*Stub: (.*)$", ln)
        if m:
            r["stubs"].append(m.group(1).strip()); continue
        m = re.match(r"^Check \d+: (.*)$", ln)
        if m:
            cur = {"id": m.group(1).strip(), "status": None, "desc": "", "loc": ""}
            continue
        if cur is not None:
            m = re.match(r"^\s*- Status: (\S+)", ln)
            if m:
                cur["status"] = m.group(1); continue
            m = re.match(r"^\s*- Description: \"(.*)\"$", ln)
            if m:
                cur["desc"] = m.group(1); continue
            m = re.match(r"^\s*- Location: (.*)$", ln)
            if m:
                cur["loc"] = m.group(1)
                if ".cover." in cur["id"] or cur["status"] in ("SATISFIED", "UNSATISFIABLE"):
                    r["covers"].append(cur)
                elif cur["status"] == "ERROR":
                    r["error_checks"] = r.get("error_checks", 0) + 1
                elif cur["status"] not in ("SUCCESS", "UNREACHABLE"):
                    r["failed_checks"].append(cur)
                cur = None
                continue
    if "VERIFICATION:- SUCCESSFUL" in text:
        r["status"] = "success"
    elif "VERIFICATION:- FAILED" in text:
        r["status"] = "failed"
    return r


class Slot:
    def __init__(self, idx, root, crate_target_seed):
        self.idx = idx
        self.target = root / ("target-slot%d" % idx)


def run_harness(h, overlay: Path, target: Path, logdir: Path, timeout_s, mem_gb, playback=False):
    """Run one cargo-kani process. Returns (result dict)."""
    cr = Path(h.get("overlay", str(overlay))) / "crates" / h["crate"]
    cmd = ["cargo", "kani", "-Z", "stubbing", "--harness", h["full"], "--exact",
           "--target-dir", str(target)]
    if h["features"]:
        cmd += ["--features", h["features"]]
    cmd += KANI_FLAGS
    if h.get("vt"):
        # restrict the targets of dyn-trait calls to implementations of that trait method (per harness:
        # `vt=1`; needed where a Box<dyn Trait> forwards to itself, e.g. Box<dyn RngCore>)
        cmd += ["-Z", "restrict-vtable"]
    extra_cbmc = []
    if h.get("unwindset"):
        extra_cbmc = resolve_unwindset(h, list(cmd), cr, target, logdir)
    if playback:
        cmd += ["-Z", "concrete-playback", "--concrete-playback=print"]
    # must be last: passed through to CBMC. Field sensitivity for arrays up to 4096 cells (default 64)
    # lets symex constant-propagate through heap objects larger than 64 bytes (measured: without it
    # every table lookup on concrete keys becomes a solver problem).
    cbmc_args = list(CBMC_ARGS)
    if h.get("fs"):
        cbmc_args = ["--max-field-sensitivity-array-size", str(h["fs"])]
    cmd += ["--cbmc-args"] + cbmc_args + extra_cbmc
    lf = logdir / ((h["name"]) + (".playback" if playback else "") + ".log")
    t0 = time.time()
    mem_kb = mem_gb * 1024 * 1024
    # ulimit -v applies to cbmc (and the compiler); timeout kills the whole process group
    sh = "ulimit -v %d; exec %s" % (mem_kb, " ".join(shquote(c) for c in cmd))
    with open(lf, "w") as f:
        p = subprocess.Popen(["bash", "-c", sh], cwd=cr, stdout=f, stderr=subprocess.STDOUT,
                             env=ENV_BASE, start_new_session=True)
        try:
            p.wait(timeout=timeout_s)
            timed_out = False
        except subprocess.TimeoutExpired:
            timed_out = True
            try:
                os.killpg(p.pid, signal.SIGKILL)
            except ProcessLookupError:
                pass
            p.wait()
    wall = time.time() - t0
    text = lf.read_text(errors="replace")
    r = parse_log(text)
    r["wall_s"] = round(wall, 2)
    r["log"] = str(lf)
    r["rc"] = p.returncode
    if timed_out:
        r["status"] = "timeout"
    elif r["status"] == "unknown":
        if re.search(r"^error(\[E\d+\])?:", text, re.M) and "Compiling" in text and "CBMC version" not in text:
            r["status"] = "compile_error"
        elif "std::bad_alloc" in text or "Out of memory" in text or "memory exhausted" in text:
            r["status"] = "oom"
        else:
            r["status"] = "error"
    elif r["status"] == "failed":
        if "std::bad_alloc" in text or "CBMC failed with status" in text or r.get("error_checks"):
            # CBMC crashed (usually the ulimit): every check is reported with Status ERROR; not a verdict
            if not [c for c in r["failed_checks"] if c["status"] == "FAILURE"]:
                r["status"] = "oom"
    return r


def resolve_unwindset(h, cmd, cr, target, logdir):
    """`unwindset=<substring>:<n>[+<substring>:<n>]`: per-loop unwinding bounds for loops with a
    CONCRETE trip count that exceeds the harness-wide bound (e.g. rand's 32-byte seed arrays), so that
    the harness-wide bound, which every loop with a symbolic trip count is unrolled to, stays small.
    CBMC names loops by mangled function name (it contains a per-build crate hash), so the labels are
    looked up in the freshly generated GOTO binary: codegen only, `goto-instrument --show-loops`,
    match by substring of label or function. Unwinding assertions stay on for these loops too."""
    lf = logdir / (h["name"] + ".codegen.log")
    with open(lf, "w") as f:
        subprocess.run(cmd + ["--only-codegen"], cwd=cr, stdout=f, stderr=subprocess.STDOUT, env=ENV_BASE)
    outs = sorted(Path(target).glob("kani/**/out/*%s.out" % h["name"]), key=lambda p: p.stat().st_mtime)
    if not outs:
        return []
    p = subprocess.run(["goto-instrument", "--show-loops", str(outs[-1])], stdout=subprocess.PIPE,
                       stderr=subprocess.DEVNULL, text=True)
    loops = []
    lines = p.stdout.splitlines()
    for i, ln in enumerate(lines):
        if ln.startswith("Loop ") and ln.rstrip().endswith(":"):
            label = ln[5:].rstrip()[:-1]
            where = lines[i + 1] if i + 1 < len(lines) else ""
            loops.append((label, where))
    sets = []
    for item in h["unwindset"].split("+"):
        pat, n = item.rsplit(":", 1)
        for label, where in loops:
            if pat in label or pat in where:
                sets.append("%s:%s" % (label, n))
    return ["--unwindset", ",".join(sets)] if sets else []


def shquote(s):
    return "'" + s.replace("'", "'\\''") + "'"


def classify(h, r):
    """Map a harness result to: pass | violation | inconclusive(reason)."""
    if r["status"] == "success":
        if any(c["status"] == "ERROR" for c in r["covers"]):
            return "inconclusive", "oom"
        bad = [c for c in r["covers"] if c["status"] != "SATISFIED"]
        if bad:
            return "inconclusive", "vacuous: cover not satisfied: " + "; ".join(c["desc"] for c in bad)
        return "pass", ""
    if r["status"] == "failed":
        fc = r["failed_checks"]
        unwind = [c for c in fc if "unwinding assertion" in c["desc"]]
        unsupported = [c for c in fc if "unsupported" in c["id"].lower() or "is not currently supported" in c["desc"]]
        real = [c for c in fc if c not in unwind and c not in unsupported and c["status"] == "FAILURE"]
        undet = [c for c in fc if c["status"] == "UNDETERMINED"]
        if real:
            return "violation", "; ".join("%s [%s]" % (c["desc"], c["loc"]) for c in real[:4])
        if unwind:
            return "inconclusive", "unwinding assertion failed (bound too small): " + unwind[0]["loc"]
        if unsupported:
            return "inconclusive", "unsupported construct reachable: " + unsupported[0]["desc"]
        if undet:
            return "inconclusive", "undetermined checks"
        return "inconclusive", "failed without failed check (cbmc error)"
    return "inconclusive", r["status"]


# ---------------------------------------------------------------------------------------------
# concrete playback


def extract_playback_tests(text):
    """All generated unit tests that belong to FAILED checks (Kani also prints one per satisfied
    cover; those pass natively by construction and must not be mistaken for the counterexample)."""
    blocks = re.findall(r"```\s*\n(.*?)```", text, re.S)
    out = []
    for b in blocks:
        m = re.search(r"/// Check for `([a-z_]+)`", b)
        kind = m.group(1) if m else "unknown"
        if kind == "cover":
            continue
        out.append(b)
    return out


def extract_playback_test(text):
    t = extract_playback_tests(text)
    return t[0] if t else None


def native_replay(h, overlay: Path, target: Path, logdir: Path, test_src: str, profile_release=False):
    """Insert the generated unit test into the overlay copy of the harness file and run it natively."""
    overlay = Path(h.get("overlay", str(overlay)))
    hfile = overlay / "crates" / h["crate"] / "src" / ("verif_h_" + h["file"].replace("/", "_"))
    orig = hfile.read_text()
    m = re.search(r"fn (kani_concrete_playback_[A-Za-z0-9_]+)", test_src)
    if not m:
        return None, "no test name"
    tname = m.group(1)
    if tname not in orig:
        hfile.write_text(orig + "\n" + test_src + "\n")
    cmd = ["cargo", "kani", "playback", "-Z", "concrete-playback"]
    if h["features"]:
        cmd += ["--features", h["features"]]
    if profile_release:
        cmd += ["--release"]
    cmd += ["--", tname]
    lf = logdir / (h["name"] + (".replay-release.log" if profile_release else ".replay.log"))
    env = dict(ENV_BASE)
    env["CARGO_TARGET_DIR"] = str(target) + "-playback"
    with open(lf, "w") as f:
        p = subprocess.run(cmd, cwd=overlay / "crates" / h["crate"], stdout=f, stderr=subprocess.STDOUT,
                           env=env, timeout=1800)
    text = lf.read_text(errors="replace")
    ran = re.search(r"test result: (\w+)\. (\d+) passed; (\d+) failed", text)
    if not ran:
        return None, "playback did not run (see %s)" % lf
    failed = int(ran.group(3)) > 0
    # a panic INSIDE the playback driver ("Not enough det vals found": the recorded values do not
    # drive the native run down the reported path) is not a reproduction of the counterexample
    if failed and re.search(r"panicked at [^\n]*concrete_playback\.rs", text):
        return False, "playback driver ran out of recorded values: the native run leaves the reported path (%s)" % lf
    return failed, str(lf)


# ---------------------------------------------------------------------------------------------


def load_known():
    p = VERIF / "known_findings.json"
    if not p.exists():
        return []
    return json.loads(p.read_text()).get("findings", [])


def main():
    ap = argparse.ArgumentParser()
    ap.add_argument("pid")
    ap.add_argument("--tier", default=os.environ.get("VERIF_TIER", "quick"), choices=["quick", "thorough"])
    ap.add_argument("--only", default=None)
    ap.add_argument("--jobs", type=int, default=int(os.environ.get("VERIF_JOBS", "0")))
    ap.add_argument("--keep", action="store_true")
    ap.add_argument("--no-evidence", action="store_true")
    ap.add_argument("--real-indexmap", action="store_true")
    args = ap.parse_args()
    pid = args.pid
    seed = int(os.environ.get("VERIF_SEED", "0") or 0)
    t_start = time.time()

    allh = discover()
    # tier=unshipped: instances that were measured and have no verdict within reach (kept in the harness
    # files with the measurement, run only when named with --only): never part of quick or thorough
    hs = [h for h in allh if pid in h["ids"] and (h["tier"] != "unshipped" or args.only)]
    if args.tier == "quick":
        hs = [h for h in hs if h["tier"] == "quick" or (h["tier"] == "unshipped" and args.only)]
    if args.only:
        hs = [h for h in hs if any(o in h["name"] for o in args.only.split(","))]
    if not hs:
        log("no harnesses for", pid)
        print("INCONCLUSIVE property=%s reason=no-harness" % pid)
        return 2
    # VERIF_SEED only permutes the scheduling order (nothing is sampled)
    import random
    rnd = random.Random(seed)
    hs.sort(key=lambda h: h["name"])
    if seed:
        rnd.shuffle(hs)

    scratch_base = Path(os.environ.get("VERIF_SCRATCH", "/var/tmp"))
    overlay = scratch_base / ("turmoil-verif.%s.%d" % (pid, os.getpid()))
    logdir = VERIF / "logs" / pid
    logdir.mkdir(parents=True, exist_ok=True)

    # one overlay workspace per dependency regime: crates/turmoil is built against the tokio MODEL
    # (DESIGN.md 2.7 rung 6), the other crates against the real tokio
    groups = {}
    for h in hs:
        g = "core" if h["crate"] == "turmoil" else ("fsm" if h["crate"] == "turmoil-fs" else "leaf")
        groups.setdefault(g, []).append(h)
        h["overlay"] = str(overlay / g)
    try:
        # /repo is read exactly once, here, under a lock: a seeded-change run (bin/vseed) patches
        # /repo only for the duration of this copy
        import fcntl
        lockf = None
        if not os.environ.get("VERIF_LOCK_HELD"):
            lockf = open("/var/tmp/turmoil-verif.repo.lock", "w")
            fcntl.flock(lockf, fcntl.LOCK_EX)
        try:
            for g, ghs in groups.items():
                members = set(x["crate"] for x in ghs)
                if g == "leaf" and "turmoil-io-uring" in members:
                    members.add("turmoil-fs")
                make_overlay(overlay / g, sorted(members), use_real_indexmap=args.real_indexmap,
                             tokio_model=(g == "core" and tokio_model_needed("turmoil")),
                             path_model=(g == "fsm" or (g == "leaf" and "turmoil-io-uring" in members)))
        finally:
            if lockf:
                fcntl.flock(lockf, fcntl.LOCK_UN)
                lockf.close()
            if os.environ.get("VERIF_COPIED_FLAG"):
                Path(os.environ["VERIF_COPIED_FLAG"]).write_text("copied")
        results = run_all(hs, overlay, logdir, args)
        rc = report(pid, args, hs, results, overlay, logdir, seed, t_start)
    finally:
        if not args.keep:
            shutil.rmtree(overlay, ignore_errors=True)
    return rc


def default_timeout(h, tier):
    if h["timeout"]:
        return h["timeout"]
    return 300 if tier == "quick" else 1800


def run_all(hs, overlay, logdir, args):
    ncpu = os.cpu_count() or 4
    jobs = args.jobs or min(len(hs), ncpu)
    # memory budget: sum of per-harness caps must stay below ~52 GB
    results = {}
    lock = threading.Lock()
    queue = list(hs)
    mem_budget = [52]
    cond = threading.Condition(lock)

    # warm one base target per (crate, features) and clone it for the slots
    bases = {}
    for h in hs:
        key = (h["crate"], h["features"])
        if key in bases:
            continue
        base = CACHE / ("target-%s-%s" % (h["crate"], re.sub(r"[^a-z0-9]", "_", h["features"]) or "default"))
        bases[key] = base if base.exists() else None

    def worker(idx):
        targets = {}
        while True:
            with cond:
                if not queue:
                    return
                # pick first harness that fits in the memory budget
                pick = None
                for i, h in enumerate(queue):
                    need = h["mem_gb"] or 8
                    if need <= mem_budget[0]:
                        pick = i
                        break
                if pick is None:
                    cond.wait(timeout=5)
                    continue
                h = queue.pop(pick)
                need = h["mem_gb"] or 8
                mem_budget[0] -= need
            key = (h["crate"], h["features"])
            if key not in targets:
                t = overlay / ("target-%d-%s" % (idx, re.sub(r"[^a-z0-9]", "_", "-".join(key))))
                if bases.get(key) is not None and not t.exists():
                    subprocess.run(["cp", "-a", "--reflink=auto", str(bases[key]), str(t)], check=False)
                targets[key] = t
            try:
                r = run_harness(h, overlay, targets[key], logdir, default_timeout(h, args.tier), need)
            except Exception as e:  # noqa
                r = {"status": "error", "error": repr(e), "failed_checks": [], "covers": [], "stubs": [],
                     "wall_s": 0, "symex_s": 0, "solver_s": 0, "steps": 0, "vars": 0, "clauses": 0,
                     "vccs": 0, "vccs_remaining": 0, "solver_calls": 0, "log": ""}
            r["target"] = str(targets[key])
            with cond:
                results[h["name"]] = r
                mem_budget[0] += need
                cond.notify_all()
            verdict, why = classify(h, r)
            log("[%s] %-55s %-12s %6.1fs symex=%.1fs solver=%.1fs vars=%d %s" % (
                time.strftime("%H:%M:%S"), h["name"], verdict, r.get("wall_s", 0), r.get("symex_s", 0),
                r.get("solver_s", 0), r.get("vars", 0), why[:200]))

    threads = [threading.Thread(target=worker, args=(i,)) for i in range(jobs)]
    for t in threads:
        t.start()
    for t in threads:
        t.join()
    return results


def finding_matches(k, pid, h, why):
    if k.get("status", "open") != "open":
        return False
    if k.get("property") != pid:
        return False
    if k.get("harness") and k["harness"] != h["name"] and k.get("role") != h["role"]:
        return False
    pat = k.get("assert_pattern")
    if pat and not re.search(pat, why):
        return False
    return True


def report(pid, args, hs, results, overlay, logdir, seed, t_start):
    known = load_known()
    violations = []
    known_hits = []
    inconclusive = []
    passes = []
    for h in hs:
        r = results.get(h["name"])
        if r is None:
            inconclusive.append((h, "not run"))
            continue
        verdict, why = classify(h, r)
        r["verdict"] = verdict
        r["why"] = why
        if verdict == "pass":
            passes.append(h)
        elif verdict == "inconclusive":
            inconclusive.append((h, why))
        else:
            # counterexample: replay natively before reporting
            rep = replay_violation(pid, h, r, overlay, logdir, args)
            r["replay"] = rep
            k = [k for k in known if finding_matches(k, pid, h, why)]
            if rep["reproduced"] is False:
                inconclusive.append((h, "counterexample did not reproduce natively (%s)" % rep.get("detail", "")))
            elif k:
                known_hits.append((h, k[0], why))
            else:
                violations.append((h, why, rep))

    info = PROPERTY_INFO.get(pid, {})
    stubs_seen = sorted(set(s for r in results.values() for s in r.get("stubs", [])))
    samples = []
    for h in hs:
        r = results.get(h["name"], {})
        samples.append({
            "harness": h["full"], "crate": h["crate"], "anchor": h["anchor"], "role": h["role"],
            "desc": h["desc"], "verdict": r.get("verdict"), "why": r.get("why", "")[:300],
            "wall_s": r.get("wall_s"), "symex_s": r.get("symex_s"), "solver_s": round(r.get("solver_s", 0), 3),
            "solver_calls": r.get("solver_calls"), "program_steps": r.get("steps"),
            "vccs": r.get("vccs"), "vccs_after_simplification": r.get("vccs_remaining"),
            "sat_variables": r.get("vars"), "sat_clauses": r.get("clauses"),
            "cover_witnesses": [{"desc": c["desc"], "status": c["status"]} for c in r.get("covers", [])],
        })
    n_nontrivial = sum(1 for h in passes if all(c["status"] == "SATISFIED" for c in results[h["name"]]["covers"])
                       and results[h["name"]]["covers"])
    ev = {
        "property_id": pid,
        "tier": args.tier,
        "seed": seed,
        "level": "model_checking",
        "coverage": {
            "evaluations": len(results),
            "distinct_nontrivial": n_nontrivial,
            "rule": ("one evaluation = one #[kani::proof] harness of the real code decided by CBMC/CaDiCaL for all values "
                     "of its symbolic inputs within its unwind bound; a harness counts as non-trivial when it verified "
                     "AND every kani::cover! reachability witness inside it was SATISFIED (so the assertion is reached "
                     "on a non-trivial path); harness names are distinct. " + info.get("bounds", "")),
            "samples": samples,
            "obligations": len(hs),
            "discharged": len(passes),
            "checker_cmd": "cargo kani -Z stubbing --harness <h> --exact (Kani 0.68.0, CBMC 6.11.0, CaDiCaL)",
            "functions_encoded": info.get("functions", []),
            "bounds": info.get("bounds", ""),
            "outside_claim": info.get("outside", ""),
            "stubs_in_force": stubs_seen,
            "solver_time_s": round(sum(r.get("solver_s", 0) for r in results.values()), 3),
            "symex_time_s": round(sum(r.get("symex_s", 0) for r in results.values()), 3),
            "solver_queries": sum(r.get("solver_calls", 0) for r in results.values()),
            "trusted_base": ["Kani 0.68.0 / CBMC 6.11.0 / CaDiCaL", "rustc MIR of the overlay build (dev profile)",
                             "dependency models in /verif/models (indexmap, tracing, rand_distr" +
                             (", bytes" if (VERIF / "models" / "bytes").exists() else "") + ")",
                             "reference predicates written in the harnesses"],
            "exhaustive": False,
            "known_findings_reported": [k["id"] for _, k, _ in known_hits],
            "inconclusive": [{"harness": h["name"], "reason": why[:300]} for h, why in inconclusive],
        },
        "assumptions": info.get("assumptions", []),
        "wall_s": round(time.time() - t_start, 2),
        "violations": len(violations),
    }
    if not args.no_evidence and not args.only:
        (VERIF / "evidence").mkdir(exist_ok=True)
        (VERIF / "evidence" / (pid + ".json")).write_text(json.dumps(ev, indent=1))

    for h, k, why in known_hits:
        print("KNOWN-FINDING: property=%s %s (harness %s)" % (pid, k["what"], h["name"]))
    # a listed open finding that no longer shows up is worth a note (not an error)
    for k in known:
        if k.get("property") == pid and k.get("status", "open") == "open":
            if not any(kk is k for _, kk, _ in known_hits) and any(
                    (k.get("harness") == h["name"] or k.get("role") == h["role"]) for h in hs):
                log("note: known finding %s was not observed in this run" % k["id"])
    rc = 0
    for h, why, rep in violations:
        print("VIOLATION property=%s replay=%s" % (pid, rep.get("path", "")))
        log("  harness %s: %s" % (h["name"], why))
        rc = 1
    if rc == 0 and inconclusive:
        for h, why in inconclusive:
            print("INCONCLUSIVE property=%s harness=%s reason=%s" % (pid, h["name"], why[:300].replace("\n", " ")))
        rc = 2
    log("%s %s: %d harnesses, %d pass, %d violation, %d known, %d inconclusive, %.0fs" % (
        pid, args.tier, len(hs), len(passes), len(violations), len(known_hits), len(inconclusive),
        time.time() - t_start))
    return rc


def replay_violation(pid, h, r, overlay, logdir, args):
    """Concrete playback: generate the unit test, store it, run it natively (dev + release)."""
    rep = {"reproduced": None, "path": "", "detail": ""}
    rdir = VERIF / "replays" / pid
    rdir.mkdir(parents=True, exist_ok=True)
    target = Path(r.get("target", str(overlay / "target-replay")))
    try:
        pr = run_harness(h, overlay, target, logdir, default_timeout(h, args.tier) * 2, h["mem_gb"] or 10,
                         playback=True)
        text = Path(pr["log"]).read_text(errors="replace")
        tests = extract_playback_tests(text)
        test_src = "\n".join(tests) if tests else None
        rpath = rdir / (h["name"] + ".rs")
        hdr = ("// Counterexample found by Kani for harness %s (property %s).\n// Failing checks: %s\n"
               "// Replay: %s/bin/vreplay %s %s\n" % (h["full"], pid, r.get("why", "")[:500].replace("\n", " "),
                                                  VERIF, pid, h["name"]))
        if not test_src:
            rpath.write_text(hdr + "// (Kani produced no concrete playback test; see log)\n")
            rep["path"] = str(rpath)
            rep["detail"] = "no playback test generated"
            # keep None: cannot replay (e.g. the failing check is in a cover or non-det free path)
            return rep
        rpath.write_text(hdr + test_src)
        rep["path"] = str(rpath)
        # one generated test per failed check: the counterexample reproduces if any of them fails natively
        failed = None
        for t in tests[:4]:
            f1, detail = native_replay(h, overlay, target, logdir, t)
            rep["detail"] = detail
            if f1:
                failed = True
                f2, d2 = native_replay(h, overlay, target, logdir, t, profile_release=True)
                rep["release_reproduced"] = f2
                break
            if f1 is False and failed is None:
                failed = False
        rep["reproduced"] = failed
    except Exception as e:  # noqa
        rep["detail"] = "replay machinery error: %r" % (e,)
    return rep


if __name__ == "__main__":
    sys.exit(main())
