#!/usr/bin/env python3
"""Run native end-to-end witnesses (plain #[test]s, public API, REAL dependencies) against a scratch
copy of /repo's working tree. Exit 0: witness passed (no symptom). Exit 1: witness failed (symptom
shown). Exit 2: could not run."""
import os, re, shutil, subprocess, sys
from pathlib import Path

VERIF = Path(os.environ.get("VERIF_ROOT", "/verif"))
REPO = Path(os.environ.get("VERIF_REPO", "/repo"))

FEATURES = {"turmoil": "unstable-fs,unstable-io_uring,unstable-barriers"}


def run_witness(crate, name, keep=False, scratch=None, timeout=1200):
    scratch = Path(scratch or os.environ.get("VERIF_SCRATCH", "/var/tmp")) / ("turmoil-witness.%d" % os.getpid())
    if scratch.exists():
        shutil.rmtree(scratch)
    (scratch).mkdir(parents=True)
    try:
        subprocess.run(["rsync", "-a", "--exclude", "target", str(REPO / "crates"), str(scratch)], check=True)
        shutil.copy(REPO / "Cargo.lock", scratch / "Cargo.lock")
        (scratch / "Cargo.toml").write_text('[workspace]\nresolver = "2"\nmembers = ["crates/*"]\n')
        (scratch / ".cargo").mkdir()
        (scratch / ".cargo" / "config.toml").write_text(
            '[net]\noffline = true\n[build]\nrustflags = ["--cfg", "tokio_unstable"]\n')
        wdir = VERIF / "witness" / crate
        internal = False
        for f in wdir.glob("*.rs"):
            if f.name.startswith("internal__"):
                # crate-internal witness: #[cfg(test)] child module of the named source file
                rel = f.name[len("internal__"):-3].replace("__", "/") + ".rs"
                dst = scratch / "crates" / crate / "src" / ("verif_witness_" + f.name)
                shutil.copy(f, dst)
                with open(scratch / "crates" / crate / "src" / rel, "a") as fh:
                    fh.write("\n#[cfg(test)] #[path = \"%s\"] mod verif_witness_internal;\n" % dst)
                if name in f.read_text():
                    internal = True
            else:
                (scratch / "crates" / crate / "tests").mkdir(exist_ok=True)
                shutil.copy(f, scratch / "crates" / crate / "tests" / f.name)
        env = dict(os.environ)
        env["CARGO_NET_OFFLINE"] = "true"
        # share one target dir across witness runs (plain native build; much faster the second time)
        env["CARGO_TARGET_DIR"] = str(VERIF / ".cache" / "witness-target")
        if internal:
            cmd = ["cargo", "test", "--offline", "-p", crate, "--lib"]
            if FEATURES.get(crate):
                cmd += ["--features", FEATURES[crate]]
            cmd += ["--", name, "--test-threads", "1"]
        else:
            cmd = ["cargo", "test", "--offline", "-p", crate, "--test", "verif_witness"]
            if FEATURES.get(crate):
                cmd += ["--features", FEATURES[crate]]
            cmd += ["--", "--exact", name, "--test-threads", "1"]
        p = subprocess.run(cmd, cwd=scratch, env=env, stdout=subprocess.PIPE, stderr=subprocess.STDOUT,
                           timeout=timeout, text=True)
        out = p.stdout
        m = re.search(r"test result: \w+\. (\d+) passed; (\d+) failed", out)
        if not m or (int(m.group(1)) + int(m.group(2))) == 0:
            return 2, out
        return (0 if int(m.group(2)) == 0 else 1), out
    finally:
        if not keep:
            shutil.rmtree(scratch, ignore_errors=True)


if __name__ == "__main__":
    rc, out = run_witness(sys.argv[1], sys.argv[2])
    sys.stdout.write(out[-3000:])
    print("witness %s::%s -> %s" % (sys.argv[1], sys.argv[2], {0: "PASS (no symptom)", 1: "FAIL (symptom shown)", 2: "could not run"}[rc]))
    sys.exit(rc)
