#[cfg(feature = "std")]
use crate::buf::{reader, Reader};
use crate::buf::{take, Chain, Take};
#[cfg(feature = "std")]
use crate::{min_u64_usize, saturating_sub_usize_u64};
use crate::{panic_advance, panic_does_not_fit, TryGetError};

#[cfg(feature = "std")]
use std::io::IoSlice;

use alloc::boxed::Box;

macro_rules! buf_try_get_impl {
    ($this:ident, $typ:tt::$conv:tt) => {{
        const SIZE: usize = core::mem::size_of::<$typ>();

        if $this.remaining() < SIZE {
            return Err(TryGetError {
                requested: SIZE,
                available: $this.remaining(),
            });
        }

        // try to convert directly from the bytes
        // this Option<ret> trick is to avoid keeping a borrow on self
        // when advance() is called (mut borrow) and to call bytes() only once
        let ret = $this
            .chunk()
            .get(..SIZE)
            .map(|src| unsafe { $typ::$conv(*(src as *const _ as *const [_; SIZE])) });

        if let Some(ret) = ret {
            // if the direct conversion was possible, advance and return
            $this.advance(SIZE);
            return Ok(ret);
        } else {
            // if not we copy the bytes in a temp buffer then convert
            let mut buf = [0; SIZE];
            $this.copy_to_slice(&mut buf); // (do the advance)
            return Ok($typ::$conv(buf));
        }
    }};
    (le => $this:ident, $typ:tt, $len_to_read:expr) => {{
        const SIZE: usize = core::mem::size_of::<$typ>();

        // The same trick as above does not improve the best case speed.
        // It seems to be linked to the way the method is optimised by the compiler
        let mut buf = [0; SIZE];

        let subslice = match buf.get_mut(..$len_to_read) {
            Some(subslice) => subslice,
            None => panic_does_not_fit(SIZE, $len_to_read),
        };

        $this.try_copy_to_slice(subslice)?;
        return Ok($typ::from_le_bytes(buf));
    }};
    (be => $this:ident, $typ:tt, $len_to_read:expr) => {{
        const SIZE: usize = core::mem::size_of::<$typ>();

        let slice_at = match SIZE.checked_sub($len_to_read) {
            Some(slice_at) => slice_at,
            None => panic_does_not_fit(SIZE, $len_to_read),
        };

        let mut buf = [0; SIZE];
        $this.try_copy_to_slice(&mut buf[slice_at..])?;
        return Ok($typ::from_be_bytes(buf));
    }};
}

macro_rules! buf_get_impl {
    ($this:ident, $typ:tt::$conv:tt) => {{
        return (|| buf_try_get_impl!($this, $typ::$conv))()
            .unwrap_or_else(|error| panic_advance(&error));
    }};
    (le => $this:ident, $typ:tt, $len_to_read:expr) => {{
        return (|| buf_try_get_impl!(le => $this, $typ, $len_to_read))()
            .unwrap_or_else(|error| panic_advance(&error));
    }};
    (be => $this:ident, $typ:tt, $len_to_read:expr) => {{
        return (|| buf_try_get_impl!(be => $this, $typ, $len_to_read))()
            .unwrap_or_else(|error| panic_advance(&error));
    }};
}

// https://en.wikipedia.org/wiki/Sign_extension
fn sign_extend(val: u64, nbytes: usize) -> i64 {
    if nbytes == 0 {
        // avoid `val << 64` panic
        0
    } else {
        let shift = (8 - nbytes) * 8;
        (val << shift) as i64 >> shift
    }
}

/// Read bytes from a buffer.
///
/// A buffer stores bytes in memory such that read operations are infallible.
/// The underlying storage may or may not be in contiguous memory. A `Buf` value
/// is a cursor into the buffer. Reading from `Buf` advances the cursor
/// position. It can be thought of as an efficient `Iterator` for collections of
/// bytes.
///
/// The simplest `Buf` is a `&[u8]`.
///
/// ```
/// use bytes::Buf;
///
/// let mut buf = &b"hello world"[..];
///
/// assert_eq!(b'h', buf.get_u8());
/// assert_eq!(b'e', buf.get_u8());
/// assert_eq!(b'l', buf.get_u8());
///
/// let mut rest = [0; 8];
/// buf.copy_to_slice(&mut rest);
///
/// assert_eq!(&rest[..], &b"lo world"[..]);
/// ```
pub trait Buf {
    /// Returns the number of bytes between the current position and the end of
    /// the buffer.
    ///
    /// This value is greater than or equal to the length of the slice returned
    /// by `chunk()`.
    ///
    /// # Examples
    ///
    /// ```
    /// use bytes::Buf;
    ///
    /// let mut buf = &b"hello world"[..];
    ///
    /// assert_eq!(buf.remaining(), 11);
    ///
    /// buf.get_u8();
    ///
    /// assert_eq!(buf.remaining(), 10);
    /// ```
    ///
    /// # Implementer notes
    ///
    /// Implementations of `remaining` should ensure that the return value does
    /// not change unless a call is made to `advance` or any other function that
    /// is documented to change the `Buf`'s current position.
    fn remaining(&self) -> usize;

    /// Returns a slice starting at the current position and of length between 0
    /// and `Buf::remaining()`. Note that this *can* return a shorter slice (this
    /// allows non-continuous internal representation).
    ///
    /// This is a lower level function. Most operations are done with other
    /// functions.
    ///
    /// # Examples
    ///
    /// ```
    /// use bytes::Buf;
    ///
    /// let mut buf = &b"hello world"[..];
    ///
    /// assert_eq!(buf.chunk(), &b"hello world"[..]);
    ///
    /// buf.advance(6);
    ///
    /// assert_eq!(buf.chunk(), &b"world"[..]);
    /// ```
    ///
    /// # Implementer notes
    ///
    /// This function should never panic. `chunk()` should return an empty
    /// slice **if and only if** `remaining()` returns 0. In other words,
    /// `chunk()` returning an empty slice implies that `remaining()` will
    /// return 0 and `remaining()` returning 0 implies that `chunk()` will
    /// return an empty slice.
    // The `chunk` method was previously called `bytes`. This alias makes the rename
    // more easily discoverable.
    #[cfg_attr(docsrs, doc(alias = "bytes"))]
    fn chunk(&self) -> &[u8];

    /// Fills `dst` with potentially multiple slices starting at `self`'s
    /// current position.
    ///
    /// If the `Buf` is backed by disjoint slices of bytes, `chunk_vectored` enables
    /// fetching more than one slice at once. `dst` is a slice of `IoSlice`
    /// references, enabling the slice to be directly used with [`writev`]
    /// without any further conversion. The sum of the lengths of all the
    /// buffers written to `dst` will be less than or equal to `Buf::remaining()`.
    ///
    /// The entries in `dst` will be overwritten, but the data **contained** by
    /// the slices **will not** be modified. The return value is the number of
    /// slices written to `dst`. If `Buf::remaining()` is non-zero, then this
    /// writes at least one non-empty slice to `dst`.
    ///
    /// This is a lower level function. Most operations are done with other
    /// functions.
    ///
    /// # Implementer notes
    ///
    /// This function should never panic. Once the end of the buffer is reached,
    /// i.e., `Buf::remaining` returns 0, calls to `chunk_vectored` must return 0
    /// without mutating `dst`.
    ///
    /// Implementations should also take care to properly handle being called
    /// with `dst` being a zero length slice.
    ///
    /// [`writev`]: http://man7.org/linux/man-pages/man2/readv.2.html
    #[cfg(feature = "std")]
    #[cfg_attr(docsrs, doc(cfg(feature = "std")))]
    fn chunks_vectored<'a>(&'a self, dst: &mut [IoSlice<'a>]) -> usize {
        if dst.is_empty() {
            return 0;
        }

        if self.has_remaining() {
            dst[0] = IoSlice::new(self.chunk());
            1
        } else {
            0
        }
    }

    /// Advance the internal cursor of the Buf
    ///
    /// The next call to `chunk()` will return a slice starting `cnt` bytes
    /// further into the underlying buffer.
    ///
    /// # Examples
    ///
    /// ```
    /// use bytes::Buf;
    ///
    /// let mut buf = &b"hello world"[..];
    ///
    /// assert_eq!(buf.chunk(), &b"hello world"[..]);
    ///
    /// buf.advance(6);
    ///
    /// assert_eq!(buf.chunk(), &b"world"[..]);
    /// ```
    ///
    /// # Panics
    ///
    /// This function **may** panic if `cnt > self.remaining()`.
    ///
    /// # Implementer notes
    ///
    /// It is recommended for implementations of `advance` to panic if `cnt >
    /// self.remaining()`. If the implementation does not panic, the call must
    /// behave as if `cnt == self.remaining()`.
    ///
    /// A call with `cnt == 0` should never panic and be a no-op.
    fn advance(&mut self, cnt: usize);

    /// Returns true if there are any more bytes to consume
    ///
    /// This is equivalent to `self.remaining() != 0`.
    ///
    /// # Examples
    ///
    /// ```
    /// use bytes::Buf;
    ///
    /// let mut buf = &b"a"[..];
    ///
    /// assert!(buf.has_remaining());
    ///
    /// buf.get_u8();
    ///
    /// assert!(!buf.has_remaining());
    /// ```
    fn has_remaining(&self) -> bool {
        self.remaining() > 0
    }

    /// Copies bytes from `self` into `dst`.
    ///
    /// The cursor is advanced by the number of bytes copied. `self` must have
    /// enough remaining bytes to fill `dst`.
    ///
    /// # Examples
    ///
    /// ```
    /// use bytes::Buf;
    ///
    /// let mut buf = &b"hello world"[..];
    /// let mut dst = [0; 5];
    ///
    /// buf.copy_to_slice(&mut dst);
    /// assert_eq!(&b"hello"[..], &dst);
    /// assert_eq!(6, buf.remaining());
    /// ```
    ///
    /// # Panics
    ///
    /// This function panics if `self.remaining() < dst.len()`.
    fn copy_to_slice(&mut self, dst: &mut [u8]) {
        self.try_copy_to_slice(dst)
            .unwrap_or_else(|error| panic_advance(&error));
    }

    /// Gets an unsigned 8 bit integer from `self`.
    ///
    /// The current position is advanced by 1.
    ///
    /// # Examples
    ///
    /// ```
    /// use bytes::Buf;
    ///
    /// let mut buf = &b"\x08 hello"[..];
    /// assert_eq!(8, buf.get_u8());
    /// ```
    ///
    /// # Panics
    ///
    /// This function panics if there is no more remaining data in `self`.
    fn get_u8(&mut self) -> u8 {
        if self.remaining() < 1 {
            panic_advance(&TryGetError {
                requested: 1,
                available: 0,
            })
        }
        let ret = self.chunk()[0];
        self.advance(1);
        ret
    }

    /// Gets a signed 8 bit integer from `self`.
    ///
    /// The current position is advanced by 1.
    ///
    /// # Examples
    ///
    /// ```
    /// use bytes::Buf;
    ///
    /// let mut buf = &b"\x08 hello"[..];
    /// assert_eq!(8, buf.get_i8());
    /// ```
    ///
    /// # Panics
    ///
    /// This function panics if there is no more remaining data in `self`.
    fn get_i8(&mut self) -> i8 {
        if self.remaining() < 1 {
            panic_advance(&TryGetError {
                requested: 1,
                available: 0,
            });
        }
        let ret = self.chunk()[0] as i8;
        self.advance(1);
        ret
    }

    /// Gets an unsigned 16 bit integer from `self` in big-endian byte order.
    ///
    /// The current position is advanced by 2.
    ///
    /// # Examples
    ///
    /// ```
    /// use bytes::Buf;
    ///
    /// let mut buf = &b"\x08\x09 hello"[..];
    /// assert_eq!(0x0809, buf.get_u16());
    /// ```
    ///
    /// # Panics
    ///
    /// This function panics if there is not enough remaining data in `self`.
    fn get_u16(&mut self) -> u16 {
        buf_get_impl!(self, u16::from_be_bytes);
    }

    /// Gets an unsigned 16 bit integer from `self` in little-endian byte order.
    ///
    /// The current position is advanced by 2.
    ///
    /// # Examples
    ///
    /// ```
    /// use bytes::Buf;
    ///
    /// let mut buf = &b"\x09\x08 hello"[..];
    /// assert_eq!(0x0809, buf.get_u16_le());
    /// ```
    ///
    /// # Panics
    ///
    /// This function panics if there is not enough remaining data in `self`.
    fn get_u16_le(&mut self) -> u16 {
        buf_get_impl!(self, u16::from_le_bytes);
    }

    /// Gets an unsigned 16 bit integer from `self` in native-endian byte order.
    ///
    /// The current position is advanced by 2.
    ///
    /// # Examples
    ///
    /// ```
    /// use bytes::Buf;
    ///
    /// let mut buf: &[u8] = match cfg!(target_endian = "big") {
    ///     true => b"\x08\x09 hello",
    ///     false => b"\x09\x08 hello",
    /// };
    /// assert_eq!(0x0809, buf.get_u16_ne());
    /// ```
    ///
    /// # Panics
    ///
    /// This function panics if there is not enough remaining data in `self`.
    fn get_u16_ne(&mut self) -> u16 {
        buf_get_impl!(self, u16::from_ne_bytes);
    }

    /// Gets a signed 16 bit integer from `self` in big-endian byte order.
    ///
    /// The current position is advanced by 2.
    ///
    /// # Examples
    ///
    /// ```
    /// use bytes::Buf;
    ///
    /// let mut buf = &b"\x08\x09 hello"[..];
    /// assert_eq!(0x0809, buf.get_i16());
    /// ```
    ///
    /// # Panics
    ///
    /// This function panics if there is not enough remaining data in `self`.
    fn get_i16(&mut self) -> i16 {
        buf_get_impl!(self, i16::from_be_bytes);
    }

    /// Gets a signed 16 bit integer from `self` in little-endian byte order.
    ///
    /// The current position is advanced by 2.
    ///
    /// # Examples
    ///
    /// ```
    /// use bytes::Buf;
    ///
    /// let mut buf = &b"\x09\x08 hello"[..];
    /// assert_eq!(0x0809, buf.get_i16_le());
    /// ```
    ///
    /// # Panics
    ///
    /// This function panics if there is not enough remaining data in `self`.
    fn get_i16_le(&mut self) -> i16 {
        buf_get_impl!(self, i16::from_le_bytes);
    }

    /// Gets a signed 16 bit integer from `self` in native-endian byte order.
    ///
    /// The current position is advanced by 2.
    ///
    /// # Examples
    ///
    /// ```
    /// use bytes::Buf;
    ///
    /// let mut buf: &[u8] = match cfg!(target_endian = "big") {
    ///     true => b"\x08\x09 hello",
    ///     false => b"\x09\x08 hello",
    /// };
    /// assert_eq!(0x0809, buf.get_i16_ne());
    /// ```
    ///
    /// # Panics
    ///
    /// This function panics if there is not enough remaining data in `self`.
    fn get_i16_ne(&mut self) -> i16 {
        buf_get_impl!(self, i16::from_ne_bytes);
    }

    /// Gets an unsigned 32 bit integer from `self` in the big-endian byte order.
    ///
    /// The current position is advanced by 4.
    ///
    /// # Examples
    ///
    /// ```
    /// use bytes::Buf;
    ///
    /// let mut buf = &b"\x08\x09\xA0\xA1 hello"[..];
    /// assert_eq!(0x0809A0A1, buf.get_u32());
    /// ```
    ///
    /// # Panics
    ///
    /// This function panics if there is not enough remaining data in `self`.
    fn get_u32(&mut self) -> u32 {
        buf_get_impl!(self, u32::from_be_bytes);
    }

    /// Gets an unsigned 32 bit integer from `self` in the little-endian byte order.
    ///
    /// The current position is advanced by 4.
    ///
    /// # Examples
    ///
    /// ```
    /// use bytes::Buf;
    ///
    /// let mut buf = &b"\xA1\xA0\x09\x08 hello"[..];
    /// assert_eq!(0x0809A0A1, buf.get_u32_le());
    /// ```
    ///
    /// # Panics
    ///
    /// This function panics if there is not enough remaining data in `self`.
    fn get_u32_le(&mut self) -> u32 {
        buf_get_impl!(self, u32::from_le_bytes);
    }

    /// Gets an unsigned 32 bit integer from `self` in native-endian byte order.
    ///
    /// The current position is advanced by 4.
    ///
    /// # Examples
    ///
    /// ```
    /// use bytes::Buf;
    ///
    /// let mut buf: &[u8] = match cfg!(target_endian = "big") {
    ///     true => b"\x08\x09\xA0\xA1 hello",
    ///     false => b"\xA1\xA0\x09\x08 hello",
    /// };
    /// assert_eq!(0x0809A0A1, buf.get_u32_ne());
    /// ```
    ///
    /// # Panics
    ///
    /// This function panics if there is not enough remaining data in `self`.
    fn get_u32_ne(&mut self) -> u32 {
        buf_get_impl!(self, u32::from_ne_bytes);
    }

    /// Gets a signed 32 bit integer from `self` in big-endian byte order.
    ///
    /// The current position is advanced by 4.
    ///
    /// # Examples
    ///
    /// ```
    /// use bytes::Buf;
    ///
    /// let mut buf = &b"\x08\x09\xA0\xA1 hello"[..];
    /// assert_eq!(0x0809A0A1, buf.get_i32());
    /// ```
    ///
    /// # Panics
    ///
    /// This function panics if there is not enough remaining data in `self`.
    fn get_i32(&mut self) -> i32 {
        buf_get_impl!(self, i32::from_be_bytes);
    }

    /// Gets a signed 32 bit integer from `self` in little-endian byte order.
    ///
    /// The current position is advanced by 4.
    ///
    /// # Examples
    ///
    /// ```
    /// use bytes::Buf;
    ///
    /// let mut buf = &b"\xA1\xA0\x09\x08 hello"[..];
    /// assert_eq!(0x0809A0A1, buf.get_i32_le());
    /// ```
    ///
    /// # Panics
    ///
    /// This function panics if there is not enough remaining data in `self`.
    fn get_i32_le(&mut self) -> i32 {
        buf_get_impl!(self, i32::from_le_bytes);
    }

    /// Gets a signed 32 bit integer from `self` in native-endian byte order.
    ///
    /// The current position is advanced by 4.
    ///
    /// # Examples
    ///
    /// ```
    /// use bytes::Buf;
    ///
    /// let mut buf: &[u8] = match cfg!(target_endian = "big") {
    ///     true => b"\x08\x09\xA0\xA1 hello",
    ///     false => b"\xA1\xA0\x09\x08 hello",
    /// };
    /// assert_eq!(0x0809A0A1, buf.get_i32_ne());
    /// ```
    ///
    /// # Panics
    ///
    /// This function panics if there is not enough remaining data in `self`.
    fn get_i32_ne(&mut self) -> i32 {
        buf_get_impl!(self, i32::from_ne_bytes);
    }

    /// Gets an unsigned 64 bit integer from `self` in big-endian byte order.
    ///
    /// The current position is advanced by 8.
    ///
    /// # Examples
    ///
    /// ```
    /// use bytes::Buf;
    ///
    /// let mut buf = &b"\x01\x02\x03\x04\x05\x06\x07\x08 hello"[..];
    /// assert_eq!(0x0102030405060708, buf.get_u64());
    /// ```
    ///
    /// # Panics
    ///
    /// This function panics if there is not enough remaining data in `self`.
    fn get_u64(&mut self) -> u64 {
        buf_get_impl!(self, u64::from_be_bytes);
    }

    /// Gets an unsigned 64 bit integer from `self` in little-endian byte order.
    ///
    /// The current position is advanced by 8.
    ///
    /// # Examples
    ///
    /// ```
    /// use bytes::Buf;
    ///
    /// let mut buf = &b"\x08\x07\x06\x05\x04\x03\x02\x01 hello"[..];
    /// assert_eq!(0x0102030405060708, buf.get_u64_le());
    /// ```
    ///
    /// # Panics
    ///
    /// This function panics if there is not enough remaining data in `self`.
    fn get_u64_le(&mut self) -> u64 {
        buf_get_impl!(self, u64::from_le_bytes);
    }

    /// Gets an unsigned 64 bit integer from `self` in native-endian byte order.
    ///
    /// The current position is advanced by 8.
    ///
    /// # Examples
    ///
    /// ```
    /// use bytes::Buf;
    ///
    /// let mut buf: &[u8] = match cfg!(target_endian = "big") {
    ///     true => b"\x01\x02\x03\x04\x05\x06\x07\x08 hello",
    ///     false => b"\x08\x07\x06\x05\x04\x03\x02\x01 hello",
    /// };
    /// assert_eq!(0x0102030405060708, buf.get_u64_ne());
    /// ```
    ///
    /// # Panics
    ///
    /// This function panics if there is not enough remaining data in `self`.
    fn get_u64_ne(&mut self) -> u64 {
        buf_get_impl!(self, u64::from_ne_bytes);
    }

    /// Gets a signed 64 bit integer from `self` in big-endian byte order.
    ///
    /// The current position is advanced by 8.
    ///
    /// # Examples
    ///
    /// ```
    /// use bytes::Buf;
    ///
    /// let mut buf = &b"\x01\x02\x03\x04\x05\x06\x07\x08 hello"[..];
    /// assert_eq!(0x0102030405060708, buf.get_i64());
    /// ```
    ///
    /// # Panics
    ///
    /// This function panics if there is not enough remaining data in `self`.
    fn get_i64(&mut self) -> i64 {
        buf_get_impl!(self, i64::from_be_bytes);
    }

    /// Gets a signed 64 bit integer from `self` in little-endian byte order.
    ///
    /// The current position is advanced by 8.
    ///
    /// # Examples
    ///
    /// ```
    /// use bytes::Buf;
    ///
    /// let mut buf = &b"\x08\x07\x06\x05\x04\x03\x02\x01 hello"[..];
    /// assert_eq!(0x0102030405060708, buf.get_i64_le());
    /// ```
    ///
    /// # Panics
    ///
    /// This function panics if there is not enough remaining data in `self`.
    fn get_i64_le(&mut self) -> i64 {
        buf_get_impl!(self, i64::from_le_bytes);
    }

    /// Gets a signed 64 bit integer from `self` in native-endian byte order.
    ///
    /// The current position is advanced by 8.
    ///
    /// # Examples
    ///
    /// ```
    /// use bytes::Buf;
    ///
    /// let mut buf: &[u8] = match cfg!(target_endian = "big") {
    ///     true => b"\x01\x02\x03\x04\x05\x06\x07\x08 hello",
    ///     false => b"\x08\x07\x06\x05\x04\x03\x02\x01 hello",
    /// };
    /// assert_eq!(0x0102030405060708, buf.get_i64_ne());
    /// ```
    ///
    /// # Panics
    ///
    /// This function panics if there is not enough remaining data in `self`.
    fn get_i64_ne(&mut self) -> i64 {
        buf_get_impl!(self, i64::from_ne_bytes);
    }

    /// Gets an unsigned 128 bit integer from `self` in big-endian byte order.
    ///
    /// The current position is advanced by 16.
    ///
    /// # Examples
    ///
    /// ```
    /// use bytes::Buf;
    ///
    /// let mut buf = &b"\x01\x02\x03\x04\x05\x06\x07\x08\x09\x10\x11\x12\x13\x14\x15\x16 hello"[..];
    /// assert_eq!(0x01020304050607080910111213141516, buf.get_u128());
    /// ```
    ///
    /// # Panics
    ///
    /// This function panics if there is not enough remaining data in `self`.
    fn get_u128(&mut self) -> u128 {
        buf_get_impl!(self, u128::from_be_bytes);
    }

    /// Gets an unsigned 128 bit integer from `self` in little-endian byte order.
    ///
    /// The current position is advanced by 16.
    ///
    /// # Examples
    ///
    /// ```
    /// use bytes::Buf;
    ///
    /// let mut buf = &b"\x16\x15\x14\x13\x12\x11\x10\x09\x08\x07\x06\x05\x04\x03\x02\x01 hello"[..];
    /// assert_eq!(0x01020304050607080910111213141516, buf.get_u128_le());
    /// ```
    ///
    /// # Panics
    ///
    /// This function panics if there is not enough remaining data in `self`.
    fn get_u128_le(&mut self) -> u128 {
        buf_get_impl!(self, u128::from_le_bytes);
    }

    /// Gets an unsigned 128 bit integer from `self` in native-endian byte order.
    ///
    /// The current position is advanced by 16.
    ///
    /// # Examples
    ///
    /// ```
    /// use bytes::Buf;
    ///
    /// let mut buf: &[u8] = match cfg!(target_endian = "big") {
    ///     true => b"\x01\x02\x03\x04\x05\x06\x07\x08\x09\x10\x11\x12\x13\x14\x15\x16 hello",
    ///     false => b"\x16\x15\x14\x13\x12\x11\x10\x09\x08\x07\x06\x05\x04\x03\x02\x01 hello",
    /// };
    /// assert_eq!(0x01020304050607080910111213141516, buf.get_u128_ne());
    /// ```
    ///
    /// # Panics
    ///
    /// This function panics if there is not enough remaining data in `self`.
    fn get_u128_ne(&mut self) -> u128 {
        buf_get_impl!(self, u128::from_ne_bytes);
    }

    /// Gets a signed 128 bit integer from `self` in big-endian byte order.
    ///
    /// The current position is advanced by 16.
    ///
    /// # Examples
    ///
    /// ```
    /// use bytes::Buf;
    ///
    /// let mut buf = &b"\x01\x02\x03\x04\x05\x06\x07\x08\x09\x10\x11\x12\x13\x14\x15\x16 hello"[..];
    /// assert_eq!(0x01020304050607080910111213141516, buf.get_i128());
    /// ```
    ///
    /// # Panics
    ///
    /// This function panics if there is not enough remaining data in `self`.
    fn get_i128(&mut self) -> i128 {
        buf_get_impl!(self, i128::from_be_bytes);
    }

    /// Gets a signed 128 bit integer from `self` in little-endian byte order.
    ///
    /// The current position is advanced by 16.
    ///
    /// # Examples
    ///
    /// ```
    /// use bytes::Buf;
    ///
    /// let mut buf = &b"\x16\x15\x14\x13\x12\x11\x10\x09\x08\x07\x06\x05\x04\x03\x02\x01 hello"[..];
    /// assert_eq!(0x01020304050607080910111213141516, buf.get_i128_le());
    /// ```
    ///
    /// # Panics
    ///
    /// This function panics if there is not enough remaining data in `self`.
    fn get_i128_le(&mut self) -> i128 {
        buf_get_impl!(self, i128::from_le_bytes);
    }

    /// Gets a signed 128 bit integer from `self` in native-endian byte order.
    ///
    /// The current position is advanced by 16.
    ///
    /// # Examples
    ///
    /// ```
    /// use bytes::Buf;
    ///
    /// let mut buf: &[u8] = match cfg!(target_endian = "big") {
    ///     true => b"\x01\x02\x03\x04\x05\x06\x07\x08\x09\x10\x11\x12\x13\x14\x15\x16 hello",
    ///     false => b"\x16\x15\x14\x13\x12\x11\x10\x09\x08\x07\x06\x05\x04\x03\x02\x01 hello",
    /// };
    /// assert_eq!(0x01020304050607080910111213141516, buf.get_i128_ne());
    /// ```
    ///
    /// # Panics
    ///
    /// This function panics if there is not enough remaining data in `self`.
    fn get_i128_ne(&mut self) -> i128 {
        buf_get_impl!(self, i128::from_ne_bytes);
    }

    /// Gets an unsigned n-byte integer from `self` in big-endian byte order.
    ///
    /// The current position is advanced by `nbytes`.
    ///
    /// # Examples
    ///
    /// ```
    /// use bytes::Buf;
    ///
    /// let mut buf = &b"\x01\x02\x03 hello"[..];
    /// assert_eq!(0x010203, buf.get_uint(3));
    /// ```
    ///
    /// # Panics
    ///
    /// This function panics if there is not enough remaining data in `self`, or
    /// if `nbytes` is greater than 8.
    fn get_uint(&mut self, nbytes: usize) -> u64 {
        buf_get_impl!(be => self, u64, nbytes);
    }

    /// Gets an unsigned n-byte integer from `self` in little-endian byte order.
    ///
    /// The current position is advanced by `nbytes`.
    ///
    /// # Examples
    ///
    /// ```
    /// use bytes::Buf;
    ///
    /// let mut buf = &b"\x03\x02\x01 hello"[..];
    /// assert_eq!(0x010203, buf.get_uint_le(3));
    /// ```
    ///
    /// # Panics
    ///
    /// This function panics if there is not enough remaining data in `self`, or
    /// if `nbytes` is greater than 8.
    fn get_uint_le(&mut self, nbytes: usize) -> u64 {
        buf_get_impl!(le => self, u64, nbytes);
    }

    /// Gets an unsigned n-byte integer from `self` in native-endian byte order.
    ///
    /// The current position is advanced by `nbytes`.
    ///
    /// # Examples
    ///
    /// ```
    /// use bytes::Buf;
    ///
    /// let mut buf: &[u8] = match cfg!(target_endian = "big") {
    ///     true => b"\x01\x02\x03 hello",
    ///     false => b"\x03\x02\x01 hello",
    /// };
    /// assert_eq!(0x010203, buf.get_uint_ne(3));
    /// ```
    ///
    /// # Panics
    ///
    /// This function panics if there is not enough remaining data in `self`, or
    /// if `nbytes` is greater than 8.
    fn get_uint_ne(&mut self, nbytes: usize) -> u64 {
        if cfg!(target_endian = "big") {
            self.get_uint(nbytes)
        } else {
            self.get_uint_le(nbytes)
        }
    }

    /// Gets a signed n-byte integer from `self` in big-endian byte order.
    ///
    /// The current position is advanced by `nbytes`.
    ///
    /// # Examples
    ///
    /// ```
    /// use bytes::Buf;
    ///
    /// let mut buf = &b"\x01\x02\x03 hello"[..];
    /// assert_eq!(0x010203, buf.get_int(3));
    /// ```
    ///
    /// # Panics
    ///
    /// This function panics if there is not enough remaining data in `self`, or
    /// if `nbytes` is greater than 8.
    fn get_int(&mut self, nbytes: usize) -> i64 {
        sign_extend(self.get_uint(nbytes), nbytes)
    }

    /// Gets a signed n-byte integer from `self` in little-endian byte order.
    ///
    /// The current position is advanced by `nbytes`.
    ///
    /// # Examples
    ///
    /// ```
    /// use bytes::Buf;
    ///
    /// let mut buf = &b"\x03\x02\x01 hello"[..];
    /// assert_eq!(0x010203, buf.get_int_le(3));
    /// ```
    ///
    /// # Panics
    ///
    /// This function panics if there is not enough remaining data in `self`, or
    /// if `nbytes` is greater than 8.
    fn get_int_le(&mut self, nbytes: usize) -> i64 {
        sign_extend(self.get_uint_le(nbytes), nbytes)
    }

    /// Gets a signed n-byte integer from `self` in native-endian byte order.
    ///
    /// The current position is advanced by `nbytes`.
    ///
    /// # Examples
    ///
    /// ```
    /// use bytes::Buf;
    ///
    /// let mut buf: &[u8] = match cfg!(target_endian = "big") {
    ///     true => b"\x01\x02\x03 hello",
    ///     false => b"\x03\x02\x01 hello",
    /// };
    /// assert_eq!(0x010203, buf.get_int_ne(3));
    /// ```
    ///
    /// # Panics
    ///
    /// This function panics if there is not enough remaining data in `self`, or
    /// if `nbytes` is greater than 8.
    fn get_int_ne(&mut self, nbytes: usize) -> i64 {
        if cfg!(target_endian = "big") {
            self.get_int(nbytes)
        } else {
            self.get_int_le(nbytes)
        }
    }

    /// Gets an IEEE754 single-precision (4 bytes) floating point number from
    /// `self` in big-endian byte order.
    ///
    /// The current position is advanced by 4.
    ///
    /// # Examples
    ///
    /// ```
    /// use bytes::Buf;
    ///
    /// let mut buf = &b"\x3F\x99\x99\x9A hello"[..];
    /// assert_eq!(1.2f32, buf.get_f32());
    /// ```
    ///
    /// # Panics
    ///
    /// This function panics if there is not enough remaining data in `self`.
    fn get_f32(&mut self) -> f32 {
        f32::from_bits(self.get_u32())
    }

    /// Gets an IEEE754 single-precision (4 bytes) floating point number from
    /// `self` in little-endian byte order.
    ///
    /// The current position is advanced by 4.
    ///
    /// # Examples
    ///
    /// ```
    /// use bytes::Buf;
    ///
    /// let mut buf = &b"\x9A\x99\x99\x3F hello"[..];
    /// assert_eq!(1.2f32, buf.get_f32_le());
    /// ```
    ///
    /// # Panics
    ///
    /// This function panics if there is not enough remaining data in `self`.
    fn get_f32_le(&mut self) -> f32 {
        f32::from_bits(self.get_u32_le())
    }

    /// Gets an IEEE754 single-precision (4 bytes) floating point number from
    /// `self` in native-endian byte order.
    ///
    /// The current position is advanced by 4.
    ///
    /// # Examples
    ///
    /// ```
    /// use bytes::Buf;
    ///
    /// let mut buf: &[u8] = match cfg!(target_endian = "big") {
    ///     true => b"\x3F\x99\x99\x9A hello",
    ///     false => b"\x9A\x99\x99\x3F hello",
    /// };
    /// assert_eq!(1.2f32, buf.get_f32_ne());
    /// ```
    ///
    /// # Panics
    ///
    /// This function panics if there is not enough remaining data in `self`.
    fn get_f32_ne(&mut self) -> f32 {
        f32::from_bits(self.get_u32_ne())
    }

    /// Gets an IEEE754 double-precision (8 bytes) floating point number from
    /// `self` in big-endian byte order.
    ///
    /// The current position is advanced by 8.
    ///
    /// # Examples
    ///
    /// ```
    /// use bytes::Buf;
    ///
    /// let mut buf = &b"\x3F\xF3\x33\x33\x33\x33\x33\x33 hello"[..];
    /// assert_eq!(1.2f64, buf.get_f64());
    /// ```
    ///
    /// # Panics
    ///
    /// This function panics if there is not enough remaining data in `self`.
    fn get_f64(&mut self) -> f64 {
        f64::from_bits(self.get_u64())
    }

    /// Gets an IEEE754 double-precision (8 bytes) floating point number from
    /// `self` in little-endian byte order.
    ///
    /// The current position is advanced by 8.
    ///
    /// # Examples
    ///
    /// ```
    /// use bytes::Buf;
    ///
    /// let mut buf = &b"\x33\x33\x33\x33\x33\x33\xF3\x3F hello"[..];
    /// assert_eq!(1.2f64, buf.get_f64_le());
    /// ```
    ///
    /// # Panics
    ///
    /// This function panics if there is not enough remaining data in `self`.
    fn get_f64_le(&mut self) -> f64 {
        f64::from_bits(self.get_u64_le())
    }

    /// Gets an IEEE754 double-precision (8 bytes) floating point number from
    /// `self` in native-endian byte order.
    ///
    /// The current position is advanced by 8.
    ///
    /// # Examples
    ///
    /// ```
    /// use bytes::Buf;
    ///
    /// let mut buf: &[u8] = match cfg!(target_endian = "big") {
    ///     true => b"\x3F\xF3\x33\x33\x33\x33\x33\x33 hello",
    ///     false => b"\x33\x33\x33\x33\x33\x33\xF3\x3F hello",
    /// };
    /// assert_eq!(1.2f64, buf.get_f64_ne());
    /// ```
    ///
    /// # Panics
    ///
    /// This function panics if there is not enough remaining data in `self`.
    fn get_f64_ne(&mut self) -> f64 {
        f64::from_bits(self.get_u64_ne())
    }

    /// Copies bytes from `self` into `dst`.
    ///
    /// The cursor is advanced by the number of bytes copied. `self` must have
    /// enough remaining bytes to fill `dst`.
    ///
    /// Returns `Err(TryGetError)` when there are not enough
    /// remaining bytes to read the value.
    ///
    /// # Examples
    ///
    /// ```
    /// use bytes::Buf;
    ///
    /// let mut buf = &b"hello world"[..];
    /// let mut dst = [0; 5];
    ///
    /// assert_eq!(Ok(()), buf.try_copy_to_slice(&mut dst));
    /// assert_eq!(&b"hello"[..], &dst);
    /// assert_eq!(6, buf.remaining());
    /// ```
    ///
    /// ```
    /// use bytes::{Buf, TryGetError};
    ///
    /// let mut buf = &b"hello world"[..];
    /// let mut dst = [0; 12];
    ///
    /// assert_eq!(Err(TryGetError{requested: 12, available: 11}), buf.try_copy_to_slice(&mut dst));
    /// assert_eq!(11, buf.remaining());
    /// ```
    fn try_copy_to_slice(&mut self, mut dst: &mut [u8]) -> Result<(), TryGetError> {
        if self.remaining() < dst.len() {
            return Err(TryGetError {
                requested: dst.len(),
                available: self.remaining(),
            });
        }

        while !dst.is_empty() {
            let src = self.chunk();
            let cnt = usize::min(src.len(), dst.len());

            dst[..cnt].copy_from_slice(&src[..cnt]);
            dst = &mut dst[cnt..];

            self.advance(cnt);
        }
        Ok(())
    }

    /// Gets an unsigned 8 bit integer from `self`.
    ///
    /// The current position is advanced by 1.
    ///
    /// Returns `Err(TryGetError)` when there are not enough
    /// remaining bytes to read the value.
    ///
    /// # Examples
    ///
    /// ```
    /// use bytes::Buf;
    ///
    /// let mut buf = &b"\x08 hello"[..];
    /// assert_eq!(Ok(0x08_u8), buf.try_get_u8());
    /// assert_eq!(6, buf.remaining());
    /// ```
    ///
    /// ```
    /// use bytes::{Buf, TryGetError};
    ///
    /// let mut buf = &b""[..];
    /// assert_eq!(Err(TryGetError{requested: 1, available: 0}), buf.try_get_u8());
    /// ```
    fn try_get_u8(&mut self) -> Result<u8, TryGetError> {
        if self.remaining() < 1 {
            return Err(TryGetError {
                requested: 1,
                available: self.remaining(),
            });
        }
        let ret = self.chunk()[0];
        self.advance(1);
        Ok(ret)
    }

    /// Gets a signed 8 bit integer from `self`.
    ///
    /// The current position is advanced by 1.
    ///
    /// Returns `Err(TryGetError)` when there are not enough
    /// remaining bytes to read the value.
    ///
    /// # Examples
    ///
    /// ```
    /// use bytes::Buf;
    ///
    /// let mut buf = &b"\x08 hello"[..];
    /// assert_eq!(Ok(0x08_i8), buf.try_get_i8());
    /// assert_eq!(6, buf.remaining());
    /// ```
    ///
    /// ```
    /// use bytes::{Buf, TryGetError};
    ///
    /// let mut buf = &b""[..];
    /// assert_eq!(Err(TryGetError{requested: 1, available: 0}), buf.try_get_i8());
    /// ```
    fn try_get_i8(&mut self) -> Result<i8, TryGetError> {
        if self.remaining() < 1 {
            return Err(TryGetError {
                requested: 1,
                available: self.remaining(),
            });
        }
        let ret = self.chunk()[0] as i8;
        self.advance(1);
        Ok(ret)
    }

    /// Gets an unsigned 16 bit integer from `self` in big-endian byte order.
    ///
    /// The current position is advanced by 2.
    ///
    /// Returns `Err(TryGetError)` when there are not enough
    /// remaining bytes to read the value.
    ///
    /// # Examples
    ///
    /// ```
    /// use bytes::Buf;
    ///
    /// let mut buf = &b"\x08\x09 hello"[..];
    /// assert_eq!(Ok(0x0809_u16), buf.try_get_u16());
    /// assert_eq!(6, buf.remaining());
    /// ```
    ///
    /// ```
    /// use bytes::{Buf, TryGetError};
    ///
    /// let mut buf = &b"\x08"[..];
    /// assert_eq!(Err(TryGetError{requested: 2, available: 1}), buf.try_get_u16());
    /// assert_eq!(1, buf.remaining());
    /// ```
    fn try_get_u16(&mut self) -> Result<u16, TryGetError> {
        buf_try_get_impl!(self, u16::from_be_bytes)
    }

    /// Gets an unsigned 16 bit integer from `self` in little-endian byte order.
    ///
    /// The current position is advanced by 2.
    ///
    /// Returns `Err(TryGetError)` when there are not enough
    /// remaining bytes to read the value.
    ///
    /// # Examples
    ///
    /// ```
    /// use bytes::Buf;
    ///
    /// let mut buf = &b"\x09\x08 hello"[..];
    /// assert_eq!(Ok(0x0809_u16), buf.try_get_u16_le());
    /// assert_eq!(6, buf.remaining());
    /// ```
    ///
    /// ```
    /// use bytes::{Buf, TryGetError};
    ///
    /// let mut buf = &b"\x08"[..];
    /// assert_eq!(Err(TryGetError{requested: 2, available: 1}), buf.try_get_u16_le());
    /// assert_eq!(1, buf.remaining());
    /// ```
    fn try_get_u16_le(&mut self) -> Result<u16, TryGetError> {
        buf_try_get_impl!(self, u16::from_le_bytes)
    }

    /// Gets an unsigned 16 bit integer from `self` in native-endian byte order.
    ///
    /// The current position is advanced by 2.
    ///
    /// Returns `Err(TryGetError)` when there are not enough
    /// remaining bytes to read the value.
    ///
    /// # Examples
    ///
    /// ```
    /// use bytes::Buf;
    ///
    /// let mut buf: &[u8] = match cfg!(target_endian = "big") {
    ///     true => b"\x08\x09 hello",
    ///     false => b"\x09\x08 hello",
    /// };
    /// assert_eq!(Ok(0x0809_u16), buf.try_get_u16_ne());
    /// assert_eq!(6, buf.remaining());
    /// ```
    ///
    /// ```
    /// use bytes::{Buf, TryGetError};
    ///
    /// let mut buf = &b"\x08"[..];
    /// assert_eq!(Err(TryGetError{requested: 2, available: 1}), buf.try_get_u16_ne());
    /// assert_eq!(1, buf.remaining());
    /// ```
    fn try_get_u16_ne(&mut self) -> Result<u16, TryGetError> {
        buf_try_get_impl!(self, u16::from_ne_bytes)
    }

    /// Gets a signed 16 bit integer from `self` in big-endian byte order.
    ///
    /// The current position is advanced by 2.
    ///
    /// Returns `Err(TryGetError)` when there are not enough
    /// remaining bytes to read the value.
    ///
    /// # Examples
    ///
    /// ```
    /// use bytes::Buf;
    ///
    /// let mut buf = &b"\x08\x09 hello"[..];
    /// assert_eq!(Ok(0x0809_i16), buf.try_get_i16());
    /// assert_eq!(6, buf.remaining());
    /// ```
    ///
    /// ```
    /// use bytes::{Buf, TryGetError};
    ///
    /// let mut buf = &b"\x08"[..];
    /// assert_eq!(Err(TryGetError{requested: 2, available: 1}), buf.try_get_i16());
    /// assert_eq!(1, buf.remaining());
    /// ```
    fn try_get_i16(&mut self) -> Result<i16, TryGetError> {
        buf_try_get_impl!(self, i16::from_be_bytes)
    }

    /// Gets an signed 16 bit integer from `self` in little-endian byte order.
    ///
    /// The current position is advanced by 2.
    ///
    /// Returns `Err(TryGetError)` when there are not enough
    /// remaining bytes to read the value.
    ///
    /// # Examples
    ///
    /// ```
    /// use bytes::Buf;
    ///
    /// let mut buf = &b"\x09\x08 hello"[..];
    /// assert_eq!(Ok(0x0809_i16), buf.try_get_i16_le());
    /// assert_eq!(6, buf.remaining());
    /// ```
    ///
    /// ```
    /// use bytes::{Buf, TryGetError};
    ///
    /// let mut buf = &b"\x08"[..];
    /// assert_eq!(Err(TryGetError{requested: 2, available: 1}), buf.try_get_i16_le());
    /// assert_eq!(1, buf.remaining());
    /// ```
    fn try_get_i16_le(&mut self) -> Result<i16, TryGetError> {
        buf_try_get_impl!(self, i16::from_le_bytes)
    }

    /// Gets a signed 16 bit integer from `self` in native-endian byte order.
    ///
    /// The current position is advanced by 2.
    ///
    /// Returns `Err(TryGetError)` when there are not enough
    /// remaining bytes to read the value.
    ///
    /// # Examples
    ///
    /// ```
    /// use bytes::Buf;
    ///
    /// let mut buf: &[u8] = match cfg!(target_endian = "big") {
    ///     true => b"\x08\x09 hello",
    ///     false => b"\x09\x08 hello",
    /// };
    /// assert_eq!(Ok(0x0809_i16), buf.try_get_i16_ne());
    /// assert_eq!(6, buf.remaining());
    /// ```
    ///
    /// ```
    /// use bytes::{Buf, TryGetError};
    ///
    /// let mut buf = &b"\x08"[..];
    /// assert_eq!(Err(TryGetError{requested: 2, available: 1}), buf.try_get_i16_ne());
    /// assert_eq!(1, buf.remaining());
    /// ```
    fn try_get_i16_ne(&mut self) -> Result<i16, TryGetError> {
        buf_try_get_impl!(self, i16::from_ne_bytes)
    }

    /// Gets an unsigned 32 bit integer from `self` in big-endian byte order.
    ///
    /// The current position is advanced by 4.
    ///
    /// Returns `Err(TryGetError)` when there are not enough
    /// remaining bytes to read the value.
    ///
    /// # Examples
    ///
    /// ```
    /// use bytes::Buf;
    ///
    /// let mut buf = &b"\x08\x09\xA0\xA1 hello"[..];
    /// assert_eq!(Ok(0x0809A0A1), buf.try_get_u32());
    /// assert_eq!(6, buf.remaining());
    /// ```
    ///
    /// ```
    /// use bytes::{Buf, TryGetError};
    ///
    /// let mut buf = &b"\x01\x02\x03"[..];
    /// assert_eq!(Err(TryGetError{requested: 4, available: 3}), buf.try_get_u32());
    /// assert_eq!(3, buf.remaining());
    /// ```
    fn try_get_u32(&mut self) -> Result<u32, TryGetError> {
        buf_try_get_impl!(self, u32::from_be_bytes)
    }

    /// Gets an unsigned 32 bit integer from `self` in little-endian byte order.
    ///
    /// The current position is advanced by 4.
    ///
    /// Returns `Err(TryGetError)` when there are not enough
    /// remaining bytes to read the value.
    ///
    /// # Examples
    ///
    /// ```
    /// use bytes::Buf;
    ///
    /// let mut buf = &b"\xA1\xA0\x09\x08 hello"[..];
    /// assert_eq!(Ok(0x0809A0A1_u32), buf.try_get_u32_le());
    /// assert_eq!(6, buf.remaining());
    /// ```
    ///
    /// ```
    /// use bytes::{Buf, TryGetError};
    ///
    /// let mut buf = &b"\x08\x09\xA0"[..];
    /// assert_eq!(Err(TryGetError{requested: 4, available: 3}), buf.try_get_u32_le());
    /// assert_eq!(3, buf.remaining());
    /// ```
    fn try_get_u32_le(&mut self) -> Result<u32, TryGetError> {
        buf_try_get_impl!(self, u32::from_le_bytes)
    }

    /// Gets an unsigned 32 bit integer from `self` in native-endian byte order.
    ///
    /// The current position is advanced by 4.
    ///
    /// Returns `Err(TryGetError)` when there are not enough
    /// remaining bytes to read the value.
    ///
    /// # Examples
    ///
    /// ```
    /// use bytes::Buf;
    ///
    /// let mut buf: &[u8] = match cfg!(target_endian = "big") {
    ///     true => b"\x08\x09\xA0\xA1 hello",
    ///     false => b"\xA1\xA0\x09\x08 hello",
    /// };
    /// assert_eq!(Ok(0x0809A0A1_u32), buf.try_get_u32_ne());
    /// assert_eq!(6, buf.remaining());
    /// ```
    ///
    /// ```
    /// use bytes::{Buf, TryGetError};
    ///
    /// let mut buf = &b"\x08\x09\xA0"[..];
    /// assert_eq!(Err(TryGetError{requested: 4, available: 3}), buf.try_get_u32_ne());
    /// assert_eq!(3, buf.remaining());
    /// ```
    fn try_get_u32_ne(&mut self) -> Result<u32, TryGetError> {
        buf_try_get_impl!(self, u32::from_ne_bytes)
    }

    /// Gets a signed 32 bit integer from `self` in big-endian byte order.
    ///
    /// The current position is advanced by 4.
    ///
    /// Returns `Err(TryGetError)` when there are not enough
    /// remaining bytes to read the value.
    ///
    /// # Examples
    ///
    /// ```
    /// use bytes::Buf;
    ///
    /// let mut buf = &b"\x08\x09\xA0\xA1 hello"[..];
    /// assert_eq!(Ok(0x0809A0A1_i32), buf.try_get_i32());
    /// assert_eq!(6, buf.remaining());
    /// ```
    ///
    /// ```
    /// use bytes::{Buf, TryGetError};
    ///
    /// let mut buf = &b"\x01\x02\x03"[..];
    /// assert_eq!(Err(TryGetError{requested: 4, available: 3}), buf.try_get_i32());
    /// assert_eq!(3, buf.remaining());
    /// ```
    fn try_get_i32(&mut self) -> Result<i32, TryGetError> {
        buf_try_get_impl!(self, i32::from_be_bytes)
    }

    /// Gets a signed 32 bit integer from `self` in little-endian byte order.
    ///
    /// The current position is advanced by 4.
    ///
    /// Returns `Err(TryGetError)` when there are not enough
    /// remaining bytes to read the value.
    ///
    /// # Examples
    ///
    /// ```
    /// use bytes::Buf;
    ///
    /// let mut buf = &b"\xA1\xA0\x09\x08 hello"[..];
    /// assert_eq!(Ok(0x0809A0A1_i32), buf.try_get_i32_le());
    /// assert_eq!(6, buf.remaining());
    /// ```
    ///
    /// ```
    /// use bytes::{Buf, TryGetError};
    ///
    /// let mut buf = &b"\x08\x09\xA0"[..];
    /// assert_eq!(Err(TryGetError{requested: 4, available: 3}), buf.try_get_i32_le());
    /// assert_eq!(3, buf.remaining());
    /// ```
    fn try_get_i32_le(&mut self) -> Result<i32, TryGetError> {
        buf_try_get_impl!(self, i32::from_le_bytes)
    }

    /// Gets a signed 32 bit integer from `self` in native-endian byte order.
    ///
    /// The current position is advanced by 4.
    ///
    /// Returns `Err(TryGetError)` when there are not enough
    /// remaining bytes to read the value.
    ///
    /// # Examples
    ///
    /// ```
    /// use bytes::Buf;
    ///
    /// let mut buf: &[u8] = match cfg!(target_endian = "big") {
    ///     true => b"\x08\x09\xA0\xA1 hello",
    ///     false => b"\xA1\xA0\x09\x08 hello",
    /// };
    /// assert_eq!(Ok(0x0809A0A1_i32), buf.try_get_i32_ne());
    /// assert_eq!(6, buf.remaining());
    /// ```
    ///
    /// ```
    /// use bytes::{Buf, TryGetError};
    ///
    /// let mut buf = &b"\x08\x09\xA0"[..];
    /// assert_eq!(Err(TryGetError{requested: 4, available: 3}), buf.try_get_i32_ne());
    /// assert_eq!(3, buf.remaining());
    /// ```
    fn try_get_i32_ne(&mut self) -> Result<i32, TryGetError> {
        buf_try_get_impl!(self, i32::from_ne_bytes)
    }

    /// Gets an unsigned 64 bit integer from `self` in big-endian byte order.
    ///
    /// The current position is advanced by 8.
    ///
    /// Returns `Err(TryGetError)` when there are not enough
    /// remaining bytes to read the value.
    ///
    /// # Examples
    ///
    /// ```
    /// use bytes::Buf;
    ///
    /// let mut buf = &b"\x01\x02\x03\x04\x05\x06\x07\x08 hello"[..];
    /// assert_eq!(Ok(0x0102030405060708_u64), buf.try_get_u64());
    /// assert_eq!(6, buf.remaining());
    /// ```
    ///
    /// ```
    /// use bytes::{Buf, TryGetError};
    ///
    /// let mut buf = &b"\x01\x02\x03\x04\x05\x06\x07"[..];
    /// assert_eq!(Err(TryGetError{requested: 8, available: 7}), buf.try_get_u64());
    /// assert_eq!(7, buf.remaining());
    /// ```
    fn try_get_u64(&mut self) -> Result<u64, TryGetError> {
        buf_try_get_impl!(self, u64::from_be_bytes)
    }

    /// Gets an unsigned 64 bit integer from `self` in little-endian byte order.
    ///
    /// The current position is advanced by 8.
    ///
    /// Returns `Err(TryGetError)` when there are not enough
    /// remaining bytes to read the value.
    ///
    /// # Examples
    ///
    /// ```
    /// use bytes::Buf;
    ///
    /// let mut buf = &b"\x08\x07\x06\x05\x04\x03\x02\x01 hello"[..];
    /// assert_eq!(Ok(0x0102030405060708_u64), buf.try_get_u64_le());
    /// assert_eq!(6, buf.remaining());
    /// ```
    ///
    /// ```
    /// use bytes::{Buf, TryGetError};
    ///
    /// let mut buf = &b"\x08\x07\x06\x05\x04\x03\x02"[..];
    /// assert_eq!(Err(TryGetError{requested: 8, available: 7}), buf.try_get_u64_le());
    /// assert_eq!(7, buf.remaining());
    /// ```
    fn try_get_u64_le(&mut self) -> Result<u64, TryGetError> {
        buf_try_get_impl!(self, u64::from_le_bytes)
    }

    /// Gets an unsigned 64 bit integer from `self` in native-endian byte order.
    ///
    /// The current position is advanced by 8.
    ///
    /// Returns `Err(TryGetError)` when there are not enough
    /// remaining bytes to read the value.
    ///
    /// # Examples
    ///
    /// ```
    /// use bytes::Buf;
    ///
    /// let mut buf: &[u8] = match cfg!(target_endian = "big") {
    ///     true => b"\x01\x02\x03\x04\x05\x06\x07\x08 hello",
    ///     false => b"\x08\x07\x06\x05\x04\x03\x02\x01 hello",
    /// };
    /// assert_eq!(Ok(0x0102030405060708_u64), buf.try_get_u64_ne());
    /// assert_eq!(6, buf.remaining());
    /// ```
    ///
    /// ```
    /// use bytes::{Buf, TryGetError};
    ///
    /// let mut buf = &b"\x01\x02\x03\x04\x05\x06\x07"[..];
    /// assert_eq!(Err(TryGetError{requested: 8, available: 7}), buf.try_get_u64_ne());
    /// assert_eq!(7, buf.remaining());
    /// ```
    fn try_get_u64_ne(&mut self) -> Result<u64, TryGetError> {
        buf_try_get_impl!(self, u64::from_ne_bytes)
    }

    /// Gets a signed 64 bit integer from `self` in big-endian byte order.
    ///
    /// The current position is advanced by 8.
    ///
    /// Returns `Err(TryGetError)` when there are not enough
    /// remaining bytes to read the value.
    ///
    /// # Examples
    ///
    /// ```
    /// use bytes::Buf;
    ///
    /// let mut buf = &b"\x01\x02\x03\x04\x05\x06\x07\x08 hello"[..];
    /// assert_eq!(Ok(0x0102030405060708_i64), buf.try_get_i64());
    /// assert_eq!(6, buf.remaining());
    /// ```
    ///
    /// ```
    /// use bytes::{Buf, TryGetError};
    ///
    /// let mut buf = &b"\x01\x02\x03\x04\x05\x06\x07"[..];
    /// assert_eq!(Err(TryGetError{requested: 8, available: 7}), buf.try_get_i64());
    /// assert_eq!(7, buf.remaining());
    /// ```
    fn try_get_i64(&mut self) -> Result<i64, TryGetError> {
        buf_try_get_impl!(self, i64::from_be_bytes)
    }

    /// Gets a signed 64 bit integer from `self` in little-endian byte order.
    ///
    /// The current position is advanced by 8.
    ///
    /// Returns `Err(TryGetError)` when there are not enough
    /// remaining bytes to read the value.
    ///
    /// # Examples
    ///
    /// ```
    /// use bytes::Buf;
    ///
    /// let mut buf = &b"\x08\x07\x06\x05\x04\x03\x02\x01 hello"[..];
    /// assert_eq!(Ok(0x0102030405060708_i64), buf.try_get_i64_le());
    /// assert_eq!(6, buf.remaining());
    /// ```
    ///
    /// ```
    /// use bytes::{Buf, TryGetError};
    ///
    /// let mut buf = &b"\x08\x07\x06\x05\x04\x03\x02"[..];
    /// assert_eq!(Err(TryGetError{requested: 8, available: 7}), buf.try_get_i64_le());
    /// assert_eq!(7, buf.remaining());
    /// ```
    fn try_get_i64_le(&mut self) -> Result<i64, TryGetError> {
        buf_try_get_impl!(self, i64::from_le_bytes)
    }

    /// Gets a signed 64 bit integer from `self` in native-endian byte order.
    ///
    /// The current position is advanced by 8.
    ///
    /// Returns `Err(TryGetError)` when there are not enough
    /// remaining bytes to read the value.
    ///
    /// # Examples
    ///
    /// ```
    /// use bytes::Buf;
    ///
    /// let mut buf: &[u8] = match cfg!(target_endian = "big") {
    ///     true => b"\x01\x02\x03\x04\x05\x06\x07\x08 hello",
    ///     false => b"\x08\x07\x06\x05\x04\x03\x02\x01 hello",
    /// };
    /// assert_eq!(Ok(0x0102030405060708_i64), buf.try_get_i64_ne());
    /// assert_eq!(6, buf.remaining());
    /// ```
    ///
    /// ```
    /// use bytes::{Buf, TryGetError};
    ///
    /// let mut buf = &b"\x01\x02\x03\x04\x05\x06\x07"[..];
    /// assert_eq!(Err(TryGetError{requested: 8, available: 7}), buf.try_get_i64_ne());
    /// assert_eq!(7, buf.remaining());
    /// ```
    fn try_get_i64_ne(&mut self) -> Result<i64, TryGetError> {
        buf_try_get_impl!(self, i64::from_ne_bytes)
    }

    /// Gets an unsigned 128 bit integer from `self` in big-endian byte order.
    ///
    /// The current position is advanced by 16.
    ///
    /// Returns `Err(TryGetError)` when there are not enough
    /// remaining bytes to read the value.
    ///
    /// # Examples
    ///
    /// ```
    /// use bytes::Buf;
    ///
    /// let mut buf = &b"\x01\x02\x03\x04\x05\x06\x07\x08\x09\x10\x11\x12\x13\x14\x15\x16 hello"[..];
    /// assert_eq!(Ok(0x01020304050607080910111213141516_u128), buf.try_get_u128());
    /// assert_eq!(6, buf.remaining());
    /// ```
    ///
    /// ```
    /// use bytes::{Buf, TryGetError};
    ///
    /// let mut buf = &b"\x01\x02\x03\x04\x05\x06\x07\x08\x09\x10\x11\x12\x13\x14\x15"[..];
    /// assert_eq!(Err(TryGetError{requested: 16, available: 15}), buf.try_get_u128());
    /// assert_eq!(15, buf.remaining());
    /// ```
    fn try_get_u128(&mut self) -> Result<u128, TryGetError> {
        buf_try_get_impl!(self, u128::from_be_bytes)
    }

    /// Gets an unsigned 128 bit integer from `self` in little-endian byte order.
    ///
    /// The current position is advanced by 16.
    ///
    /// Returns `Err(TryGetError)` when there are not enough
    /// remaining bytes to read the value.
    ///
    /// # Examples
    ///
    /// ```
    /// use bytes::Buf;
    ///
    /// let mut buf = &b"\x16\x15\x14\x13\x12\x11\x10\x09\x08\x07\x06\x05\x04\x03\x02\x01 hello"[..];
    /// assert_eq!(Ok(0x01020304050607080910111213141516_u128), buf.try_get_u128_le());
    /// assert_eq!(6, buf.remaining());
    /// ```
    ///
    /// ```
    /// use bytes::{Buf, TryGetError};
    ///
    /// let mut buf = &b"\x16\x15\x14\x13\x12\x11\x10\x09\x08\x07\x06\x05\x04\x03\x02"[..];
    /// assert_eq!(Err(TryGetError{requested: 16, available: 15}), buf.try_get_u128_le());
    /// assert_eq!(15, buf.remaining());
    /// ```
    fn try_get_u128_le(&mut self) -> Result<u128, TryGetError> {
        buf_try_get_impl!(self, u128::from_le_bytes)
    }

    /// Gets an unsigned 128 bit integer from `self` in native-endian byte order.
    ///
    /// The current position is advanced by 16.
    ///
    /// Returns `Err(TryGetError)` when there are not enough
    /// remaining bytes to read the value.
    ///
    /// # Examples
    ///
    /// ```
    /// use bytes::Buf;
    ///
    /// let mut buf: &[u8] = match cfg!(target_endian = "big") {
    ///     true => b"\x01\x02\x03\x04\x05\x06\x07\x08\x09\x10\x11\x12\x13\x14\x15\x16 hello",
    ///     false => b"\x16\x15\x14\x13\x12\x11\x10\x09\x08\x07\x06\x05\x04\x03\x02\x01 hello",
    /// };
    /// assert_eq!(Ok(0x01020304050607080910111213141516_u128), buf.try_get_u128_ne());
    /// assert_eq!(6, buf.remaining());
    /// ```
    ///
    /// ```
    /// use bytes::{Buf, TryGetError};
    ///
    /// let mut buf = &b"\x01\x02\x03\x04\x05\x06\x07\x08\x09\x10\x11\x12\x13\x14\x15"[..];
    /// assert_eq!(Err(TryGetError{requested: 16, available: 15}), buf.try_get_u128_ne());
    /// assert_eq!(15, buf.remaining());
    /// ```
    fn try_get_u128_ne(&mut self) -> Result<u128, TryGetError> {
        buf_try_get_impl!(self, u128::from_ne_bytes)
    }

    /// Gets a signed 128 bit integer from `self` in big-endian byte order.
    ///
    /// The current position is advanced by 16.
    ///
    /// Returns `Err(TryGetError)` when there are not enough
    /// remaining bytes to read the value.
    ///
    /// # Examples
    ///
    /// ```
    /// use bytes::Buf;
    ///
    /// let mut buf = &b"\x01\x02\x03\x04\x05\x06\x07\x08\x09\x10\x11\x12\x13\x14\x15\x16 hello"[..];
    /// assert_eq!(Ok(0x01020304050607080910111213141516_i128), buf.try_get_i128());
    /// assert_eq!(6, buf.remaining());
    /// ```
    ///
    /// ```
    /// use bytes::{Buf, TryGetError};
    ///
    /// let mut buf = &b"\x01\x02\x03\x04\x05\x06\x07\x08\x09\x10\x11\x12\x13\x14\x15"[..];
    /// assert_eq!(Err(TryGetError{requested: 16, available: 15}), buf.try_get_i128());
    /// assert_eq!(15, buf.remaining());
    /// ```
    fn try_get_i128(&mut self) -> Result<i128, TryGetError> {
        buf_try_get_impl!(self, i128::from_be_bytes)
    }

    /// Gets a signed 128 bit integer from `self` in little-endian byte order.
    ///
    /// The current position is advanced by 16.
    ///
    /// Returns `Err(TryGetError)` when there are not enough
    /// remaining bytes to read the value.
    ///
    /// # Examples
    ///
    /// ```
    /// use bytes::Buf;
    ///
    /// let mut buf = &b"\x16\x15\x14\x13\x12\x11\x10\x09\x08\x07\x06\x05\x04\x03\x02\x01 hello"[..];
    /// assert_eq!(Ok(0x01020304050607080910111213141516_i128), buf.try_get_i128_le());
    /// assert_eq!(6, buf.remaining());
    /// ```
    ///
    /// ```
    /// use bytes::{Buf, TryGetError};
    ///
    /// let mut buf = &b"\x16\x15\x14\x13\x12\x11\x10\x09\x08\x07\x06\x05\x04\x03\x02"[..];
    /// assert_eq!(Err(TryGetError{requested: 16, available: 15}), buf.try_get_i128_le());
    /// assert_eq!(15, buf.remaining());
    /// ```
    fn try_get_i128_le(&mut self) -> Result<i128, TryGetError> {
        buf_try_get_impl!(self, i128::from_le_bytes)
    }

    /// Gets a signed 128 bit integer from `self` in native-endian byte order.
    ///
    /// The current position is advanced by 16.
    ///
    /// Returns `Err(TryGetError)` when there are not enough
    /// remaining bytes to read the value.
    ///
    /// # Examples
    ///
    /// ```
    /// use bytes::Buf;
    ///
    /// let mut buf: &[u8] = match cfg!(target_endian = "big") {
    ///     true => b"\x01\x02\x03\x04\x05\x06\x07\x08\x09\x10\x11\x12\x13\x14\x15\x16 hello",
    ///     false => b"\x16\x15\x14\x13\x12\x11\x10\x09\x08\x07\x06\x05\x04\x03\x02\x01 hello",
    /// };
    /// assert_eq!(Ok(0x01020304050607080910111213141516_i128), buf.try_get_i128_ne());
    /// assert_eq!(6, buf.remaining());
    /// ```
    ///
    /// ```
    /// use bytes::{Buf, TryGetError};
    ///
    /// let mut buf = &b"\x01\x02\x03\x04\x05\x06\x07\x08\x09\x10\x11\x12\x13\x14\x15"[..];
    /// assert_eq!(Err(TryGetError{requested: 16, available: 15}), buf.try_get_i128_ne());
    /// assert_eq!(15, buf.remaining());
    /// ```
    fn try_get_i128_ne(&mut self) -> Result<i128, TryGetError> {
        buf_try_get_impl!(self, i128::from_ne_bytes)
    }

    /// Gets an unsigned n-byte integer from `self` in big-endian byte order.
    ///
    /// The current position is advanced by `nbytes`.
    ///
    /// Returns `Err(TryGetError)` when there are not enough
    /// remaining bytes to read the value.
    ///
    /// # Examples
    ///
    /// ```
    /// use bytes::Buf;
    ///
    /// let mut buf = &b"\x01\x02\x03 hello"[..];
    /// assert_eq!(Ok(0x010203_u64), buf.try_get_uint(3));
    /// assert_eq!(6, buf.remaining());
    /// ```
    ///
    /// ```
    /// use bytes::{Buf, TryGetError};
    ///
    /// let mut buf = &b"\x01\x02\x03"[..];
    /// assert_eq!(Err(TryGetError{requested: 4, available: 3}), buf.try_get_uint(4));
    /// assert_eq!(3, buf.remaining());
    /// ```
    ///
    /// # Panics
    ///
    /// This function panics if `nbytes` > 8.
    fn try_get_uint(&mut self, nbytes: usize) -> Result<u64, TryGetError> {
        buf_try_get_impl!(be => self, u64, nbytes);
    }

    /// Gets an unsigned n-byte integer from `self` in little-endian byte order.
    ///
    /// The current position is advanced by `nbytes`.
    ///
    /// Returns `Err(TryGetError)` when there are not enough
    /// remaining bytes to read the value.
    ///
    /// # Examples
    ///
    /// ```
    /// use bytes::Buf;
    ///
    /// let mut buf = &b"\x03\x02\x01 hello"[..];
    /// assert_eq!(Ok(0x010203_u64), buf.try_get_uint_le(3));
    /// assert_eq!(6, buf.remaining());
    /// ```
    ///
    /// ```
    /// use bytes::{Buf, TryGetError};
    ///
    /// let mut buf = &b"\x01\x02\x03"[..];
    /// assert_eq!(Err(TryGetError{requested: 4, available: 3}), buf.try_get_uint_le(4));
    /// assert_eq!(3, buf.remaining());
    /// ```
    ///
    /// # Panics
    ///
    /// This function panics if `nbytes` > 8.
    fn try_get_uint_le(&mut self, nbytes: usize) -> Result<u64, TryGetError> {
        buf_try_get_impl!(le => self, u64, nbytes);
    }

    /// Gets an unsigned n-byte integer from `self` in native-endian byte order.
    ///
    /// The current position is advanced by `nbytes`.
    ///
    /// Returns `Err(TryGetError)` when there are not enough
    /// remaining bytes to read the value.
    ///
    /// # Examples
    ///
    /// ```
    /// use bytes::Buf;
    ///
    /// let mut buf: &[u8] = match cfg!(target_endian = "big") {
    ///     true => b"\x01\x02\x03 hello",
    ///     false => b"\x03\x02\x01 hello",
    /// };
    /// assert_eq!(Ok(0x010203_u64), buf.try_get_uint_ne(3));
    /// assert_eq!(6, buf.remaining());
    /// ```
    ///
    /// ```
    /// use bytes::{Buf, TryGetError};
    ///
    /// let mut buf: &[u8] = match cfg!(target_endian = "big") {
    ///     true => b"\x01\x02\x03",
    ///     false => b"\x03\x02\x01",
    /// };
    /// assert_eq!(Err(TryGetError{requested: 4, available: 3}), buf.try_get_uint_ne(4));
    /// assert_eq!(3, buf.remaining());
    /// ```
    ///
    /// # Panics
    ///
    /// This function panics if `nbytes` is greater than 8.
    fn try_get_uint_ne(&mut self, nbytes: usize) -> Result<u64, TryGetError> {
        if cfg!(target_endian = "big") {
            self.try_get_uint(nbytes)
        } else {
            self.try_get_uint_le(nbytes)
        }
    }

    /// Gets a signed n-byte integer from `self` in big-endian byte order.
    ///
    /// The current position is advanced by `nbytes`.
    ///
    /// Returns `Err(TryGetError)` when there are not enough
    /// remaining bytes to read the value.
    ///
    /// # Examples
    ///
    /// ```
    /// use bytes::Buf;
    ///
    /// let mut buf = &b"\x01\x02\x03 hello"[..];
    /// assert_eq!(Ok(0x010203_i64), buf.try_get_int(3));
    /// assert_eq!(6, buf.remaining());
    /// ```
    ///
    /// ```
    /// use bytes::{Buf, TryGetError};
    ///
    /// let mut buf = &b"\x01\x02\x03"[..];
    /// assert_eq!(Err(TryGetError{requested: 4, available: 3}), buf.try_get_int(4));
    /// assert_eq!(3, buf.remaining());
    /// ```
    ///
    /// # Panics
    ///
    /// This function panics if `nbytes` is greater than 8.
    fn try_get_int(&mut self, nbytes: usize) -> Result<i64, TryGetError> {
        buf_try_get_impl!(be => self, i64, nbytes);
    }

    /// Gets a signed n-byte integer from `self` in little-endian byte order.
    ///
    /// The current position is advanced by `nbytes`.
    ///
    /// Returns `Err(TryGetError)` when there are not enough
    /// remaining bytes to read the value.
    ///
    /// # Examples
    ///
    /// ```
    /// use bytes::Buf;
    ///
    /// let mut buf = &b"\x03\x02\x01 hello"[..];
    /// assert_eq!(Ok(0x010203_i64), buf.try_get_int_le(3));
    /// assert_eq!(6, buf.remaining());
    /// ```
    ///
    /// ```
    /// use bytes::{Buf, TryGetError};
    ///
    /// let mut buf = &b"\x01\x02\x03"[..];
    /// assert_eq!(Err(TryGetError{requested: 4, available: 3}), buf.try_get_int_le(4));
    /// assert_eq!(3, buf.remaining());
    /// ```
    ///
    /// # Panics
    ///
    /// This function panics if `nbytes` is greater than 8.
    fn try_get_int_le(&mut self, nbytes: usize) -> Result<i64, TryGetError> {
        buf_try_get_impl!(le => self, i64, nbytes);
    }

    /// Gets a signed n-byte integer from `self` in native-endian byte order.
    ///
    /// The current position is advanced by `nbytes`.
    ///
    /// Returns `Err(TryGetError)` when there are not enough
    /// remaining bytes to read the value.
    ///
    /// # Examples
    ///
    /// ```
    /// use bytes::Buf;
    ///
    /// let mut buf: &[u8] = match cfg!(target_endian = "big") {
    ///     true => b"\x01\x02\x03 hello",
    ///     false => b"\x03\x02\x01 hello",
    /// };
    /// assert_eq!(Ok(0x010203_i64), buf.try_get_int_ne(3));
    /// assert_eq!(6, buf.remaining());
    /// ```
    ///
    /// ```
    /// use bytes::{Buf, TryGetError};
    ///
    /// let mut buf: &[u8] = match cfg!(target_endian = "big") {
    ///     true => b"\x01\x02\x03",
    ///     false => b"\x03\x02\x01",
    /// };
    /// assert_eq!(Err(TryGetError{requested: 4, available: 3}), buf.try_get_int_ne(4));
    /// assert_eq!(3, buf.remaining());
    /// ```
    ///
    /// # Panics
    ///
    /// This function panics if `nbytes` is greater than 8.
    fn try_get_int_ne(&mut self, nbytes: usize) -> Result<i64, TryGetError> {
        if cfg!(target_endian = "big") {
            self.try_get_int(nbytes)
        } else {
            self.try_get_int_le(nbytes)
        }
    }

    /// Gets an IEEE754 single-precision (4 bytes) floating point number from
    /// `self` in big-endian byte order.
    ///
    /// The current position is advanced by 4.
    ///
    /// Returns `Err(TryGetError)` when there are not enough
    /// remaining bytes to read the value.
    ///
    /// # Examples
    ///
    /// ```
    /// use bytes::Buf;
    ///
    /// let mut buf = &b"\x3F\x99\x99\x9A hello"[..];
    /// assert_eq!(1.2f32, buf.get_f32());
    /// assert_eq!(6, buf.remaining());
    /// ```
    ///
    /// ```
    /// use bytes::{Buf, TryGetError};
    ///
    /// let mut buf = &b"\x3F\x99\x99"[..];
    /// assert_eq!(Err(TryGetError{requested: 4, available: 3}), buf.try_get_f32());
    /// assert_eq!(3, buf.remaining());
    /// ```
    fn try_get_f32(&mut self) -> Result<f32, TryGetError> {
        Ok(f32::from_bits(self.try_get_u32()?))
    }

    /// Gets an IEEE754 single-precision (4 bytes) floating point number from
    /// `self` in little-endian byte order.
    ///
    /// The current position is advanced by 4.
    ///
    /// Returns `Err(TryGetError)` when there are not enough
    /// remaining bytes to read the value.
    ///
    /// # Examples
    ///
    /// ```
    /// use bytes::Buf;
    ///
    /// let mut buf = &b"\x9A\x99\x99\x3F hello"[..];
    /// assert_eq!(1.2f32, buf.get_f32_le());
    /// assert_eq!(6, buf.remaining());
    /// ```
    ///
    /// ```
    /// use bytes::{Buf, TryGetError};
    ///
    /// let mut buf = &b"\x3F\x99\x99"[..];
    /// assert_eq!(Err(TryGetError{requested: 4, available: 3}), buf.try_get_f32_le());
    /// assert_eq!(3, buf.remaining());
    /// ```
    fn try_get_f32_le(&mut self) -> Result<f32, TryGetError> {
        Ok(f32::from_bits(self.try_get_u32_le()?))
    }

    /// Gets an IEEE754 single-precision (4 bytes) floating point number from
    /// `self` in native-endian byte order.
    ///
    /// The current position is advanced by 4.
    ///
    /// Returns `Err(TryGetError)` when there are not enough
    /// remaining bytes to read the value.
    ///
    /// # Examples
    ///
    /// ```
    /// use bytes::Buf;
    ///
    /// let mut buf: &[u8] = match cfg!(target_endian = "big") {
    ///     true => b"\x3F\x99\x99\x9A hello",
    ///     false => b"\x9A\x99\x99\x3F hello",
    /// };
    /// assert_eq!(1.2f32, buf.get_f32_ne());
    /// assert_eq!(6, buf.remaining());
    /// ```
    ///
    /// ```
    /// use bytes::{Buf, TryGetError};
    ///
    /// let mut buf = &b"\x3F\x99\x99"[..];
    /// assert_eq!(Err(TryGetError{requested: 4, available: 3}), buf.try_get_f32_ne());
    /// assert_eq!(3, buf.remaining());
    /// ```
    fn try_get_f32_ne(&mut self) -> Result<f32, TryGetError> {
        Ok(f32::from_bits(self.try_get_u32_ne()?))
    }

    /// Gets an IEEE754 double-precision (8 bytes) floating point number from
    /// `self` in big-endian byte order.
    ///
    /// The current position is advanced by 8.
    ///
    /// Returns `Err(TryGetError)` when there are not enough
    /// remaining bytes to read the value.
    ///
    /// # Examples
    ///
    /// ```
    /// use bytes::Buf;
    ///
    /// let mut buf = &b"\x3F\xF3\x33\x33\x33\x33\x33\x33 hello"[..];
    /// assert_eq!(1.2f64, buf.get_f64());
    /// assert_eq!(6, buf.remaining());
    /// ```
    ///
    /// ```
    /// use bytes::{Buf, TryGetError};
    ///
    /// let mut buf = &b"\x3F\xF3\x33\x33\x33\x33\x33"[..];
    /// assert_eq!(Err(TryGetError{requested: 8, available: 7}), buf.try_get_f64());
    /// assert_eq!(7, buf.remaining());
    /// ```
    fn try_get_f64(&mut self) -> Result<f64, TryGetError> {
        Ok(f64::from_bits(self.try_get_u64()?))
    }

    /// Gets an IEEE754 double-precision (8 bytes) floating point number from
    /// `self` in little-endian byte order.
    ///
    /// The current position is advanced by 8.
    ///
    /// Returns `Err(TryGetError)` when there are not enough
    /// remaining bytes to read the value.
    ///
    /// # Examples
    ///
    /// ```
    /// use bytes::Buf;
    ///
    /// let mut buf = &b"\x33\x33\x33\x33\x33\x33\xF3\x3F hello"[..];
    /// assert_eq!(1.2f64, buf.get_f64_le());
    /// assert_eq!(6, buf.remaining());
    /// ```
    ///
    /// ```
    /// use bytes::{Buf, TryGetError};
    ///
    /// let mut buf = &b"\x3F\xF3\x33\x33\x33\x33\x33"[..];
    /// assert_eq!(Err(TryGetError{requested: 8, available: 7}), buf.try_get_f64_le());
    /// assert_eq!(7, buf.remaining());
    /// ```
    fn try_get_f64_le(&mut self) -> Result<f64, TryGetError> {
        Ok(f64::from_bits(self.try_get_u64_le()?))
    }

    /// Gets an IEEE754 double-precision (8 bytes) floating point number from
    /// `self` in native-endian byte order.
    ///
    /// The current position is advanced by 8.
    ///
    /// Returns `Err(TryGetError)` when there are not enough
    /// remaining bytes to read the value.
    ///
    /// # Examples
    ///
    /// ```
    /// use bytes::Buf;
    ///
    /// let mut buf: &[u8] = match cfg!(target_endian = "big") {
    ///     true => b"\x3F\xF3\x33\x33\x33\x33\x33\x33 hello",
    ///     false => b"\x33\x33\x33\x33\x33\x33\xF3\x3F hello",
    /// };
    /// assert_eq!(1.2f64, buf.get_f64_ne());
    /// assert_eq!(6, buf.remaining());
    /// ```
    ///
    /// ```
    /// use bytes::{Buf, TryGetError};
    ///
    /// let mut buf = &b"\x3F\xF3\x33\x33\x33\x33\x33"[..];
    /// assert_eq!(Err(TryGetError{requested: 8, available: 7}), buf.try_get_f64_ne());
    /// assert_eq!(7, buf.remaining());
    /// ```
    fn try_get_f64_ne(&mut self) -> Result<f64, TryGetError> {
        Ok(f64::from_bits(self.try_get_u64_ne()?))
    }

    /// Consumes `len` bytes inside self and returns new instance of `Bytes`
    /// with this data.
    ///
    /// This function may be optimized by the underlying type to avoid actual
    /// copies. For example, `Bytes` implementation will do a shallow copy
    /// (ref-count increment).
    ///
    /// # Examples
    ///
    /// ```
    /// use bytes::Buf;
    ///
    /// let bytes = (&b"hello world"[..]).copy_to_bytes(5);
    /// assert_eq!(&bytes[..], &b"hello"[..]);
    /// ```
    ///
    /// # Panics
    ///
    /// This function panics if `len > self.remaining()`.
    fn copy_to_bytes(&mut self, len: usize) -> crate::Bytes {
        use super::BufMut;

        if self.remaining() < len {
            panic_advance(&TryGetError {
                requested: len,
                available: self.remaining(),
            });
        }

        let mut ret = crate::BytesMut::with_capacity(len);
        ret.put(self.take(len));
        ret.freeze()
    }

    /// Creates an adaptor which will read at most `limit` bytes from `self`.
    ///
    /// This function returns a new instance of `Buf` which will read at most
    /// `limit` bytes.
    ///
    /// # Examples
    ///
    /// ```
    /// use bytes::{Buf, BufMut};
    ///
    /// let mut buf = b"hello world"[..].take(5);
    /// let mut dst = vec![];
    ///
    /// dst.put(&mut buf);
    /// assert_eq!(dst, b"hello");
    ///
    /// let mut buf = buf.into_inner();
    /// dst.clear();
    /// dst.put(&mut buf);
    /// assert_eq!(dst, b" world");
    /// ```
    fn take(self, limit: usize) -> Take<Self>
    where
        Self: Sized,
    {
        take::new(self, limit)
    }

    /// Creates an adaptor which will chain this buffer with another.
    ///
    /// The returned `Buf` instance will first consume all bytes from `self`.
    /// Afterwards the output is equivalent to the output of next.
    ///
    /// # Examples
    ///
    /// ```
    /// use bytes::Buf;
    ///
    /// let mut chain = b"hello "[..].chain(&b"world"[..]);
    ///
    /// let full = chain.copy_to_bytes(11);
    /// assert_eq!(full.chunk(), b"hello world");
    /// ```
    fn chain<U: Buf>(self, next: U) -> Chain<Self, U>
    where
        Self: Sized,
    {
        Chain::new(self, next)
    }

    /// Creates an adaptor which implements the `Read` trait for `self`.
    ///
    /// This function returns a new value which implements `Read` by adapting
    /// the `Read` trait functions to the `Buf` trait functions. Given that
    /// `Buf` operations are infallible, none of the `Read` functions will
    /// return with `Err`.
    ///
    /// # Examples
    ///
    /// ```
    /// use bytes::{Bytes, Buf};
    /// use std::io::Read;
    ///
    /// let buf = Bytes::from("hello world");
    ///
    /// let mut reader = buf.reader();
    /// let mut dst = [0; 1024];
    ///
    /// let num = reader.read(&mut dst).unwrap();
    ///
    /// assert_eq!(11, num);
    /// assert_eq!(&dst[..11], &b"hello world"[..]);
    /// ```
    #[cfg(feature = "std")]
    #[cfg_attr(docsrs, doc(cfg(feature = "std")))]
    fn reader(self) -> Reader<Self>
    where
        Self: Sized,
    {
        reader::new(self)
    }
}

macro_rules! deref_forward_buf {
    () => {
        #[inline]
        fn remaining(&self) -> usize {
            (**self).remaining()
        }

        #[inline]
        fn chunk(&self) -> &[u8] {
            (**self).chunk()
        }

        #[cfg(feature = "std")]
        #[inline]
        fn chunks_vectored<'b>(&'b self, dst: &mut [IoSlice<'b>]) -> usize {
            (**self).chunks_vectored(dst)
        }

        #[inline]
        fn advance(&mut self, cnt: usize) {
            (**self).advance(cnt)
        }

        #[inline]
        fn has_remaining(&self) -> bool {
            (**self).has_remaining()
        }

        #[inline]
        fn copy_to_slice(&mut self, dst: &mut [u8]) {
            (**self).copy_to_slice(dst)
        }

        #[inline]
        fn get_u8(&mut self) -> u8 {
            (**self).get_u8()
        }

        #[inline]
        fn get_i8(&mut self) -> i8 {
            (**self).get_i8()
        }

        #[inline]
        fn get_u16(&mut self) -> u16 {
            (**self).get_u16()
        }

        #[inline]
        fn get_u16_le(&mut self) -> u16 {
            (**self).get_u16_le()
        }

        #[inline]
        fn get_u16_ne(&mut self) -> u16 {
            (**self).get_u16_ne()
        }

        #[inline]
        fn get_i16(&mut self) -> i16 {
            (**self).get_i16()
        }

        #[inline]
        fn get_i16_le(&mut self) -> i16 {
            (**self).get_i16_le()
        }

        #[inline]
        fn get_i16_ne(&mut self) -> i16 {
            (**self).get_i16_ne()
        }

        #[inline]
        fn get_u32(&mut self) -> u32 {
            (**self).get_u32()
        }

        #[inline]
        fn get_u32_le(&mut self) -> u32 {
            (**self).get_u32_le()
        }

        #[inline]
        fn get_u32_ne(&mut self) -> u32 {
            (**self).get_u32_ne()
        }

        #[inline]
        fn get_i32(&mut self) -> i32 {
            (**self).get_i32()
        }

        #[inline]
        fn get_i32_le(&mut self) -> i32 {
            (**self).get_i32_le()
        }

        #[inline]
        fn get_i32_ne(&mut self) -> i32 {
            (**self).get_i32_ne()
        }

        #[inline]
        fn get_u64(&mut self) -> u64 {
            (**self).get_u64()
        }

        #[inline]
        fn get_u64_le(&mut self) -> u64 {
            (**self).get_u64_le()
        }

        #[inline]
        fn get_u64_ne(&mut self) -> u64 {
            (**self).get_u64_ne()
        }

        #[inline]
        fn get_i64(&mut self) -> i64 {
            (**self).get_i64()
        }

        #[inline]
        fn get_i64_le(&mut self) -> i64 {
            (**self).get_i64_le()
        }

        #[inline]
        fn get_i64_ne(&mut self) -> i64 {
            (**self).get_i64_ne()
        }

        #[inline]
        fn get_u128(&mut self) -> u128 {
            (**self).get_u128()
        }

        #[inline]
        fn get_u128_le(&mut self) -> u128 {
            (**self).get_u128_le()
        }

        #[inline]
        fn get_u128_ne(&mut self) -> u128 {
            (**self).get_u128_ne()
        }

        #[inline]
        fn get_i128(&mut self) -> i128 {
            (**self).get_i128()
        }

        #[inline]
        fn get_i128_le(&mut self) -> i128 {
            (**self).get_i128_le()
        }

        #[inline]
        fn get_i128_ne(&mut self) -> i128 {
            (**self).get_i128_ne()
        }

        #[inline]
        fn get_uint(&mut self, nbytes: usize) -> u64 {
            (**self).get_uint(nbytes)
        }

        #[inline]
        fn get_uint_le(&mut self, nbytes: usize) -> u64 {
            (**self).get_uint_le(nbytes)
        }

        #[inline]
        fn get_uint_ne(&mut self, nbytes: usize) -> u64 {
            (**self).get_uint_ne(nbytes)
        }

        #[inline]
        fn get_int(&mut self, nbytes: usize) -> i64 {
            (**self).get_int(nbytes)
        }

        #[inline]
        fn get_int_le(&mut self, nbytes: usize) -> i64 {
            (**self).get_int_le(nbytes)
        }

        #[inline]
        fn get_int_ne(&mut self, nbytes: usize) -> i64 {
            (**self).get_int_ne(nbytes)
        }

        #[inline]
        fn get_f32(&mut self) -> f32 {
            (**self).get_f32()
        }

        #[inline]
        fn get_f32_le(&mut self) -> f32 {
            (**self).get_f32_le()
        }

        #[inline]
        fn get_f32_ne(&mut self) -> f32 {
            (**self).get_f32_ne()
        }

        #[inline]
        fn get_f64(&mut self) -> f64 {
            (**self).get_f64()
        }

        #[inline]
        fn get_f64_le(&mut self) -> f64 {
            (**self).get_f64_le()
        }

        #[inline]
        fn get_f64_ne(&mut self) -> f64 {
            (**self).get_f64_ne()
        }

        #[inline]
        fn try_copy_to_slice(&mut self, dst: &mut [u8]) -> Result<(), TryGetError> {
            (**self).try_copy_to_slice(dst)
        }

        #[inline]
        fn try_get_u8(&mut self) -> Result<u8, TryGetError> {
            (**self).try_get_u8()
        }

        #[inline]
        fn try_get_i8(&mut self) -> Result<i8, TryGetError> {
            (**self).try_get_i8()
        }

        #[inline]
        fn try_get_u16(&mut self) -> Result<u16, TryGetError> {
            (**self).try_get_u16()
        }

        #[inline]
        fn try_get_u16_le(&mut self) -> Result<u16, TryGetError> {
            (**self).try_get_u16_le()
        }

        #[inline]
        fn try_get_u16_ne(&mut self) -> Result<u16, TryGetError> {
            (**self).try_get_u16_ne()
        }

        #[inline]
        fn try_get_i16(&mut self) -> Result<i16, TryGetError> {
            (**self).try_get_i16()
        }

        #[inline]
        fn try_get_i16_le(&mut self) -> Result<i16, TryGetError> {
            (**self).try_get_i16_le()
        }

        #[inline]
        fn try_get_i16_ne(&mut self) -> Result<i16, TryGetError> {
            (**self).try_get_i16_ne()
        }

        #[inline]
        fn try_get_u32(&mut self) -> Result<u32, TryGetError> {
            (**self).try_get_u32()
        }

        #[inline]
        fn try_get_u32_le(&mut self) -> Result<u32, TryGetError> {
            (**self).try_get_u32_le()
        }

        #[inline]
        fn try_get_u32_ne(&mut self) -> Result<u32, TryGetError> {
            (**self).try_get_u32_ne()
        }

        #[inline]
        fn try_get_i32(&mut self) -> Result<i32, TryGetError> {
            (**self).try_get_i32()
        }

        #[inline]
        fn try_get_i32_le(&mut self) -> Result<i32, TryGetError> {
            (**self).try_get_i32_le()
        }

        #[inline]
        fn try_get_i32_ne(&mut self) -> Result<i32, TryGetError> {
            (**self).try_get_i32_ne()
        }

        #[inline]
        fn try_get_u64(&mut self) -> Result<u64, TryGetError> {
            (**self).try_get_u64()
        }

        #[inline]
        fn try_get_u64_le(&mut self) -> Result<u64, TryGetError> {
            (**self).try_get_u64_le()
        }

        #[inline]
        fn try_get_u64_ne(&mut self) -> Result<u64, TryGetError> {
            (**self).try_get_u64_ne()
        }

        #[inline]
        fn try_get_i64(&mut self) -> Result<i64, TryGetError> {
            (**self).try_get_i64()
        }

        #[inline]
        fn try_get_i64_le(&mut self) -> Result<i64, TryGetError> {
            (**self).try_get_i64_le()
        }

        #[inline]
        fn try_get_i64_ne(&mut self) -> Result<i64, TryGetError> {
            (**self).try_get_i64_ne()
        }

        #[inline]
        fn try_get_u128(&mut self) -> Result<u128, TryGetError> {
            (**self).try_get_u128()
        }

        #[inline]
        fn try_get_u128_le(&mut self) -> Result<u128, TryGetError> {
            (**self).try_get_u128_le()
        }

        #[inline]
        fn try_get_u128_ne(&mut self) -> Result<u128, TryGetError> {
            (**self).try_get_u128_ne()
        }

        #[inline]
        fn try_get_i128(&mut self) -> Result<i128, TryGetError> {
            (**self).try_get_i128()
        }

        #[inline]
        fn try_get_i128_le(&mut self) -> Result<i128, TryGetError> {
            (**self).try_get_i128_le()
        }

        #[inline]
        fn try_get_i128_ne(&mut self) -> Result<i128, TryGetError> {
            (**self).try_get_i128_ne()
        }

        #[inline]
        fn try_get_uint(&mut self, nbytes: usize) -> Result<u64, TryGetError> {
            (**self).try_get_uint(nbytes)
        }

        #[inline]
        fn try_get_uint_le(&mut self, nbytes: usize) -> Result<u64, TryGetError> {
            (**self).try_get_uint_le(nbytes)
        }

        #[inline]
        fn try_get_uint_ne(&mut self, nbytes: usize) -> Result<u64, TryGetError> {
            (**self).try_get_uint_ne(nbytes)
        }

        #[inline]
        fn try_get_int(&mut self, nbytes: usize) -> Result<i64, TryGetError> {
            (**self).try_get_int(nbytes)
        }

        #[inline]
        fn try_get_int_le(&mut self, nbytes: usize) -> Result<i64, TryGetError> {
            (**self).try_get_int_le(nbytes)
        }

        #[inline]
        fn try_get_int_ne(&mut self, nbytes: usize) -> Result<i64, TryGetError> {
            (**self).try_get_int_ne(nbytes)
        }

        #[inline]
        fn try_get_f32(&mut self) -> Result<f32, TryGetError> {
            (**self).try_get_f32()
        }

        #[inline]
        fn try_get_f32_le(&mut self) -> Result<f32, TryGetError> {
            (**self).try_get_f32_le()
        }

        #[inline]
        fn try_get_f32_ne(&mut self) -> Result<f32, TryGetError> {
            (**self).try_get_f32_ne()
        }

        #[inline]
        fn try_get_f64(&mut self) -> Result<f64, TryGetError> {
            (**self).try_get_f64()
        }

        #[inline]
        fn try_get_f64_le(&mut self) -> Result<f64, TryGetError> {
            (**self).try_get_f64_le()
        }

        #[inline]
        fn try_get_f64_ne(&mut self) -> Result<f64, TryGetError> {
            (**self).try_get_f64_ne()
        }

        #[inline]
        fn copy_to_bytes(&mut self, len: usize) -> crate::Bytes {
            (**self).copy_to_bytes(len)
        }
    };
}

impl<T: Buf + ?Sized> Buf for &mut T {
    deref_forward_buf!();
}

impl<T: Buf + ?Sized> Buf for Box<T> {
    deref_forward_buf!();
}

impl Buf for &[u8] {
    #[inline]
    fn remaining(&self) -> usize {
        self.len()
    }

    #[inline]
    fn chunk(&self) -> &[u8] {
        self
    }

    #[inline]
    fn advance(&mut self, cnt: usize) {
        if self.len() < cnt {
            panic_advance(&TryGetError {
                requested: cnt,
                available: self.len(),
            });
        }

        *self = &self[cnt..];
    }

    #[inline]
    fn copy_to_slice(&mut self, dst: &mut [u8]) {
        if self.len() < dst.len() {
            panic_advance(&TryGetError {
                requested: dst.len(),
                available: self.len(),
            });
        }

        dst.copy_from_slice(&self[..dst.len()]);
        self.advance(dst.len());
    }
}

#[cfg(feature = "std")]
impl<T: AsRef<[u8]>> Buf for std::io::Cursor<T> {
    #[inline]
    fn remaining(&self) -> usize {
        saturating_sub_usize_u64(self.get_ref().as_ref().len(), self.position())
    }

    #[inline]
    fn chunk(&self) -> &[u8] {
        let slice = self.get_ref().as_ref();
        let pos = min_u64_usize(self.position(), slice.len());
        &slice[pos..]
    }

    #[inline]
    fn advance(&mut self, cnt: usize) {
        let len = self.get_ref().as_ref().len();
        let pos = self.position();

        // We intentionally allow `cnt == 0` here even if `pos > len`.
        let max_cnt = saturating_sub_usize_u64(len, pos);
        if cnt > max_cnt {
            panic_advance(&TryGetError {
                requested: cnt,
                available: max_cnt,
            });
        }

        // This will not overflow because either `cnt == 0` or the sum is not
        // greater than `len`.
        self.set_position(pos + cnt as u64);
    }
}

// The existence of this function makes the compiler catch if the Buf
// trait is "object-safe" or not.
fn _assert_trait_object(_b: &dyn Buf) {}
