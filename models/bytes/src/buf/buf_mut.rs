use crate::buf::{limit, Chain, Limit, UninitSlice};
#[cfg(feature = "std")]
use crate::buf::{writer, Writer};
use crate::{panic_advance, panic_does_not_fit, TryGetError};

use core::{mem, ptr};

use alloc::{boxed::Box, vec::Vec};

/// A trait for values that provide sequential write access to bytes.
///
/// Write bytes to a buffer
///
/// A buffer stores bytes in memory such that write operations are infallible.
/// The underlying storage may or may not be in contiguous memory. A `BufMut`
/// value is a cursor into the buffer. Writing to `BufMut` advances the cursor
/// position.
///
/// The simplest `BufMut` is a `Vec<u8>`.
///
/// ```
/// use bytes::BufMut;
///
/// let mut buf = vec![];
///
/// buf.put(&b"hello world"[..]);
///
/// assert_eq!(buf, b"hello world");
/// ```
pub unsafe trait BufMut {
    /// Returns the number of bytes that can be written from the current
    /// position until the end of the buffer is reached.
    ///
    /// This value is greater than or equal to the length of the slice returned
    /// by `chunk_mut()`.
    ///
    /// Writing to a `BufMut` may involve allocating more memory on the fly.
    /// Implementations may fail before reaching the number of bytes indicated
    /// by this method if they encounter an allocation failure.
    ///
    /// # Examples
    ///
    /// ```
    /// use bytes::BufMut;
    ///
    /// let mut dst = [0; 10];
    /// let mut buf = &mut dst[..];
    ///
    /// let original_remaining = buf.remaining_mut();
    /// buf.put(&b"hello"[..]);
    ///
    /// assert_eq!(original_remaining - 5, buf.remaining_mut());
    /// ```
    ///
    /// # Implementer notes
    ///
    /// Implementations of `remaining_mut` should ensure that the return value
    /// does not change unless a call is made to `advance_mut` or any other
    /// function that is documented to change the `BufMut`'s current position.
    ///
    /// # Note
    ///
    /// `remaining_mut` may return value smaller than actual available space.
    fn remaining_mut(&self) -> usize;

    /// Advance the internal cursor of the BufMut
    ///
    /// The next call to `chunk_mut` will return a slice starting `cnt` bytes
    /// further into the underlying buffer.
    ///
    /// # Safety
    ///
    /// The caller must ensure that the next `cnt` bytes of `chunk` are
    /// initialized.
    ///
    /// # Examples
    ///
    /// ```
    /// use bytes::BufMut;
    ///
    /// let mut buf = Vec::with_capacity(16);
    ///
    /// // Write some data
    /// buf.chunk_mut()[0..2].copy_from_slice(b"he");
    /// unsafe { buf.advance_mut(2) };
    ///
    /// // write more bytes
    /// buf.chunk_mut()[0..3].copy_from_slice(b"llo");
    ///
    /// unsafe { buf.advance_mut(3); }
    ///
    /// assert_eq!(5, buf.len());
    /// assert_eq!(buf, b"hello");
    /// ```
    ///
    /// # Panics
    ///
    /// This function **may** panic if `cnt > self.remaining_mut()`.
    ///
    /// # Implementer notes
    ///
    /// It is recommended for implementations of `advance_mut` to panic if
    /// `cnt > self.remaining_mut()`. If the implementation does not panic,
    /// the call must behave as if `cnt == self.remaining_mut()`.
    ///
    /// A call with `cnt == 0` should never panic and be a no-op.
    unsafe fn advance_mut(&mut self, cnt: usize);

    /// Returns true if there is space in `self` for more bytes.
    ///
    /// This is equivalent to `self.remaining_mut() != 0`.
    ///
    /// # Examples
    ///
    /// ```
    /// use bytes::BufMut;
    ///
    /// let mut dst = [0; 5];
    /// let mut buf = &mut dst[..];
    ///
    /// assert!(buf.has_remaining_mut());
    ///
    /// buf.put(&b"hello"[..]);
    ///
    /// assert!(!buf.has_remaining_mut());
    /// ```
    #[inline]
    fn has_remaining_mut(&self) -> bool {
        self.remaining_mut() > 0
    }

    /// Returns a mutable slice starting at the current BufMut position and of
    /// length between 0 and `BufMut::remaining_mut()`. Note that this *can* be shorter than the
    /// whole remainder of the buffer (this allows non-continuous implementation).
    ///
    /// This is a lower level function. Most operations are done with other
    /// functions.
    ///
    /// The returned byte slice may represent uninitialized memory.
    ///
    /// # Examples
    ///
    /// ```
    /// use bytes::BufMut;
    ///
    /// let mut buf = Vec::with_capacity(16);
    ///
    /// unsafe {
    ///     // MaybeUninit::as_mut_ptr
    ///     buf.chunk_mut()[0..].as_mut_ptr().write(b'h');
    ///     buf.chunk_mut()[1..].as_mut_ptr().write(b'e');
    ///
    ///     buf.advance_mut(2);
    ///
    ///     buf.chunk_mut()[0..].as_mut_ptr().write(b'l');
    ///     buf.chunk_mut()[1..].as_mut_ptr().write(b'l');
    ///     buf.chunk_mut()[2..].as_mut_ptr().write(b'o');
    ///
    ///     buf.advance_mut(3);
    /// }
    ///
    /// assert_eq!(5, buf.len());
    /// assert_eq!(buf, b"hello");
    /// ```
    ///
    /// # Implementer notes
    ///
    /// This function should never panic. `chunk_mut()` should return an empty
    /// slice **if and only if** `remaining_mut()` returns 0. In other words,
    /// `chunk_mut()` returning an empty slice implies that `remaining_mut()` will
    /// return 0 and `remaining_mut()` returning 0 implies that `chunk_mut()` will
    /// return an empty slice.
    ///
    /// This function may trigger an out-of-memory abort if it tries to allocate
    /// memory and fails to do so.
    // The `chunk_mut` method was previously called `bytes_mut`. This alias makes the
    // rename more easily discoverable.
    #[cfg_attr(docsrs, doc(alias = "bytes_mut"))]
    fn chunk_mut(&mut self) -> &mut UninitSlice;

    /// Transfer bytes into `self` from `src` and advance the cursor by the
    /// number of bytes written.
    ///
    /// # Examples
    ///
    /// ```
    /// use bytes::BufMut;
    ///
    /// let mut buf = vec![];
    ///
    /// buf.put_u8(b'h');
    /// buf.put(&b"ello"[..]);
    /// buf.put(&b" world"[..]);
    ///
    /// assert_eq!(buf, b"hello world");
    /// ```
    ///
    /// # Panics
    ///
    /// Panics if `self` does not have enough capacity to contain `src`.
    #[inline]
    fn put<T: super::Buf>(&mut self, mut src: T)
    where
        Self: Sized,
    {
        if self.remaining_mut() < src.remaining() {
            panic_advance(&TryGetError {
                requested: src.remaining(),
                available: self.remaining_mut(),
            });
        }

        while src.has_remaining() {
            let s = src.chunk();
            let d = self.chunk_mut();
            let cnt = usize::min(s.len(), d.len());

            d[..cnt].copy_from_slice(&s[..cnt]);

            // SAFETY: We just initialized `cnt` bytes in `self`.
            unsafe { self.advance_mut(cnt) };
            src.advance(cnt);
        }
    }

    /// Transfer bytes into `self` from `src` and advance the cursor by the
    /// number of bytes written.
    ///
    /// `self` must have enough remaining capacity to contain all of `src`.
    ///
    /// ```
    /// use bytes::BufMut;
    ///
    /// let mut dst = [0; 6];
    ///
    /// {
    ///     let mut buf = &mut dst[..];
    ///     buf.put_slice(b"hello");
    ///
    ///     assert_eq!(1, buf.remaining_mut());
    /// }
    ///
    /// assert_eq!(b"hello\0", &dst);
    /// ```
    #[inline]
    fn put_slice(&mut self, mut src: &[u8]) {
        if self.remaining_mut() < src.len() {
            panic_advance(&TryGetError {
                requested: src.len(),
                available: self.remaining_mut(),
            });
        }

        while !src.is_empty() {
            let dst = self.chunk_mut();
            let cnt = usize::min(src.len(), dst.len());

            dst[..cnt].copy_from_slice(&src[..cnt]);
            src = &src[cnt..];

            // SAFETY: We just initialized `cnt` bytes in `self`.
            unsafe { self.advance_mut(cnt) };
        }
    }

    /// Put `cnt` bytes `val` into `self`.
    ///
    /// Logically equivalent to calling `self.put_u8(val)` `cnt` times, but may work faster.
    ///
    /// `self` must have at least `cnt` remaining capacity.
    ///
    /// ```
    /// use bytes::BufMut;
    ///
    /// let mut dst = [0; 6];
    ///
    /// {
    ///     let mut buf = &mut dst[..];
    ///     buf.put_bytes(b'a', 4);
    ///
    ///     assert_eq!(2, buf.remaining_mut());
    /// }
    ///
    /// assert_eq!(b"aaaa\0\0", &dst);
    /// ```
    ///
    /// # Panics
    ///
    /// This function panics if there is not enough remaining capacity in
    /// `self`.
    #[inline]
    fn put_bytes(&mut self, val: u8, mut cnt: usize) {
        if self.remaining_mut() < cnt {
            panic_advance(&TryGetError {
                requested: cnt,
                available: self.remaining_mut(),
            })
        }

        while cnt > 0 {
            let dst = self.chunk_mut();
            let dst_len = usize::min(dst.len(), cnt);
            // SAFETY: The pointer is valid for `dst_len <= dst.len()` bytes.
            unsafe { core::ptr::write_bytes(dst.as_mut_ptr(), val, dst_len) };
            // SAFETY: We just initialized `dst_len` bytes in `self`.
            unsafe { self.advance_mut(dst_len) };
            cnt -= dst_len;
        }
    }

    /// Writes an unsigned 8 bit integer to `self`.
    ///
    /// The current position is advanced by 1.
    ///
    /// # Examples
    ///
    /// ```
    /// use bytes::BufMut;
    ///
    /// let mut buf = vec![];
    /// buf.put_u8(0x01);
    /// assert_eq!(buf, b"\x01");
    /// ```
    ///
    /// # Panics
    ///
    /// This function panics if there is not enough remaining capacity in
    /// `self`.
    #[inline]
    fn put_u8(&mut self, n: u8) {
        let src = [n];
        self.put_slice(&src);
    }

    /// Writes a signed 8 bit integer to `self`.
    ///
    /// The current position is advanced by 1.
    ///
    /// # Examples
    ///
    /// ```
    /// use bytes::BufMut;
    ///
    /// let mut buf = vec![];
    /// buf.put_i8(0x01);
    /// assert_eq!(buf, b"\x01");
    /// ```
    ///
    /// # Panics
    ///
    /// This function panics if there is not enough remaining capacity in
    /// `self`.
    #[inline]
    fn put_i8(&mut self, n: i8) {
        let src = [n as u8];
        self.put_slice(&src)
    }

    /// Writes an unsigned 16 bit integer to `self` in big-endian byte order.
    ///
    /// The current position is advanced by 2.
    ///
    /// # Examples
    ///
    /// ```
    /// use bytes::BufMut;
    ///
    /// let mut buf = vec![];
    /// buf.put_u16(0x0809);
    /// assert_eq!(buf, b"\x08\x09");
    /// ```
    ///
    /// # Panics
    ///
    /// This function panics if there is not enough remaining capacity in
    /// `self`.
    #[inline]
    fn put_u16(&mut self, n: u16) {
        self.put_slice(&n.to_be_bytes())
    }

    /// Writes an unsigned 16 bit integer to `self` in little-endian byte order.
    ///
    /// The current position is advanced by 2.
    ///
    /// # Examples
    ///
    /// ```
    /// use bytes::BufMut;
    ///
    /// let mut buf = vec![];
    /// buf.put_u16_le(0x0809);
    /// assert_eq!(buf, b"\x09\x08");
    /// ```
    ///
    /// # Panics
    ///
    /// This function panics if there is not enough remaining capacity in
    /// `self`.
    #[inline]
    fn put_u16_le(&mut self, n: u16) {
        self.put_slice(&n.to_le_bytes())
    }

    /// Writes an unsigned 16 bit integer to `self` in native-endian byte order.
    ///
    /// The current position is advanced by 2.
    ///
    /// # Examples
    ///
    /// ```
    /// use bytes::BufMut;
    ///
    /// let mut buf = vec![];
    /// buf.put_u16_ne(0x0809);
    /// if cfg!(target_endian = "big") {
    ///     assert_eq!(buf, b"\x08\x09");
    /// } else {
    ///     assert_eq!(buf, b"\x09\x08");
    /// }
    /// ```
    ///
    /// # Panics
    ///
    /// This function panics if there is not enough remaining capacity in
    /// `self`.
    #[inline]
    fn put_u16_ne(&mut self, n: u16) {
        self.put_slice(&n.to_ne_bytes())
    }

    /// Writes a signed 16 bit integer to `self` in big-endian byte order.
    ///
    /// The current position is advanced by 2.
    ///
    /// # Examples
    ///
    /// ```
    /// use bytes::BufMut;
    ///
    /// let mut buf = vec![];
    /// buf.put_i16(0x0809);
    /// assert_eq!(buf, b"\x08\x09");
    /// ```
    ///
    /// # Panics
    ///
    /// This function panics if there is not enough remaining capacity in
    /// `self`.
    #[inline]
    fn put_i16(&mut self, n: i16) {
        self.put_slice(&n.to_be_bytes())
    }

    /// Writes a signed 16 bit integer to `self` in little-endian byte order.
    ///
    /// The current position is advanced by 2.
    ///
    /// # Examples
    ///
    /// ```
    /// use bytes::BufMut;
    ///
    /// let mut buf = vec![];
    /// buf.put_i16_le(0x0809);
    /// assert_eq!(buf, b"\x09\x08");
    /// ```
    ///
    /// # Panics
    ///
    /// This function panics if there is not enough remaining capacity in
    /// `self`.
    #[inline]
    fn put_i16_le(&mut self, n: i16) {
        self.put_slice(&n.to_le_bytes())
    }

    /// Writes a signed 16 bit integer to `self` in native-endian byte order.
    ///
    /// The current position is advanced by 2.
    ///
    /// # Examples
    ///
    /// ```
    /// use bytes::BufMut;
    ///
    /// let mut buf = vec![];
    /// buf.put_i16_ne(0x0809);
    /// if cfg!(target_endian = "big") {
    ///     assert_eq!(buf, b"\x08\x09");
    /// } else {
    ///     assert_eq!(buf, b"\x09\x08");
    /// }
    /// ```
    ///
    /// # Panics
    ///
    /// This function panics if there is not enough remaining capacity in
    /// `self`.
    #[inline]
    fn put_i16_ne(&mut self, n: i16) {
        self.put_slice(&n.to_ne_bytes())
    }

    /// Writes an unsigned 32 bit integer to `self` in big-endian byte order.
    ///
    /// The current position is advanced by 4.
    ///
    /// # Examples
    ///
    /// ```
    /// use bytes::BufMut;
    ///
    /// let mut buf = vec![];
    /// buf.put_u32(0x0809A0A1);
    /// assert_eq!(buf, b"\x08\x09\xA0\xA1");
    /// ```
    ///
    /// # Panics
    ///
    /// This function panics if there is not enough remaining capacity in
    /// `self`.
    #[inline]
    fn put_u32(&mut self, n: u32) {
        self.put_slice(&n.to_be_bytes())
    }

    /// Writes an unsigned 32 bit integer to `self` in little-endian byte order.
    ///
    /// The current position is advanced by 4.
    ///
    /// # Examples
    ///
    /// ```
    /// use bytes::BufMut;
    ///
    /// let mut buf = vec![];
    /// buf.put_u32_le(0x0809A0A1);
    /// assert_eq!(buf, b"\xA1\xA0\x09\x08");
    /// ```
    ///
    /// # Panics
    ///
    /// This function panics if there is not enough remaining capacity in
    /// `self`.
    #[inline]
    fn put_u32_le(&mut self, n: u32) {
        self.put_slice(&n.to_le_bytes())
    }

    /// Writes an unsigned 32 bit integer to `self` in native-endian byte order.
    ///
    /// The current position is advanced by 4.
    ///
    /// # Examples
    ///
    /// ```
    /// use bytes::BufMut;
    ///
    /// let mut buf = vec![];
    /// buf.put_u32_ne(0x0809A0A1);
    /// if cfg!(target_endian = "big") {
    ///     assert_eq!(buf, b"\x08\x09\xA0\xA1");
    /// } else {
    ///     assert_eq!(buf, b"\xA1\xA0\x09\x08");
    /// }
    /// ```
    ///
    /// # Panics
    ///
    /// This function panics if there is not enough remaining capacity in
    /// `self`.
    #[inline]
    fn put_u32_ne(&mut self, n: u32) {
        self.put_slice(&n.to_ne_bytes())
    }

    /// Writes a signed 32 bit integer to `self` in big-endian byte order.
    ///
    /// The current position is advanced by 4.
    ///
    /// # Examples
    ///
    /// ```
    /// use bytes::BufMut;
    ///
    /// let mut buf = vec![];
    /// buf.put_i32(0x0809A0A1);
    /// assert_eq!(buf, b"\x08\x09\xA0\xA1");
    /// ```
    ///
    /// # Panics
    ///
    /// This function panics if there is not enough remaining capacity in
    /// `self`.
    #[inline]
    fn put_i32(&mut self, n: i32) {
        self.put_slice(&n.to_be_bytes())
    }

    /// Writes a signed 32 bit integer to `self` in little-endian byte order.
    ///
    /// The current position is advanced by 4.
    ///
    /// # Examples
    ///
    /// ```
    /// use bytes::BufMut;
    ///
    /// let mut buf = vec![];
    /// buf.put_i32_le(0x0809A0A1);
    /// assert_eq!(buf, b"\xA1\xA0\x09\x08");
    /// ```
    ///
    /// # Panics
    ///
    /// This function panics if there is not enough remaining capacity in
    /// `self`.
    #[inline]
    fn put_i32_le(&mut self, n: i32) {
        self.put_slice(&n.to_le_bytes())
    }

    /// Writes a signed 32 bit integer to `self` in native-endian byte order.
    ///
    /// The current position is advanced by 4.
    ///
    /// # Examples
    ///
    /// ```
    /// use bytes::BufMut;
    ///
    /// let mut buf = vec![];
    /// buf.put_i32_ne(0x0809A0A1);
    /// if cfg!(target_endian = "big") {
    ///     assert_eq!(buf, b"\x08\x09\xA0\xA1");
    /// } else {
    ///     assert_eq!(buf, b"\xA1\xA0\x09\x08");
    /// }
    /// ```
    ///
    /// # Panics
    ///
    /// This function panics if there is not enough remaining capacity in
    /// `self`.
    #[inline]
    fn put_i32_ne(&mut self, n: i32) {
        self.put_slice(&n.to_ne_bytes())
    }

    /// Writes an unsigned 64 bit integer to `self` in the big-endian byte order.
    ///
    /// The current position is advanced by 8.
    ///
    /// # Examples
    ///
    /// ```
    /// use bytes::BufMut;
    ///
    /// let mut buf = vec![];
    /// buf.put_u64(0x0102030405060708);
    /// assert_eq!(buf, b"\x01\x02\x03\x04\x05\x06\x07\x08");
    /// ```
    ///
    /// # Panics
    ///
    /// This function panics if there is not enough remaining capacity in
    /// `self`.
    #[inline]
    fn put_u64(&mut self, n: u64) {
        self.put_slice(&n.to_be_bytes())
    }

    /// Writes an unsigned 64 bit integer to `self` in little-endian byte order.
    ///
    /// The current position is advanced by 8.
    ///
    /// # Examples
    ///
    /// ```
    /// use bytes::BufMut;
    ///
    /// let mut buf = vec![];
    /// buf.put_u64_le(0x0102030405060708);
    /// assert_eq!(buf, b"\x08\x07\x06\x05\x04\x03\x02\x01");
    /// ```
    ///
    /// # Panics
    ///
    /// This function panics if there is not enough remaining capacity in
    /// `self`.
    #[inline]
    fn put_u64_le(&mut self, n: u64) {
        self.put_slice(&n.to_le_bytes())
    }

    /// Writes an unsigned 64 bit integer to `self` in native-endian byte order.
    ///
    /// The current position is advanced by 8.
    ///
    /// # Examples
    ///
    /// ```
    /// use bytes::BufMut;
    ///
    /// let mut buf = vec![];
    /// buf.put_u64_ne(0x0102030405060708);
    /// if cfg!(target_endian = "big") {
    ///     assert_eq!(buf, b"\x01\x02\x03\x04\x05\x06\x07\x08");
    /// } else {
    ///     assert_eq!(buf, b"\x08\x07\x06\x05\x04\x03\x02\x01");
    /// }
    /// ```
    ///
    /// # Panics
    ///
    /// This function panics if there is not enough remaining capacity in
    /// `self`.
    #[inline]
    fn put_u64_ne(&mut self, n: u64) {
        self.put_slice(&n.to_ne_bytes())
    }

    /// Writes a signed 64 bit integer to `self` in the big-endian byte order.
    ///
    /// The current position is advanced by 8.
    ///
    /// # Examples
    ///
    /// ```
    /// use bytes::BufMut;
    ///
    /// let mut buf = vec![];
    /// buf.put_i64(0x0102030405060708);
    /// assert_eq!(buf, b"\x01\x02\x03\x04\x05\x06\x07\x08");
    /// ```
    ///
    /// # Panics
    ///
    /// This function panics if there is not enough remaining capacity in
    /// `self`.
    #[inline]
    fn put_i64(&mut self, n: i64) {
        self.put_slice(&n.to_be_bytes())
    }

    /// Writes a signed 64 bit integer to `self` in little-endian byte order.
    ///
    /// The current position is advanced by 8.
    ///
    /// # Examples
    ///
    /// ```
    /// use bytes::BufMut;
    ///
    /// let mut buf = vec![];
    /// buf.put_i64_le(0x0102030405060708);
    /// assert_eq!(buf, b"\x08\x07\x06\x05\x04\x03\x02\x01");
    /// ```
    ///
    /// # Panics
    ///
    /// This function panics if there is not enough remaining capacity in
    /// `self`.
    #[inline]
    fn put_i64_le(&mut self, n: i64) {
        self.put_slice(&n.to_le_bytes())
    }

    /// Writes a signed 64 bit integer to `self` in native-endian byte order.
    ///
    /// The current position is advanced by 8.
    ///
    /// # Examples
    ///
    /// ```
    /// use bytes::BufMut;
    ///
    /// let mut buf = vec![];
    /// buf.put_i64_ne(0x0102030405060708);
    /// if cfg!(target_endian = "big") {
    ///     assert_eq!(buf, b"\x01\x02\x03\x04\x05\x06\x07\x08");
    /// } else {
    ///     assert_eq!(buf, b"\x08\x07\x06\x05\x04\x03\x02\x01");
    /// }
    /// ```
    ///
    /// # Panics
    ///
    /// This function panics if there is not enough remaining capacity in
    /// `self`.
    #[inline]
    fn put_i64_ne(&mut self, n: i64) {
        self.put_slice(&n.to_ne_bytes())
    }

    /// Writes an unsigned 128 bit integer to `self` in the big-endian byte order.
    ///
    /// The current position is advanced by 16.
    ///
    /// # Examples
    ///
    /// ```
    /// use bytes::BufMut;
    ///
    /// let mut buf = vec![];
    /// buf.put_u128(0x01020304050607080910111213141516);
    /// assert_eq!(buf, b"\x01\x02\x03\x04\x05\x06\x07\x08\x09\x10\x11\x12\x13\x14\x15\x16");
    /// ```
    ///
    /// # Panics
    ///
    /// This function panics if there is not enough remaining capacity in
    /// `self`.
    #[inline]
    fn put_u128(&mut self, n: u128) {
        self.put_slice(&n.to_be_bytes())
    }

    /// Writes an unsigned 128 bit integer to `self` in little-endian byte order.
    ///
    /// The current position is advanced by 16.
    ///
    /// # Examples
    ///
    /// ```
    /// use bytes::BufMut;
    ///
    /// let mut buf = vec![];
    /// buf.put_u128_le(0x01020304050607080910111213141516);
    /// assert_eq!(buf, b"\x16\x15\x14\x13\x12\x11\x10\x09\x08\x07\x06\x05\x04\x03\x02\x01");
    /// ```
    ///
    /// # Panics
    ///
    /// This function panics if there is not enough remaining capacity in
    /// `self`.
    #[inline]
    fn put_u128_le(&mut self, n: u128) {
        self.put_slice(&n.to_le_bytes())
    }

    /// Writes an unsigned 128 bit integer to `self` in native-endian byte order.
    ///
    /// The current position is advanced by 16.
    ///
    /// # Examples
    ///
    /// ```
    /// use bytes::BufMut;
    ///
    /// let mut buf = vec![];
    /// buf.put_u128_ne(0x01020304050607080910111213141516);
    /// if cfg!(target_endian = "big") {
    ///     assert_eq!(buf, b"\x01\x02\x03\x04\x05\x06\x07\x08\x09\x10\x11\x12\x13\x14\x15\x16");
    /// } else {
    ///     assert_eq!(buf, b"\x16\x15\x14\x13\x12\x11\x10\x09\x08\x07\x06\x05\x04\x03\x02\x01");
    /// }
    /// ```
    ///
    /// # Panics
    ///
    /// This function panics if there is not enough remaining capacity in
    /// `self`.
    #[inline]
    fn put_u128_ne(&mut self, n: u128) {
        self.put_slice(&n.to_ne_bytes())
    }

    /// Writes a signed 128 bit integer to `self` in the big-endian byte order.
    ///
    /// The current position is advanced by 16.
    ///
    /// # Examples
    ///
    /// ```
    /// use bytes::BufMut;
    ///
    /// let mut buf = vec![];
    /// buf.put_i128(0x01020304050607080910111213141516);
    /// assert_eq!(buf, b"\x01\x02\x03\x04\x05\x06\x07\x08\x09\x10\x11\x12\x13\x14\x15\x16");
    /// ```
    ///
    /// # Panics
    ///
    /// This function panics if there is not enough remaining capacity in
    /// `self`.
    #[inline]
    fn put_i128(&mut self, n: i128) {
        self.put_slice(&n.to_be_bytes())
    }

    /// Writes a signed 128 bit integer to `self` in little-endian byte order.
    ///
    /// The current position is advanced by 16.
    ///
    /// # Examples
    ///
    /// ```
    /// use bytes::BufMut;
    ///
    /// let mut buf = vec![];
    /// buf.put_i128_le(0x01020304050607080910111213141516);
    /// assert_eq!(buf, b"\x16\x15\x14\x13\x12\x11\x10\x09\x08\x07\x06\x05\x04\x03\x02\x01");
    /// ```
    ///
    /// # Panics
    ///
    /// This function panics if there is not enough remaining capacity in
    /// `self`.
    #[inline]
    fn put_i128_le(&mut self, n: i128) {
        self.put_slice(&n.to_le_bytes())
    }

    /// Writes a signed 128 bit integer to `self` in native-endian byte order.
    ///
    /// The current position is advanced by 16.
    ///
    /// # Examples
    ///
    /// ```
    /// use bytes::BufMut;
    ///
    /// let mut buf = vec![];
    /// buf.put_i128_ne(0x01020304050607080910111213141516);
    /// if cfg!(target_endian = "big") {
    ///     assert_eq!(buf, b"\x01\x02\x03\x04\x05\x06\x07\x08\x09\x10\x11\x12\x13\x14\x15\x16");
    /// } else {
    ///     assert_eq!(buf, b"\x16\x15\x14\x13\x12\x11\x10\x09\x08\x07\x06\x05\x04\x03\x02\x01");
    /// }
    /// ```
    ///
    /// # Panics
    ///
    /// This function panics if there is not enough remaining capacity in
    /// `self`.
    #[inline]
    fn put_i128_ne(&mut self, n: i128) {
        self.put_slice(&n.to_ne_bytes())
    }

    /// Writes an unsigned n-byte integer to `self` in big-endian byte order.
    ///
    /// The current position is advanced by `nbytes`.
    ///
    /// # Examples
    ///
    /// ```
    /// use bytes::BufMut;
    ///
    /// let mut buf = vec![];
    /// buf.put_uint(0x010203, 3);
    /// assert_eq!(buf, b"\x01\x02\x03");
    /// ```
    ///
    /// # Panics
    ///
    /// This function panics if there is not enough remaining capacity in
    /// `self` or if `nbytes` is greater than 8.
    #[inline]
    fn put_uint(&mut self, n: u64, nbytes: usize) {
        let start = match mem::size_of_val(&n).checked_sub(nbytes) {
            Some(start) => start,
            None => panic_does_not_fit(nbytes, mem::size_of_val(&n)),
        };

        self.put_slice(&n.to_be_bytes()[start..]);
    }

    /// Writes an unsigned n-byte integer to `self` in the little-endian byte order.
    ///
    /// The current position is advanced by `nbytes`.
    ///
    /// # Examples
    ///
    /// ```
    /// use bytes::BufMut;
    ///
    /// let mut buf = vec![];
    /// buf.put_uint_le(0x010203, 3);
    /// assert_eq!(buf, b"\x03\x02\x01");
    /// ```
    ///
    /// # Panics
    ///
    /// This function panics if there is not enough remaining capacity in
    /// `self` or if `nbytes` is greater than 8.
    #[inline]
    fn put_uint_le(&mut self, n: u64, nbytes: usize) {
        let slice = n.to_le_bytes();
        let slice = match slice.get(..nbytes) {
            Some(slice) => slice,
            None => panic_does_not_fit(nbytes, slice.len()),
        };

        self.put_slice(slice);
    }

    /// Writes an unsigned n-byte integer to `self` in the native-endian byte order.
    ///
    /// The current position is advanced by `nbytes`.
    ///
    /// # Examples
    ///
    /// ```
    /// use bytes::BufMut;
    ///
    /// let mut buf = vec![];
    /// buf.put_uint_ne(0x010203, 3);
    /// if cfg!(target_endian = "big") {
    ///     assert_eq!(buf, b"\x01\x02\x03");
    /// } else {
    ///     assert_eq!(buf, b"\x03\x02\x01");
    /// }
    /// ```
    ///
    /// # Panics
    ///
    /// This function panics if there is not enough remaining capacity in
    /// `self` or if `nbytes` is greater than 8.
    #[inline]
    fn put_uint_ne(&mut self, n: u64, nbytes: usize) {
        if cfg!(target_endian = "big") {
            self.put_uint(n, nbytes)
        } else {
            self.put_uint_le(n, nbytes)
        }
    }

    /// Writes low `nbytes` of a signed integer to `self` in big-endian byte order.
    ///
    /// The current position is advanced by `nbytes`.
    ///
    /// # Examples
    ///
    /// ```
    /// use bytes::BufMut;
    ///
    /// let mut buf = vec![];
    /// buf.put_int(0x0504010203, 3);
    /// assert_eq!(buf, b"\x01\x02\x03");
    /// ```
    ///
    /// # Panics
    ///
    /// This function panics if there is not enough remaining capacity in
    /// `self` or if `nbytes` is greater than 8.
    #[inline]
    fn put_int(&mut self, n: i64, nbytes: usize) {
        let start = match mem::size_of_val(&n).checked_sub(nbytes) {
            Some(start) => start,
            None => panic_does_not_fit(nbytes, mem::size_of_val(&n)),
        };

        self.put_slice(&n.to_be_bytes()[start..]);
    }

    /// Writes low `nbytes` of a signed integer to `self` in little-endian byte order.
    ///
    /// The current position is advanced by `nbytes`.
    ///
    /// # Examples
    ///
    /// ```
    /// use bytes::BufMut;
    ///
    /// let mut buf = vec![];
    /// buf.put_int_le(0x0504010203, 3);
    /// assert_eq!(buf, b"\x03\x02\x01");
    /// ```
    ///
    /// # Panics
    ///
    /// This function panics if there is not enough remaining capacity in
    /// `self` or if `nbytes` is greater than 8.
    #[inline]
    fn put_int_le(&mut self, n: i64, nbytes: usize) {
        let slice = n.to_le_bytes();
        let slice = match slice.get(..nbytes) {
            Some(slice) => slice,
            None => panic_does_not_fit(nbytes, slice.len()),
        };

        self.put_slice(slice);
    }

    /// Writes low `nbytes` of a signed integer to `self` in native-endian byte order.
    ///
    /// The current position is advanced by `nbytes`.
    ///
    /// # Examples
    ///
    /// ```
    /// use bytes::BufMut;
    ///
    /// let mut buf = vec![];
    /// buf.put_int_ne(0x010203, 3);
    /// if cfg!(target_endian = "big") {
    ///     assert_eq!(buf, b"\x01\x02\x03");
    /// } else {
    ///     assert_eq!(buf, b"\x03\x02\x01");
    /// }
    /// ```
    ///
    /// # Panics
    ///
    /// This function panics if there is not enough remaining capacity in
    /// `self` or if `nbytes` is greater than 8.
    #[inline]
    fn put_int_ne(&mut self, n: i64, nbytes: usize) {
        if cfg!(target_endian = "big") {
            self.put_int(n, nbytes)
        } else {
            self.put_int_le(n, nbytes)
        }
    }

    /// Writes an IEEE754 single-precision (4 bytes) floating point number to
    /// `self` in big-endian byte order.
    ///
    /// The current position is advanced by 4.
    ///
    /// # Examples
    ///
    /// ```
    /// use bytes::BufMut;
    ///
    /// let mut buf = vec![];
    /// buf.put_f32(1.2f32);
    /// assert_eq!(buf, b"\x3F\x99\x99\x9A");
    /// ```
    ///
    /// # Panics
    ///
    /// This function panics if there is not enough remaining capacity in
    /// `self`.
    #[inline]
    fn put_f32(&mut self, n: f32) {
        self.put_u32(n.to_bits());
    }

    /// Writes an IEEE754 single-precision (4 bytes) floating point number to
    /// `self` in little-endian byte order.
    ///
    /// The current position is advanced by 4.
    ///
    /// # Examples
    ///
    /// ```
    /// use bytes::BufMut;
    ///
    /// let mut buf = vec![];
    /// buf.put_f32_le(1.2f32);
    /// assert_eq!(buf, b"\x9A\x99\x99\x3F");
    /// ```
    ///
    /// # Panics
    ///
    /// This function panics if there is not enough remaining capacity in
    /// `self`.
    #[inline]
    fn put_f32_le(&mut self, n: f32) {
        self.put_u32_le(n.to_bits());
    }

    /// Writes an IEEE754 single-precision (4 bytes) floating point number to
    /// `self` in native-endian byte order.
    ///
    /// The current position is advanced by 4.
    ///
    /// # Examples
    ///
    /// ```
    /// use bytes::BufMut;
    ///
    /// let mut buf = vec![];
    /// buf.put_f32_ne(1.2f32);
    /// if cfg!(target_endian = "big") {
    ///     assert_eq!(buf, b"\x3F\x99\x99\x9A");
    /// } else {
    ///     assert_eq!(buf, b"\x9A\x99\x99\x3F");
    /// }
    /// ```
    ///
    /// # Panics
    ///
    /// This function panics if there is not enough remaining capacity in
    /// `self`.
    #[inline]
    fn put_f32_ne(&mut self, n: f32) {
        self.put_u32_ne(n.to_bits());
    }

    /// Writes an IEEE754 double-precision (8 bytes) floating point number to
    /// `self` in big-endian byte order.
    ///
    /// The current position is advanced by 8.
    ///
    /// # Examples
    ///
    /// ```
    /// use bytes::BufMut;
    ///
    /// let mut buf = vec![];
    /// buf.put_f64(1.2f64);
    /// assert_eq!(buf, b"\x3F\xF3\x33\x33\x33\x33\x33\x33");
    /// ```
    ///
    /// # Panics
    ///
    /// This function panics if there is not enough remaining capacity in
    /// `self`.
    #[inline]
    fn put_f64(&mut self, n: f64) {
        self.put_u64(n.to_bits());
    }

    /// Writes an IEEE754 double-precision (8 bytes) floating point number to
    /// `self` in little-endian byte order.
    ///
    /// The current position is advanced by 8.
    ///
    /// # Examples
    ///
    /// ```
    /// use bytes::BufMut;
    ///
    /// let mut buf = vec![];
    /// buf.put_f64_le(1.2f64);
    /// assert_eq!(buf, b"\x33\x33\x33\x33\x33\x33\xF3\x3F");
    /// ```
    ///
    /// # Panics
    ///
    /// This function panics if there is not enough remaining capacity in
    /// `self`.
    #[inline]
    fn put_f64_le(&mut self, n: f64) {
        self.put_u64_le(n.to_bits());
    }

    /// Writes an IEEE754 double-precision (8 bytes) floating point number to
    /// `self` in native-endian byte order.
    ///
    /// The current position is advanced by 8.
    ///
    /// # Examples
    ///
    /// ```
    /// use bytes::BufMut;
    ///
    /// let mut buf = vec![];
    /// buf.put_f64_ne(1.2f64);
    /// if cfg!(target_endian = "big") {
    ///     assert_eq!(buf, b"\x3F\xF3\x33\x33\x33\x33\x33\x33");
    /// } else {
    ///     assert_eq!(buf, b"\x33\x33\x33\x33\x33\x33\xF3\x3F");
    /// }
    /// ```
    ///
    /// # Panics
    ///
    /// This function panics if there is not enough remaining capacity in
    /// `self`.
    #[inline]
    fn put_f64_ne(&mut self, n: f64) {
        self.put_u64_ne(n.to_bits());
    }

    /// Creates an adaptor which can write at most `limit` bytes to `self`.
    ///
    /// # Examples
    ///
    /// ```
    /// use bytes::BufMut;
    ///
    /// let arr = &mut [0u8; 128][..];
    /// assert_eq!(arr.remaining_mut(), 128);
    ///
    /// let dst = arr.limit(10);
    /// assert_eq!(dst.remaining_mut(), 10);
    /// ```
    #[inline]
    fn limit(self, limit: usize) -> Limit<Self>
    where
        Self: Sized,
    {
        limit::new(self, limit)
    }

    /// Creates an adaptor which implements the `Write` trait for `self`.
    ///
    /// This function returns a new value which implements `Write` by adapting
    /// the `Write` trait functions to the `BufMut` trait functions. Given that
    /// `BufMut` operations are infallible, none of the `Write` functions will
    /// return with `Err`.
    ///
    /// # Examples
    ///
    /// ```
    /// use bytes::BufMut;
    /// use std::io::Write;
    ///
    /// let mut buf = vec![].writer();
    ///
    /// let num = buf.write(&b"hello world"[..]).unwrap();
    /// assert_eq!(11, num);
    ///
    /// let buf = buf.into_inner();
    ///
    /// assert_eq!(*buf, b"hello world"[..]);
    /// ```
    #[cfg(feature = "std")]
    #[cfg_attr(docsrs, doc(cfg(feature = "std")))]
    #[inline]
    fn writer(self) -> Writer<Self>
    where
        Self: Sized,
    {
        writer::new(self)
    }

    /// Creates an adapter which will chain this buffer with another.
    ///
    /// The returned `BufMut` instance will first write to all bytes from
    /// `self`. Afterwards, it will write to `next`.
    ///
    /// # Examples
    ///
    /// ```
    /// use bytes::BufMut;
    ///
    /// let mut a = [0u8; 5];
    /// let mut b = [0u8; 6];
    ///
    /// let mut chain = (&mut a[..]).chain_mut(&mut b[..]);
    ///
    /// chain.put_slice(b"hello world");
    ///
    /// assert_eq!(&a[..], b"hello");
    /// assert_eq!(&b[..], b" world");
    /// ```
    #[inline]
    fn chain_mut<U: BufMut>(self, next: U) -> Chain<Self, U>
    where
        Self: Sized,
    {
        Chain::new(self, next)
    }
}

macro_rules! deref_forward_bufmut {
    () => {
        #[inline]
        fn remaining_mut(&self) -> usize {
            (**self).remaining_mut()
        }

        #[inline]
        fn chunk_mut(&mut self) -> &mut UninitSlice {
            (**self).chunk_mut()
        }

        #[inline]
        unsafe fn advance_mut(&mut self, cnt: usize) {
            (**self).advance_mut(cnt)
        }

        #[inline]
        fn put_slice(&mut self, src: &[u8]) {
            (**self).put_slice(src)
        }

        #[inline]
        fn put_u8(&mut self, n: u8) {
            (**self).put_u8(n)
        }

        #[inline]
        fn put_i8(&mut self, n: i8) {
            (**self).put_i8(n)
        }

        #[inline]
        fn put_u16(&mut self, n: u16) {
            (**self).put_u16(n)
        }

        #[inline]
        fn put_u16_le(&mut self, n: u16) {
            (**self).put_u16_le(n)
        }

        #[inline]
        fn put_u16_ne(&mut self, n: u16) {
            (**self).put_u16_ne(n)
        }

        #[inline]
        fn put_i16(&mut self, n: i16) {
            (**self).put_i16(n)
        }

        #[inline]
        fn put_i16_le(&mut self, n: i16) {
            (**self).put_i16_le(n)
        }

        #[inline]
        fn put_i16_ne(&mut self, n: i16) {
            (**self).put_i16_ne(n)
        }

        #[inline]
        fn put_u32(&mut self, n: u32) {
            (**self).put_u32(n)
        }

        #[inline]
        fn put_u32_le(&mut self, n: u32) {
            (**self).put_u32_le(n)
        }

        #[inline]
        fn put_u32_ne(&mut self, n: u32) {
            (**self).put_u32_ne(n)
        }

        #[inline]
        fn put_i32(&mut self, n: i32) {
            (**self).put_i32(n)
        }

        #[inline]
        fn put_i32_le(&mut self, n: i32) {
            (**self).put_i32_le(n)
        }

        #[inline]
        fn put_i32_ne(&mut self, n: i32) {
            (**self).put_i32_ne(n)
        }

        #[inline]
        fn put_u64(&mut self, n: u64) {
            (**self).put_u64(n)
        }

        #[inline]
        fn put_u64_le(&mut self, n: u64) {
            (**self).put_u64_le(n)
        }

        #[inline]
        fn put_u64_ne(&mut self, n: u64) {
            (**self).put_u64_ne(n)
        }

        #[inline]
        fn put_i64(&mut self, n: i64) {
            (**self).put_i64(n)
        }

        #[inline]
        fn put_i64_le(&mut self, n: i64) {
            (**self).put_i64_le(n)
        }

        #[inline]
        fn put_i64_ne(&mut self, n: i64) {
            (**self).put_i64_ne(n)
        }
    };
}

unsafe impl<T: BufMut + ?Sized> BufMut for &mut T {
    deref_forward_bufmut!();
}

unsafe impl<T: BufMut + ?Sized> BufMut for Box<T> {
    deref_forward_bufmut!();
}

unsafe impl BufMut for &mut [u8] {
    #[inline]
    fn remaining_mut(&self) -> usize {
        self.len()
    }

    #[inline]
    fn chunk_mut(&mut self) -> &mut UninitSlice {
        UninitSlice::new(self)
    }

    #[inline]
    unsafe fn advance_mut(&mut self, cnt: usize) {
        if self.len() < cnt {
            panic_advance(&TryGetError {
                requested: cnt,
                available: self.len(),
            });
        }

        // Lifetime dance taken from `impl Write for &mut [u8]`.
        let (_, b) = core::mem::take(self).split_at_mut(cnt);
        *self = b;
    }

    #[inline]
    fn put_slice(&mut self, src: &[u8]) {
        if self.len() < src.len() {
            panic_advance(&TryGetError {
                requested: src.len(),
                available: self.len(),
            });
        }

        self[..src.len()].copy_from_slice(src);
        // SAFETY: We just initialized `src.len()` bytes.
        unsafe { self.advance_mut(src.len()) };
    }

    #[inline]
    fn put_bytes(&mut self, val: u8, cnt: usize) {
        if self.len() < cnt {
            panic_advance(&TryGetError {
                requested: cnt,
                available: self.len(),
            });
        }

        // SAFETY: We just checked that the pointer is valid for `cnt` bytes.
        unsafe {
            ptr::write_bytes(self.as_mut_ptr(), val, cnt);
            self.advance_mut(cnt);
        }
    }
}

unsafe impl BufMut for &mut [core::mem::MaybeUninit<u8>] {
    #[inline]
    fn remaining_mut(&self) -> usize {
        self.len()
    }

    #[inline]
    fn chunk_mut(&mut self) -> &mut UninitSlice {
        UninitSlice::uninit(self)
    }

    #[inline]
    unsafe fn advance_mut(&mut self, cnt: usize) {
        if self.len() < cnt {
            panic_advance(&TryGetError {
                requested: cnt,
                available: self.len(),
            });
        }

        // Lifetime dance taken from `impl Write for &mut [u8]`.
        let (_, b) = core::mem::take(self).split_at_mut(cnt);
        *self = b;
    }

    #[inline]
    fn put_slice(&mut self, src: &[u8]) {
        if self.len() < src.len() {
            panic_advance(&TryGetError {
                requested: src.len(),
                available: self.len(),
            });
        }

        // SAFETY: We just checked that the pointer is valid for `src.len()` bytes.
        unsafe {
            ptr::copy_nonoverlapping(src.as_ptr(), self.as_mut_ptr().cast(), src.len());
            self.advance_mut(src.len());
        }
    }

    #[inline]
    fn put_bytes(&mut self, val: u8, cnt: usize) {
        if self.len() < cnt {
            panic_advance(&TryGetError {
                requested: cnt,
                available: self.len(),
            });
        }

        // SAFETY: We just checked that the pointer is valid for `cnt` bytes.
        unsafe {
            ptr::write_bytes(self.as_mut_ptr() as *mut u8, val, cnt);
            self.advance_mut(cnt);
        }
    }
}

unsafe impl BufMut for Vec<u8> {
    #[inline]
    fn remaining_mut(&self) -> usize {
        // A vector can never have more than isize::MAX bytes
        isize::MAX as usize - self.len()
    }

    #[inline]
    unsafe fn advance_mut(&mut self, cnt: usize) {
        let len = self.len();
        let remaining = self.capacity() - len;

        if remaining < cnt {
            panic_advance(&TryGetError {
                requested: cnt,
                available: remaining,
            });
        }

        // Addition will not overflow since the sum is at most the capacity.
        self.set_len(len + cnt);
    }

    #[inline]
    fn chunk_mut(&mut self) -> &mut UninitSlice {
        if self.capacity() == self.len() {
            self.reserve(64); // Grow the vec
        }

        let cap = self.capacity();
        let len = self.len();

        let ptr = self.as_mut_ptr();
        // SAFETY: Since `ptr` is valid for `cap` bytes, `ptr.add(len)` must be
        // valid for `cap - len` bytes. The subtraction will not underflow since
        // `len <= cap`.
        unsafe { UninitSlice::from_raw_parts_mut(ptr.add(len), cap - len) }
    }

    // Specialize these methods so they can skip checking `remaining_mut`
    // and `advance_mut`.
    #[inline]
    fn put<T: super::Buf>(&mut self, mut src: T)
    where
        Self: Sized,
    {
        // In case the src isn't contiguous, reserve upfront.
        self.reserve(src.remaining());

        while src.has_remaining() {
            let s = src.chunk();
            let l = s.len();
            self.extend_from_slice(s);
            src.advance(l);
        }
    }

    #[inline]
    fn put_slice(&mut self, src: &[u8]) {
        self.extend_from_slice(src);
    }

    #[inline]
    fn put_bytes(&mut self, val: u8, cnt: usize) {
        // If the addition overflows, then the `resize` will fail.
        let new_len = self.len().saturating_add(cnt);
        self.resize(new_len, val);
    }
}

// The existence of this function makes the compiler catch if the BufMut
// trait is "object-safe" or not.
fn _assert_trait_object(_b: &dyn BufMut) {}
