use crate::buf::{IntoIter, UninitSlice};
use crate::{Buf, BufMut};

#[cfg(feature = "std")]
use std::io::IoSlice;

/// A `Chain` sequences two buffers.
///
/// `Chain` is an adapter that links two underlying buffers and provides a
/// continuous view across both buffers. It is able to sequence either immutable
/// buffers ([`Buf`] values) or mutable buffers ([`BufMut`] values).
///
/// This struct is generally created by calling [`Buf::chain`]. Please see that
/// function's documentation for more detail.
///
/// # Examples
///
/// ```
/// use bytes::{Bytes, Buf};
///
/// let mut buf = (&b"hello "[..])
///     .chain(&b"world"[..]);
///
/// let full: Bytes = buf.copy_to_bytes(11);
/// assert_eq!(full[..], b"hello world"[..]);
/// ```
///
/// [`Buf::chain`]: Buf::chain
#[derive(Debug)]
pub struct Chain<T, U> {
    a: T,
    b: U,
}

impl<T, U> Chain<T, U> {
    /// Creates a new `Chain` sequencing the provided values.
    pub(crate) fn new(a: T, b: U) -> Chain<T, U> {
        Chain { a, b }
    }

    /// Gets a reference to the first underlying `Buf`.
    ///
    /// # Examples
    ///
    /// ```
    /// use bytes::Buf;
    ///
    /// let buf = (&b"hello"[..])
    ///     .chain(&b"world"[..]);
    ///
    /// assert_eq!(buf.first_ref()[..], b"hello"[..]);
    /// ```
    pub fn first_ref(&self) -> &T {
        &self.a
    }

    /// Gets a mutable reference to the first underlying `Buf`.
    ///
    /// # Examples
    ///
    /// ```
    /// use bytes::Buf;
    ///
    /// let mut buf = (&b"hello"[..])
    ///     .chain(&b"world"[..]);
    ///
    /// buf.first_mut().advance(1);
    ///
    /// let full = buf.copy_to_bytes(9);
    /// assert_eq!(full, b"elloworld"[..]);
    /// ```
    pub fn first_mut(&mut self) -> &mut T {
        &mut self.a
    }

    /// Gets a reference to the last underlying `Buf`.
    ///
    /// # Examples
    ///
    /// ```
    /// use bytes::Buf;
    ///
    /// let buf = (&b"hello"[..])
    ///     .chain(&b"world"[..]);
    ///
    /// assert_eq!(buf.last_ref()[..], b"world"[..]);
    /// ```
    pub fn last_ref(&self) -> &U {
        &self.b
    }

    /// Gets a mutable reference to the last underlying `Buf`.
    ///
    /// # Examples
    ///
    /// ```
    /// use bytes::Buf;
    ///
    /// let mut buf = (&b"hello "[..])
    ///     .chain(&b"world"[..]);
    ///
    /// buf.last_mut().advance(1);
    ///
    /// let full = buf.copy_to_bytes(10);
    /// assert_eq!(full, b"hello orld"[..]);
    /// ```
    pub fn last_mut(&mut self) -> &mut U {
        &mut self.b
    }

    /// Consumes this `Chain`, returning the underlying values.
    ///
    /// # Examples
    ///
    /// ```
    /// use bytes::Buf;
    ///
    /// let chain = (&b"hello"[..])
    ///     .chain(&b"world"[..]);
    ///
    /// let (first, last) = chain.into_inner();
    /// assert_eq!(first[..], b"hello"[..]);
    /// assert_eq!(last[..], b"world"[..]);
    /// ```
    pub fn into_inner(self) -> (T, U) {
        (self.a, self.b)
    }
}

impl<T, U> Buf for Chain<T, U>
where
    T: Buf,
    U: Buf,
{
    fn remaining(&self) -> usize {
        self.a.remaining().saturating_add(self.b.remaining())
    }

    fn chunk(&self) -> &[u8] {
        if self.a.has_remaining() {
            self.a.chunk()
        } else {
            self.b.chunk()
        }
    }

    fn advance(&mut self, mut cnt: usize) {
        let a_rem = self.a.remaining();

        if a_rem != 0 {
            if a_rem >= cnt {
                self.a.advance(cnt);
                return;
            }

            // Consume what is left of a
            self.a.advance(a_rem);

            cnt -= a_rem;
        }

        self.b.advance(cnt);
    }

    #[cfg(feature = "std")]
    fn chunks_vectored<'a>(&'a self, dst: &mut [IoSlice<'a>]) -> usize {
        let mut n = self.a.chunks_vectored(dst);
        n += self.b.chunks_vectored(&mut dst[n..]);
        n
    }

    fn copy_to_bytes(&mut self, len: usize) -> crate::Bytes {
        let a_rem = self.a.remaining();
        if a_rem >= len {
            self.a.copy_to_bytes(len)
        } else if a_rem == 0 {
            self.b.copy_to_bytes(len)
        } else {
            assert!(
                len - a_rem <= self.b.remaining(),
                "`len` greater than remaining"
            );
            let mut ret = crate::BytesMut::with_capacity(len);
            ret.put(&mut self.a);
            ret.put((&mut self.b).take(len - a_rem));
            ret.freeze()
        }
    }
}

unsafe impl<T, U> BufMut for Chain<T, U>
where
    T: BufMut,
    U: BufMut,
{
    fn remaining_mut(&self) -> usize {
        self.a
            .remaining_mut()
            .saturating_add(self.b.remaining_mut())
    }

    fn chunk_mut(&mut self) -> &mut UninitSlice {
        if self.a.has_remaining_mut() {
            self.a.chunk_mut()
        } else {
            self.b.chunk_mut()
        }
    }

    unsafe fn advance_mut(&mut self, mut cnt: usize) {
        let a_rem = self.a.remaining_mut();

        if a_rem != 0 {
            if a_rem >= cnt {
                self.a.advance_mut(cnt);
                return;
            }

            // Consume what is left of a
            self.a.advance_mut(a_rem);

            cnt -= a_rem;
        }

        self.b.advance_mut(cnt);
    }
}

impl<T, U> IntoIterator for Chain<T, U>
where
    T: Buf,
    U: Buf,
{
    type Item = u8;
    type IntoIter = IntoIter<Chain<T, U>>;

    fn into_iter(self) -> Self::IntoIter {
        IntoIter::new(self)
    }
}
