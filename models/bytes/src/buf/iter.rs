use crate::Buf;

/// Iterator over the bytes contained by the buffer.
///
/// # Examples
///
/// Basic usage:
///
/// ```
/// use bytes::Bytes;
///
/// let buf = Bytes::from(&b"abc"[..]);
/// let mut iter = buf.into_iter();
///
/// assert_eq!(iter.next(), Some(b'a'));
/// assert_eq!(iter.next(), Some(b'b'));
/// assert_eq!(iter.next(), Some(b'c'));
/// assert_eq!(iter.next(), None);
/// ```
#[derive(Debug)]
pub struct IntoIter<T> {
    inner: T,
}

impl<T> IntoIter<T> {
    /// Creates an iterator over the bytes contained by the buffer.
    ///
    /// # Examples
    ///
    /// ```
    /// use bytes::Bytes;
    ///
    /// let buf = Bytes::from_static(b"abc");
    /// let mut iter = buf.into_iter();
    ///
    /// assert_eq!(iter.next(), Some(b'a'));
    /// assert_eq!(iter.next(), Some(b'b'));
    /// assert_eq!(iter.next(), Some(b'c'));
    /// assert_eq!(iter.next(), None);
    /// ```
    pub fn new(inner: T) -> IntoIter<T> {
        IntoIter { inner }
    }

    /// Consumes this `IntoIter`, returning the underlying value.
    ///
    /// # Examples
    ///
    /// ```rust
    /// use bytes::{Buf, Bytes};
    ///
    /// let buf = Bytes::from(&b"abc"[..]);
    /// let mut iter = buf.into_iter();
    ///
    /// assert_eq!(iter.next(), Some(b'a'));
    ///
    /// let buf = iter.into_inner();
    /// assert_eq!(2, buf.remaining());
    /// ```
    pub fn into_inner(self) -> T {
        self.inner
    }

    /// Gets a reference to the underlying `Buf`.
    ///
    /// It is inadvisable to directly read from the underlying `Buf`.
    ///
    /// # Examples
    ///
    /// ```rust
    /// use bytes::{Buf, Bytes};
    ///
    /// let buf = Bytes::from(&b"abc"[..]);
    /// let mut iter = buf.into_iter();
    ///
    /// assert_eq!(iter.next(), Some(b'a'));
    ///
    /// assert_eq!(2, iter.get_ref().remaining());
    /// ```
    pub fn get_ref(&self) -> &T {
        &self.inner
    }

    /// Gets a mutable reference to the underlying `Buf`.
    ///
    /// It is inadvisable to directly read from the underlying `Buf`.
    ///
    /// # Examples
    ///
    /// ```rust
    /// use bytes::{Buf, BytesMut};
    ///
    /// let buf = BytesMut::from(&b"abc"[..]);
    /// let mut iter = buf.into_iter();
    ///
    /// assert_eq!(iter.next(), Some(b'a'));
    ///
    /// iter.get_mut().advance(1);
    ///
    /// assert_eq!(iter.next(), Some(b'c'));
    /// ```
    pub fn get_mut(&mut self) -> &mut T {
        &mut self.inner
    }
}

impl<T: Buf> Iterator for IntoIter<T> {
    type Item = u8;

    fn next(&mut self) -> Option<u8> {
        if !self.inner.has_remaining() {
            return None;
        }

        let b = self.inner.chunk()[0];
        self.inner.advance(1);

        Some(b)
    }

    fn size_hint(&self) -> (usize, Option<usize>) {
        let rem = self.inner.remaining();
        (rem, Some(rem))
    }
}

impl<T: Buf> ExactSizeIterator for IntoIter<T> {}
