use crate::buf::UninitSlice;
use crate::BufMut;

use core::cmp;

/// A `BufMut` adapter which limits the amount of bytes that can be written
/// to an underlying buffer.
#[derive(Debug)]
pub struct Limit<T> {
    inner: T,
    limit: usize,
}

pub(super) fn new<T>(inner: T, limit: usize) -> Limit<T> {
    Limit { inner, limit }
}

impl<T> Limit<T> {
    /// Consumes this `Limit`, returning the underlying value.
    pub fn into_inner(self) -> T {
        self.inner
    }

    /// Gets a reference to the underlying `BufMut`.
    ///
    /// It is inadvisable to directly write to the underlying `BufMut`.
    pub fn get_ref(&self) -> &T {
        &self.inner
    }

    /// Gets a mutable reference to the underlying `BufMut`.
    ///
    /// It is inadvisable to directly write to the underlying `BufMut`.
    pub fn get_mut(&mut self) -> &mut T {
        &mut self.inner
    }

    /// Returns the maximum number of bytes that can be written
    ///
    /// # Note
    ///
    /// If the inner `BufMut` has fewer bytes than indicated by this method then
    /// that is the actual number of available bytes.
    pub fn limit(&self) -> usize {
        self.limit
    }

    /// Sets the maximum number of bytes that can be written.
    ///
    /// # Note
    ///
    /// If the inner `BufMut` has fewer bytes than `lim` then that is the actual
    /// number of available bytes.
    pub fn set_limit(&mut self, lim: usize) {
        self.limit = lim
    }
}

unsafe impl<T: BufMut> BufMut for Limit<T> {
    fn remaining_mut(&self) -> usize {
        cmp::min(self.inner.remaining_mut(), self.limit)
    }

    fn chunk_mut(&mut self) -> &mut UninitSlice {
        let bytes = self.inner.chunk_mut();
        let end = cmp::min(bytes.len(), self.limit);
        &mut bytes[..end]
    }

    unsafe fn advance_mut(&mut self, cnt: usize) {
        assert!(cnt <= self.limit);
        self.inner.advance_mut(cnt);
        self.limit -= cnt;
    }
}
