//! Utilities for working with buffers.
//!
//! A buffer is any structure that contains a sequence of bytes. The bytes may
//! or may not be stored in contiguous memory. This module contains traits used
//! to abstract over buffers as well as utilities for working with buffer types.
//!
//! # `Buf`, `BufMut`
//!
//! These are the two foundational traits for abstractly working with buffers.
//! They can be thought as iterators for byte structures. They offer additional
//! performance over `Iterator` by providing an API optimized for byte slices.
//!
//! See [`Buf`] and [`BufMut`] for more details.
//!
//! [rope]: https://en.wikipedia.org/wiki/Rope_(data_structure)

mod buf_impl;
mod buf_mut;
mod chain;
mod iter;
mod limit;
#[cfg(feature = "std")]
mod reader;
mod take;
mod uninit_slice;
mod vec_deque;
#[cfg(feature = "std")]
mod writer;

pub use self::buf_impl::Buf;
pub use self::buf_mut::BufMut;
pub use self::chain::Chain;
pub use self::iter::IntoIter;
pub use self::limit::Limit;
pub use self::take::Take;
pub use self::uninit_slice::UninitSlice;

#[cfg(feature = "std")]
pub use self::{reader::Reader, writer::Writer};
