use crate::Buf;

use std::{cmp, io};

/// A `Buf` adapter which implements `io::Read` for the inner value.
///
/// This struct is generally created by calling `reader()` on `Buf`. See
/// documentation of [`reader()`](Buf::reader) for more
/// details.
#[derive(Debug)]
pub struct Reader<B> {
    buf: B,
}

pub fn new<B>(buf: B) -> Reader<B> {
    Reader { buf }
}

impl<B: Buf> Reader<B> {
    /// Gets a reference to the underlying `Buf`.
    ///
    /// It is inadvisable to directly read from the underlying `Buf`.
    ///
    /// # Examples
    ///
    /// ```rust
    /// use bytes::Buf;
    ///
    /// let buf = b"hello world".reader();
    ///
    /// assert_eq!(b"hello world", buf.get_ref());
    /// ```
    pub fn get_ref(&self) -> &B {
        &self.buf
    }

    /// Gets a mutable reference to the underlying `Buf`.
    ///
    /// It is inadvisable to directly read from the underlying `Buf`.
    pub fn get_mut(&mut self) -> &mut B {
        &mut self.buf
    }

    /// Consumes this `Reader`, returning the underlying value.
    ///
    /// # Examples
    ///
    /// ```rust
    /// use bytes::Buf;
    /// use std::io;
    ///
    /// let mut buf = b"hello world".reader();
    /// let mut dst = vec![];
    ///
    /// io::copy(&mut buf, &mut dst).unwrap();
    ///
    /// let buf = buf.into_inner();
    /// assert_eq!(0, buf.remaining());
    /// ```
    pub fn into_inner(self) -> B {
        self.buf
    }
}

impl<B: Buf + Sized> io::Read for Reader<B> {
    fn read(&mut self, dst: &mut [u8]) -> io::Result<usize> {
        let len = cmp::min(self.buf.remaining(), dst.len());

        Buf::copy_to_slice(&mut self.buf, &mut dst[0..len]);
        Ok(len)
    }
}

impl<B: Buf + Sized> io::BufRead for Reader<B> {
    fn fill_buf(&mut self) -> io::Result<&[u8]> {
        Ok(self.buf.chunk())
    }
    fn consume(&mut self, amt: usize) {
        self.buf.advance(amt)
    }
}
