use crate::Buf;

use core::cmp;

#[cfg(feature = "std")]
use std::io::IoSlice;

/// A `Buf` adapter which limits the bytes read from an underlying buffer.
///
/// This struct is generally created by calling `take()` on `Buf`. See
/// documentation of [`take()`](Buf::take) for more details.
#[derive(Debug)]
pub struct Take<T> {
    inner: T,
    limit: usize,
}

pub fn new<T>(inner: T, limit: usize) -> Take<T> {
    Take { inner, limit }
}

impl<T> Take<T> {
    /// Consumes this `Take`, returning the underlying value.
    ///
    /// # Examples
    ///
    /// ```rust
    /// use bytes::{Buf, BufMut};
    ///
    /// let mut buf = b"hello world".take(2);
    /// let mut dst = vec![];
    ///
    /// dst.put(&mut buf);
    /// assert_eq!(*dst, b"he"[..]);
    ///
    /// let mut buf = buf.into_inner();
    ///
    /// dst.clear();
    /// dst.put(&mut buf);
    /// assert_eq!(*dst, b"llo world"[..]);
    /// ```
    pub fn into_inner(self) -> T {
        self.inner
    }

    /// Gets a reference to the underlying `Buf`.
    ///
    /// It is inadvisable to directly read from the underlying `Buf`.
    ///
    /// # Examples
    ///
    /// ```rust
    /// use bytes::Buf;
    ///
    /// let buf = b"hello world".take(2);
    ///
    /// assert_eq!(11, buf.get_ref().remaining());
    /// ```
    pub fn get_ref(&self) -> &T {
        &self.inner
    }

    /// Gets a mutable reference to the underlying `Buf`.
    ///
    /// It is inadvisable to directly read from the underlying `Buf`.
    ///
    /// # Examples
    ///
    /// ```rust
    /// use bytes::{Buf, BufMut};
    ///
    /// let mut buf = b"hello world".take(2);
    /// let mut dst = vec![];
    ///
    /// buf.get_mut().advance(2);
    ///
    /// dst.put(&mut buf);
    /// assert_eq!(*dst, b"ll"[..]);
    /// ```
    pub fn get_mut(&mut self) -> &mut T {
        &mut self.inner
    }

    /// Returns the maximum number of bytes that can be read.
    ///
    /// # Note
    ///
    /// If the inner `Buf` has fewer bytes than indicated by this method then
    /// that is the actual number of available bytes.
    ///
    /// # Examples
    ///
    /// ```rust
    /// use bytes::Buf;
    ///
    /// let mut buf = b"hello world".take(2);
    ///
    /// assert_eq!(2, buf.limit());
    /// assert_eq!(b'h', buf.get_u8());
    /// assert_eq!(1, buf.limit());
    /// ```
    pub fn limit(&self) -> usize {
        self.limit
    }

    /// Sets the maximum number of bytes that can be read.
    ///
    /// # Note
    ///
    /// If the inner `Buf` has fewer bytes than `lim` then that is the actual
    /// number of available bytes.
    ///
    /// # Examples
    ///
    /// ```rust
    /// use bytes::{Buf, BufMut};
    ///
    /// let mut buf = b"hello world".take(2);
    /// let mut dst = vec![];
    ///
    /// dst.put(&mut buf);
    /// assert_eq!(*dst, b"he"[..]);
    ///
    /// dst.clear();
    ///
    /// buf.set_limit(3);
    /// dst.put(&mut buf);
    /// assert_eq!(*dst, b"llo"[..]);
    /// ```
    pub fn set_limit(&mut self, lim: usize) {
        self.limit = lim
    }
}

impl<T: Buf> Buf for Take<T> {
    fn remaining(&self) -> usize {
        cmp::min(self.inner.remaining(), self.limit)
    }

    fn chunk(&self) -> &[u8] {
        let bytes = self.inner.chunk();
        &bytes[..cmp::min(bytes.len(), self.limit)]
    }

    fn advance(&mut self, cnt: usize) {
        assert!(cnt <= self.limit);
        self.inner.advance(cnt);
        self.limit -= cnt;
    }

    fn copy_to_bytes(&mut self, len: usize) -> crate::Bytes {
        assert!(len <= self.remaining(), "`len` greater than remaining");

        let r = self.inner.copy_to_bytes(len);
        self.limit -= len;
        r
    }

    #[cfg(feature = "std")]
    fn chunks_vectored<'a>(&'a self, dst: &mut [IoSlice<'a>]) -> usize {
        if self.limit == 0 {
            return 0;
        }

        const LEN: usize = 16;
        let mut slices: [IoSlice<'a>; LEN] = [IoSlice::new(&[]); LEN];

        let cnt = self
            .inner
            .chunks_vectored(&mut slices[..dst.len().min(LEN)]);
        let mut limit = self.limit;
        for (i, (dst, slice)) in dst[..cnt].iter_mut().zip(slices.iter()).enumerate() {
            if let Some(buf) = slice.get(..limit) {
                // SAFETY: We could do this safely with `IoSlice::advance` if we had a larger MSRV.
                let buf = unsafe { std::mem::transmute::<&[u8], &'a [u8]>(buf) };
                *dst = IoSlice::new(buf);
                return i + 1;
            } else {
                // SAFETY: We could do this safely with `IoSlice::advance` if we had a larger MSRV.
                let buf = unsafe { std::mem::transmute::<&[u8], &'a [u8]>(slice) };
                *dst = IoSlice::new(buf);
                limit -= slice.len();
            }
        }
        cnt
    }
}
