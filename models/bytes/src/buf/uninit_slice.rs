use core::fmt;
use core::mem::MaybeUninit;
use core::ops::{
    Index, IndexMut, Range, RangeFrom, RangeFull, RangeInclusive, RangeTo, RangeToInclusive,
};

/// Uninitialized byte slice.
///
/// Returned by `BufMut::chunk_mut()`, the referenced byte slice may be
/// uninitialized. The wrapper provides safe access without introducing
/// undefined behavior.
///
/// The safety invariants of this wrapper are:
///
///  1. Reading from an `UninitSlice` is undefined behavior.
///  2. Writing uninitialized bytes to an `UninitSlice` is undefined behavior.
///
/// The difference between `&mut UninitSlice` and `&mut [MaybeUninit<u8>]` is
/// that it is possible in safe code to write uninitialized bytes to an
/// `&mut [MaybeUninit<u8>]`, which this type prohibits.
#[repr(transparent)]
pub struct UninitSlice([MaybeUninit<u8>]);

impl UninitSlice {
    /// Creates a `&mut UninitSlice` wrapping a slice of initialised memory.
    ///
    /// # Examples
    ///
    /// ```
    /// use bytes::buf::UninitSlice;
    ///
    /// let mut buffer = [0u8; 64];
    /// let slice = UninitSlice::new(&mut buffer[..]);
    /// ```
    #[inline]
    pub fn new(slice: &mut [u8]) -> &mut UninitSlice {
        unsafe { &mut *(slice as *mut [u8] as *mut [MaybeUninit<u8>] as *mut UninitSlice) }
    }

    /// Creates a `&mut UninitSlice` wrapping a slice of uninitialised memory.
    ///
    /// # Examples
    ///
    /// ```
    /// use bytes::buf::UninitSlice;
    /// use core::mem::MaybeUninit;
    ///
    /// let mut buffer = [MaybeUninit::uninit(); 64];
    /// let slice = UninitSlice::uninit(&mut buffer[..]);
    ///
    /// let mut vec = Vec::with_capacity(1024);
    /// let spare: &mut UninitSlice = vec.spare_capacity_mut().into();
    /// ```
    #[inline]
    pub fn uninit(slice: &mut [MaybeUninit<u8>]) -> &mut UninitSlice {
        unsafe { &mut *(slice as *mut [MaybeUninit<u8>] as *mut UninitSlice) }
    }

    fn uninit_ref(slice: &[MaybeUninit<u8>]) -> &UninitSlice {
        unsafe { &*(slice as *const [MaybeUninit<u8>] as *const UninitSlice) }
    }

    /// Create a `&mut UninitSlice` from a pointer and a length.
    ///
    /// # Safety
    ///
    /// The caller must ensure that `ptr` references a valid memory region owned
    /// by the caller representing a byte slice for the duration of `'a`.
    ///
    /// # Examples
    ///
    /// ```
    /// use bytes::buf::UninitSlice;
    ///
    /// let bytes = b"hello world".to_vec();
    /// let ptr = bytes.as_ptr() as *mut _;
    /// let len = bytes.len();
    ///
    /// let slice = unsafe { UninitSlice::from_raw_parts_mut(ptr, len) };
    /// ```
    #[inline]
    pub unsafe fn from_raw_parts_mut<'a>(ptr: *mut u8, len: usize) -> &'a mut UninitSlice {
        let maybe_init: &mut [MaybeUninit<u8>] =
            core::slice::from_raw_parts_mut(ptr as *mut _, len);
        Self::uninit(maybe_init)
    }

    /// Write a single byte at the specified offset.
    ///
    /// # Panics
    ///
    /// The function panics if `index` is out of bounds.
    ///
    /// # Examples
    ///
    /// ```
    /// use bytes::buf::UninitSlice;
    ///
    /// let mut data = [b'f', b'o', b'o'];
    /// let slice = unsafe { UninitSlice::from_raw_parts_mut(data.as_mut_ptr(), 3) };
    ///
    /// slice.write_byte(0, b'b');
    ///
    /// assert_eq!(b"boo", &data[..]);
    /// ```
    #[inline]
    pub fn write_byte(&mut self, index: usize, byte: u8) {
        assert!(index < self.len());

        unsafe { self[index..].as_mut_ptr().write(byte) }
    }

    /// Copies bytes from `src` into `self`.
    ///
    /// The length of `src` must be the same as `self`.
    ///
    /// # Panics
    ///
    /// The function panics if `src` has a different length than `self`.
    ///
    /// # Examples
    ///
    /// ```
    /// use bytes::buf::UninitSlice;
    ///
    /// let mut data = [b'f', b'o', b'o'];
    /// let slice = unsafe { UninitSlice::from_raw_parts_mut(data.as_mut_ptr(), 3) };
    ///
    /// slice.copy_from_slice(b"bar");
    ///
    /// assert_eq!(b"bar", &data[..]);
    /// ```
    #[inline]
    pub fn copy_from_slice(&mut self, src: &[u8]) {
        use core::ptr;

        assert_eq!(self.len(), src.len());

        unsafe {
            ptr::copy_nonoverlapping(src.as_ptr(), self.as_mut_ptr(), self.len());
        }
    }

    /// Return a raw pointer to the slice's buffer.
    ///
    /// # Safety
    ///
    /// The caller **must not** read from the referenced memory and **must not**
    /// write **uninitialized** bytes to the slice either.
    ///
    /// # Examples
    ///
    /// ```
    /// use bytes::BufMut;
    ///
    /// let mut data = [0, 1, 2];
    /// let mut slice = &mut data[..];
    /// let ptr = BufMut::chunk_mut(&mut slice).as_mut_ptr();
    /// ```
    #[inline]
    pub fn as_mut_ptr(&mut self) -> *mut u8 {
        self.0.as_mut_ptr() as *mut _
    }

    /// Return a `&mut [MaybeUninit<u8>]` to this slice's buffer.
    ///
    /// # Safety
    ///
    /// The caller **must not** read from the referenced memory and **must not** write
    /// **uninitialized** bytes to the slice either. This is because `BufMut` implementation
    /// that created the `UninitSlice` knows which parts are initialized. Writing uninitialized
    /// bytes to the slice may cause the `BufMut` to read those bytes and trigger undefined
    /// behavior.
    ///
    /// # Examples
    ///
    /// ```
    /// use bytes::BufMut;
    ///
    /// let mut data = [0, 1, 2];
    /// let mut slice = &mut data[..];
    /// unsafe {
    ///     let uninit_slice = BufMut::chunk_mut(&mut slice).as_uninit_slice_mut();
    /// };
    /// ```
    #[inline]
    pub unsafe fn as_uninit_slice_mut(&mut self) -> &mut [MaybeUninit<u8>] {
        &mut self.0
    }

    /// Returns the number of bytes in the slice.
    ///
    /// # Examples
    ///
    /// ```
    /// use bytes::BufMut;
    ///
    /// let mut data = [0, 1, 2];
    /// let mut slice = &mut data[..];
    /// let len = BufMut::chunk_mut(&mut slice).len();
    ///
    /// assert_eq!(len, 3);
    /// ```
    #[inline]
    pub fn len(&self) -> usize {
        self.0.len()
    }
}

impl fmt::Debug for UninitSlice {
    fn fmt(&self, fmt: &mut fmt::Formatter<'_>) -> fmt::Result {
        fmt.debug_struct("UninitSlice[...]").finish()
    }
}

impl<'a> From<&'a mut [u8]> for &'a mut UninitSlice {
    fn from(slice: &'a mut [u8]) -> Self {
        UninitSlice::new(slice)
    }
}

impl<'a> From<&'a mut [MaybeUninit<u8>]> for &'a mut UninitSlice {
    fn from(slice: &'a mut [MaybeUninit<u8>]) -> Self {
        UninitSlice::uninit(slice)
    }
}

macro_rules! impl_index {
    ($($t:ty),*) => {
        $(
            impl Index<$t> for UninitSlice {
                type Output = UninitSlice;

                #[inline]
                fn index(&self, index: $t) -> &UninitSlice {
                    UninitSlice::uninit_ref(&self.0[index])
                }
            }

            impl IndexMut<$t> for UninitSlice {
                #[inline]
                fn index_mut(&mut self, index: $t) -> &mut UninitSlice {
                    UninitSlice::uninit(&mut self.0[index])
                }
            }
        )*
    };
}

impl_index!(
    Range<usize>,
    RangeFrom<usize>,
    RangeFull,
    RangeInclusive<usize>,
    RangeTo<usize>,
    RangeToInclusive<usize>
);
