use alloc::collections::VecDeque;
#[cfg(feature = "std")]
use std::io;

use super::Buf;

impl Buf for VecDeque<u8> {
    fn remaining(&self) -> usize {
        self.len()
    }

    fn chunk(&self) -> &[u8] {
        let (s1, s2) = self.as_slices();
        if s1.is_empty() {
            s2
        } else {
            s1
        }
    }

    #[cfg(feature = "std")]
    fn chunks_vectored<'a>(&'a self, dst: &mut [io::IoSlice<'a>]) -> usize {
        if self.is_empty() || dst.is_empty() {
            return 0;
        }

        let (s1, s2) = self.as_slices();
        dst[0] = io::IoSlice::new(s1);
        if s2.is_empty() || dst.len() == 1 {
            return 1;
        }

        dst[1] = io::IoSlice::new(s2);
        2
    }

    fn advance(&mut self, cnt: usize) {
        self.drain(..cnt);
    }
}
