use crate::BufMut;

use std::{cmp, io};

/// A `BufMut` adapter which implements `io::Write` for the inner value.
///
/// This struct is generally created by calling `writer()` on `BufMut`. See
/// documentation of [`writer()`](BufMut::writer) for more
/// details.
#[derive(Debug)]
pub struct Writer<B> {
    buf: B,
}

pub fn new<B>(buf: B) -> Writer<B> {
    Writer { buf }
}

impl<B: BufMut> Writer<B> {
    /// Gets a reference to the underlying `BufMut`.
    ///
    /// It is inadvisable to directly write to the underlying `BufMut`.
    ///
    /// # Examples
    ///
    /// ```rust
    /// use bytes::BufMut;
    ///
    /// let buf = Vec::with_capacity(1024).writer();
    ///
    /// assert_eq!(1024, buf.get_ref().capacity());
    /// ```
    pub fn get_ref(&self) -> &B {
        &self.buf
    }

    /// Gets a mutable reference to the underlying `BufMut`.
    ///
    /// It is inadvisable to directly write to the underlying `BufMut`.
    ///
    /// # Examples
    ///
    /// ```rust
    /// use bytes::BufMut;
    ///
    /// let mut buf = vec![].writer();
    ///
    /// buf.get_mut().reserve(1024);
    ///
    /// assert_eq!(1024, buf.get_ref().capacity());
    /// ```
    pub fn get_mut(&mut self) -> &mut B {
        &mut self.buf
    }

    /// Consumes this `Writer`, returning the underlying value.
    ///
    /// # Examples
    ///
    /// ```rust
    /// use bytes::BufMut;
    /// use std::io;
    ///
    /// let mut buf = vec![].writer();
    /// let mut src = &b"hello world"[..];
    ///
    /// io::copy(&mut src, &mut buf).unwrap();
    ///
    /// let buf = buf.into_inner();
    /// assert_eq!(*buf, b"hello world"[..]);
    /// ```
    pub fn into_inner(self) -> B {
        self.buf
    }
}

impl<B: BufMut + Sized> io::Write for Writer<B> {
    fn write(&mut self, src: &[u8]) -> io::Result<usize> {
        let n = cmp::min(self.buf.remaining_mut(), src.len());

        self.buf.put_slice(&src[..n]);
        Ok(n)
    }

    fn flush(&mut self) -> io::Result<()> {
        Ok(())
    }
}
