//! Verification model of `bytes::Bytes`: an immutable byte string with VALUE semantics
//! (clone = deep copy, split/slice = copies). The byte-sequence contract documented by the `bytes`
//! crate is kept; reference counting / zero-copy aliasing is not modelled (no property depends on it).
use alloc::{borrow::Borrow, boxed::Box, string::String, vec::Vec};
use core::ops::{Deref, RangeBounds};
use core::{cmp, hash};

use crate::{Buf, BytesMut};

enum Repr {
    Static(&'static [u8]),
    Owned(Vec<u8>),
}

pub struct Bytes {
    repr: Repr,
}

impl Bytes {
    #[inline]
    pub const fn new() -> Self {
        Bytes { repr: Repr::Static(&[]) }
    }
    #[inline]
    pub const fn from_static(bytes: &'static [u8]) -> Self {
        Bytes { repr: Repr::Static(bytes) }
    }
    pub fn from_owner<T>(owner: T) -> Self
    where
        T: AsRef<[u8]> + Send + 'static,
    {
        Bytes::copy_from_slice(owner.as_ref())
    }
    #[inline]
    pub fn len(&self) -> usize {
        self.as_slice().len()
    }
    #[inline]
    pub fn is_empty(&self) -> bool {
        self.len() == 0
    }
    pub fn is_unique(&self) -> bool {
        matches!(self.repr, Repr::Owned(_))
    }
    pub fn copy_from_slice(data: &[u8]) -> Self {
        Bytes { repr: Repr::Owned(data.to_vec()) }
    }
    #[inline]
    fn as_slice(&self) -> &[u8] {
        match &self.repr {
            Repr::Static(s) => s,
            Repr::Owned(v) => v.as_slice(),
        }
    }
    pub fn slice(&self, range: impl RangeBounds<usize>) -> Self {
        let (begin, end) = crate::range(range, self.len());
        if end == begin {
            return Bytes::new();
        }
        match &self.repr {
            Repr::Static(s) => Bytes { repr: Repr::Static(&s[begin..end]) },
            Repr::Owned(v) => Bytes::copy_from_slice(&v[begin..end]),
        }
    }
    pub fn slice_ref(&self, subset: &[u8]) -> Self {
        if subset.is_empty() {
            return Bytes::new();
        }
        let bytes_p = self.as_ptr() as usize;
        let bytes_len = self.len();
        let sub_p = subset.as_ptr() as usize;
        let sub_len = subset.len();
        assert!(sub_p >= bytes_p, "subset pointer is smaller than self pointer");
        assert!(sub_p + sub_len <= bytes_p + bytes_len, "subset is out of bounds");
        let off = sub_p - bytes_p;
        self.slice(off..(off + sub_len))
    }
    #[must_use = "consider Bytes::truncate if you don't need the other half"]
    pub fn split_off(&mut self, at: usize) -> Self {
        assert!(at <= self.len(), "split_off out of bounds: {:?} <= {:?}", at, self.len());
        match &mut self.repr {
            Repr::Static(s) => {
                let (a, b) = s.split_at(at);
                *s = a;
                Bytes { repr: Repr::Static(b) }
            }
            Repr::Owned(v) => Bytes { repr: Repr::Owned(v.split_off(at)) },
        }
    }
    #[must_use = "consider Bytes::advance if you don't need the other half"]
    pub fn split_to(&mut self, at: usize) -> Self {
        assert!(at <= self.len(), "split_to out of bounds: {:?} <= {:?}", at, self.len());
        match &mut self.repr {
            Repr::Static(s) => {
                let (a, b) = s.split_at(at);
                *s = b;
                Bytes { repr: Repr::Static(a) }
            }
            Repr::Owned(v) => {
                let tail = v.split_off(at);
                let head = core::mem::replace(v, tail);
                Bytes { repr: Repr::Owned(head) }
            }
        }
    }
    pub fn truncate(&mut self, len: usize) {
        if len < self.len() {
            match &mut self.repr {
                Repr::Static(s) => *s = &s[..len],
                Repr::Owned(v) => v.truncate(len),
            }
        }
    }
    pub fn clear(&mut self) {
        self.truncate(0);
    }
    pub fn try_into_mut(self) -> Result<BytesMut, Bytes> {
        match self.repr {
            Repr::Owned(v) => Ok(BytesMut::from_vec(v)),
            Repr::Static(_) => Err(self),
        }
    }
    pub(crate) fn from_vec_owned(v: Vec<u8>) -> Bytes {
        Bytes { repr: Repr::Owned(v) }
    }
    fn into_vec(self) -> Vec<u8> {
        match self.repr {
            Repr::Static(s) => s.to_vec(),
            Repr::Owned(v) => v,
        }
    }
}

impl Clone for Bytes {
    fn clone(&self) -> Bytes {
        match &self.repr {
            Repr::Static(s) => Bytes { repr: Repr::Static(s) },
            Repr::Owned(v) => Bytes { repr: Repr::Owned(v.clone()) },
        }
    }
}

impl Buf for Bytes {
    #[inline]
    fn remaining(&self) -> usize {
        self.len()
    }
    #[inline]
    fn chunk(&self) -> &[u8] {
        self.as_slice()
    }
    #[inline]
    fn advance(&mut self, cnt: usize) {
        assert!(
            cnt <= self.len(),
            "cannot advance past `remaining`: {:?} <= {:?}",
            cnt,
            self.len(),
        );
        match &mut self.repr {
            Repr::Static(s) => *s = &s[cnt..],
            Repr::Owned(v) => {
                let tail = v.split_off(cnt);
                *v = tail;
            }
        }
    }
    fn copy_to_bytes(&mut self, len: usize) -> Self {
        self.split_to(len)
    }
}

impl Deref for Bytes {
    type Target = [u8];
    #[inline]
    fn deref(&self) -> &[u8] {
        self.as_slice()
    }
}
impl AsRef<[u8]> for Bytes {
    #[inline]
    fn as_ref(&self) -> &[u8] {
        self.as_slice()
    }
}
impl hash::Hash for Bytes {
    fn hash<H: hash::Hasher>(&self, state: &mut H) {
        self.as_slice().hash(state);
    }
}
impl Borrow<[u8]> for Bytes {
    fn borrow(&self) -> &[u8] {
        self.as_slice()
    }
}
impl IntoIterator for Bytes {
    type Item = u8;
    type IntoIter = crate::buf::IntoIter<Bytes>;
    fn into_iter(self) -> Self::IntoIter {
        crate::buf::IntoIter::new(self)
    }
}
impl<'a> IntoIterator for &'a Bytes {
    type Item = &'a u8;
    type IntoIter = core::slice::Iter<'a, u8>;
    fn into_iter(self) -> Self::IntoIter {
        self.as_slice().iter()
    }
}
impl FromIterator<u8> for Bytes {
    fn from_iter<T: IntoIterator<Item = u8>>(into_iter: T) -> Self {
        Vec::from_iter(into_iter).into()
    }
}

impl PartialEq for Bytes {
    fn eq(&self, other: &Bytes) -> bool {
        self.as_slice() == other.as_slice()
    }
}
impl PartialOrd for Bytes {
    fn partial_cmp(&self, other: &Bytes) -> Option<cmp::Ordering> {
        Some(self.cmp(other))
    }
}
impl Ord for Bytes {
    fn cmp(&self, other: &Bytes) -> cmp::Ordering {
        self.as_slice().cmp(other.as_slice())
    }
}
impl Eq for Bytes {}

impl PartialEq<[u8]> for Bytes {
    fn eq(&self, other: &[u8]) -> bool {
        self.as_slice() == other
    }
}
impl PartialOrd<[u8]> for Bytes {
    fn partial_cmp(&self, other: &[u8]) -> Option<cmp::Ordering> {
        self.as_slice().partial_cmp(other)
    }
}
impl PartialEq<Bytes> for [u8] {
    fn eq(&self, other: &Bytes) -> bool {
        *other == *self
    }
}
impl PartialOrd<Bytes> for [u8] {
    fn partial_cmp(&self, other: &Bytes) -> Option<cmp::Ordering> {
        <[u8] as PartialOrd<[u8]>>::partial_cmp(self, other)
    }
}
impl PartialEq<str> for Bytes {
    fn eq(&self, other: &str) -> bool {
        self.as_slice() == other.as_bytes()
    }
}
impl PartialOrd<str> for Bytes {
    fn partial_cmp(&self, other: &str) -> Option<cmp::Ordering> {
        self.as_slice().partial_cmp(other.as_bytes())
    }
}
impl PartialEq<Bytes> for str {
    fn eq(&self, other: &Bytes) -> bool {
        *other == *self
    }
}
impl PartialOrd<Bytes> for str {
    fn partial_cmp(&self, other: &Bytes) -> Option<cmp::Ordering> {
        <[u8] as PartialOrd<[u8]>>::partial_cmp(self.as_bytes(), other)
    }
}
impl PartialEq<Vec<u8>> for Bytes {
    fn eq(&self, other: &Vec<u8>) -> bool {
        *self == other[..]
    }
}
impl PartialOrd<Vec<u8>> for Bytes {
    fn partial_cmp(&self, other: &Vec<u8>) -> Option<cmp::Ordering> {
        self.as_slice().partial_cmp(&other[..])
    }
}
impl PartialEq<Bytes> for Vec<u8> {
    fn eq(&self, other: &Bytes) -> bool {
        *other == *self
    }
}
impl PartialOrd<Bytes> for Vec<u8> {
    fn partial_cmp(&self, other: &Bytes) -> Option<cmp::Ordering> {
        <[u8] as PartialOrd<[u8]>>::partial_cmp(self, other)
    }
}
impl PartialEq<String> for Bytes {
    fn eq(&self, other: &String) -> bool {
        *self == other[..]
    }
}
impl PartialOrd<String> for Bytes {
    fn partial_cmp(&self, other: &String) -> Option<cmp::Ordering> {
        self.as_slice().partial_cmp(other.as_bytes())
    }
}
impl PartialEq<Bytes> for String {
    fn eq(&self, other: &Bytes) -> bool {
        *other == *self
    }
}
impl PartialOrd<Bytes> for String {
    fn partial_cmp(&self, other: &Bytes) -> Option<cmp::Ordering> {
        <[u8] as PartialOrd<[u8]>>::partial_cmp(self.as_bytes(), other)
    }
}
impl PartialEq<Bytes> for &[u8] {
    fn eq(&self, other: &Bytes) -> bool {
        *other == *self
    }
}
impl PartialOrd<Bytes> for &[u8] {
    fn partial_cmp(&self, other: &Bytes) -> Option<cmp::Ordering> {
        <[u8] as PartialOrd<[u8]>>::partial_cmp(self, other)
    }
}
impl PartialEq<Bytes> for &str {
    fn eq(&self, other: &Bytes) -> bool {
        *other == *self
    }
}
impl PartialOrd<Bytes> for &str {
    fn partial_cmp(&self, other: &Bytes) -> Option<cmp::Ordering> {
        <[u8] as PartialOrd<[u8]>>::partial_cmp(self.as_bytes(), other)
    }
}
impl<'a, T: ?Sized> PartialEq<&'a T> for Bytes
where
    Bytes: PartialEq<T>,
{
    fn eq(&self, other: &&'a T) -> bool {
        *self == **other
    }
}
impl<'a, T: ?Sized> PartialOrd<&'a T> for Bytes
where
    Bytes: PartialOrd<T>,
{
    fn partial_cmp(&self, other: &&'a T) -> Option<cmp::Ordering> {
        self.partial_cmp(&**other)
    }
}

impl Default for Bytes {
    #[inline]
    fn default() -> Bytes {
        Bytes::new()
    }
}
impl From<&'static [u8]> for Bytes {
    fn from(slice: &'static [u8]) -> Bytes {
        Bytes::from_static(slice)
    }
}
impl From<&'static str> for Bytes {
    fn from(slice: &'static str) -> Bytes {
        Bytes::from_static(slice.as_bytes())
    }
}
impl From<Vec<u8>> for Bytes {
    fn from(vec: Vec<u8>) -> Bytes {
        Bytes { repr: Repr::Owned(vec) }
    }
}
impl From<Box<[u8]>> for Bytes {
    fn from(slice: Box<[u8]>) -> Bytes {
        Bytes { repr: Repr::Owned(slice.into_vec()) }
    }
}
impl From<Bytes> for BytesMut {
    fn from(bytes: Bytes) -> Self {
        BytesMut::from_vec(bytes.into_vec())
    }
}
impl From<String> for Bytes {
    fn from(s: String) -> Bytes {
        Bytes::from(s.into_bytes())
    }
}
impl From<Bytes> for Vec<u8> {
    fn from(bytes: Bytes) -> Vec<u8> {
        bytes.into_vec()
    }
}
