//! Verification model of `bytes::BytesMut`: a growable byte buffer backed by a plain `Vec<u8>`.
//! `split_to` / `split_off` / `split` / `freeze` copy instead of sharing the allocation; the byte
//! sequence each handle observes is the one documented by the `bytes` crate.
use alloc::{borrow::{Borrow, BorrowMut}, string::String, vec::Vec};
use core::mem::MaybeUninit;
use core::ops::{Deref, DerefMut};
use core::{cmp, fmt, hash};

use crate::buf::{IntoIter, UninitSlice};
use crate::{Buf, BufMut, Bytes};

pub struct BytesMut {
    buf: Vec<u8>,
}

impl BytesMut {
    #[inline]
    pub fn with_capacity(capacity: usize) -> BytesMut {
        BytesMut { buf: Vec::with_capacity(capacity) }
    }
    #[inline]
    pub fn new() -> BytesMut {
        BytesMut { buf: Vec::new() }
    }
    pub(crate) fn from_vec(buf: Vec<u8>) -> BytesMut {
        BytesMut { buf }
    }
    #[inline]
    pub fn len(&self) -> usize {
        self.buf.len()
    }
    #[inline]
    pub fn is_empty(&self) -> bool {
        self.buf.is_empty()
    }
    #[inline]
    pub fn capacity(&self) -> usize {
        self.buf.capacity()
    }
    #[inline]
    pub fn freeze(self) -> Bytes {
        Bytes::from_vec_owned(self.buf)
    }
    pub fn zeroed(len: usize) -> BytesMut {
        BytesMut { buf: alloc::vec![0u8; len] }
    }
    #[must_use = "consider BytesMut::truncate if you don't need the other half"]
    pub fn split_off(&mut self, at: usize) -> BytesMut {
        assert!(at <= self.capacity(), "split_off out of bounds: {:?} <= {:?}", at, self.capacity());
        let at = cmp::min(at, self.buf.len());
        BytesMut { buf: self.buf.split_off(at) }
    }
    #[must_use = "consider BytesMut::clear if you don't need the other half"]
    pub fn split(&mut self) -> BytesMut {
        let len = self.len();
        self.split_to(len)
    }
    #[must_use = "consider BytesMut::advance if you don't need the other half"]
    pub fn split_to(&mut self, at: usize) -> BytesMut {
        assert!(at <= self.len(), "split_to out of bounds: {:?} <= {:?}", at, self.len());
        let tail = self.buf.split_off(at);
        let head = core::mem::replace(&mut self.buf, tail);
        BytesMut { buf: head }
    }
    pub fn truncate(&mut self, len: usize) {
        self.buf.truncate(len);
    }
    pub fn clear(&mut self) {
        self.buf.clear();
    }
    pub fn resize(&mut self, new_len: usize, value: u8) {
        self.buf.resize(new_len, value);
    }
    #[inline]
    pub unsafe fn set_len(&mut self, len: usize) {
        debug_assert!(len <= self.buf.capacity(), "set_len out of bounds");
        self.buf.set_len(len);
    }
    #[inline]
    pub fn reserve(&mut self, additional: usize) {
        self.buf.reserve(additional);
    }
    pub fn try_reclaim(&mut self, additional: usize) -> bool {
        self.buf.capacity() - self.buf.len() >= additional
    }
    #[inline]
    pub fn extend_from_slice(&mut self, extend: &[u8]) {
        self.buf.extend_from_slice(extend);
    }
    pub fn extend_from_within(&mut self, range: impl core::ops::RangeBounds<usize>) {
        let (begin, end) = crate::range(range, self.len());
        self.buf.extend_from_within(begin..end);
    }
    pub fn unsplit(&mut self, other: BytesMut) {
        self.buf.extend_from_slice(&other.buf);
    }
    pub fn try_unsplit(&mut self, other: BytesMut) -> Result<(), BytesMut> {
        self.unsplit(other);
        Ok(())
    }
    #[inline]
    pub fn spare_capacity_mut(&mut self) -> &mut [MaybeUninit<u8>] {
        self.buf.spare_capacity_mut()
    }
    #[inline]
    fn as_slice(&self) -> &[u8] {
        self.buf.as_slice()
    }
    #[inline]
    fn as_slice_mut(&mut self) -> &mut [u8] {
        self.buf.as_mut_slice()
    }
}

impl Buf for BytesMut {
    #[inline]
    fn remaining(&self) -> usize {
        self.len()
    }
    #[inline]
    fn chunk(&self) -> &[u8] {
        self.as_slice()
    }
    #[inline]
    fn advance(&mut self, cnt: usize) {
        assert!(
            cnt <= self.remaining(),
            "cannot advance past `remaining`: {:?} <= {:?}",
            cnt,
            self.remaining(),
        );
        let tail = self.buf.split_off(cnt);
        self.buf = tail;
    }
    fn copy_to_bytes(&mut self, len: usize) -> Bytes {
        self.split_to(len).freeze()
    }
}

unsafe impl BufMut for BytesMut {
    #[inline]
    fn remaining_mut(&self) -> usize {
        usize::MAX - self.len()
    }
    #[inline]
    unsafe fn advance_mut(&mut self, cnt: usize) {
        let remaining = self.buf.capacity() - self.len();
        if cnt > remaining {
            super::panic_advance(&crate::TryGetError { requested: cnt, available: remaining });
        }
        let n = self.len() + cnt;
        self.buf.set_len(n);
    }
    #[inline]
    fn chunk_mut(&mut self) -> &mut UninitSlice {
        if self.buf.capacity() == self.len() {
            self.reserve(64);
        }
        self.spare_capacity_mut().into()
    }
    fn put<T: Buf>(&mut self, mut src: T)
    where
        Self: Sized,
    {
        while src.has_remaining() {
            let s = src.chunk();
            let l = s.len();
            self.extend_from_slice(s);
            src.advance(l);
        }
    }
    fn put_slice(&mut self, src: &[u8]) {
        self.extend_from_slice(src);
    }
    fn put_bytes(&mut self, val: u8, cnt: usize) {
        let n = self.len() + cnt;
        self.buf.resize(n, val);
    }
}

impl AsRef<[u8]> for BytesMut {
    #[inline]
    fn as_ref(&self) -> &[u8] {
        self.as_slice()
    }
}
impl Deref for BytesMut {
    type Target = [u8];
    #[inline]
    fn deref(&self) -> &[u8] {
        self.as_slice()
    }
}
impl AsMut<[u8]> for BytesMut {
    #[inline]
    fn as_mut(&mut self) -> &mut [u8] {
        self.as_slice_mut()
    }
}
impl DerefMut for BytesMut {
    #[inline]
    fn deref_mut(&mut self) -> &mut [u8] {
        self.as_slice_mut()
    }
}
impl<'a> From<&'a [u8]> for BytesMut {
    fn from(src: &'a [u8]) -> BytesMut {
        BytesMut { buf: src.to_vec() }
    }
}
impl<'a> From<&'a str> for BytesMut {
    fn from(src: &'a str) -> BytesMut {
        BytesMut::from(src.as_bytes())
    }
}
impl From<BytesMut> for Bytes {
    fn from(src: BytesMut) -> Bytes {
        src.freeze()
    }
}
impl PartialEq for BytesMut {
    fn eq(&self, other: &BytesMut) -> bool {
        self.as_slice() == other.as_slice()
    }
}
impl PartialOrd for BytesMut {
    fn partial_cmp(&self, other: &BytesMut) -> Option<cmp::Ordering> {
        Some(self.cmp(other))
    }
}
impl Ord for BytesMut {
    fn cmp(&self, other: &BytesMut) -> cmp::Ordering {
        self.as_slice().cmp(other.as_slice())
    }
}
impl Eq for BytesMut {}
impl Default for BytesMut {
    #[inline]
    fn default() -> BytesMut {
        BytesMut::new()
    }
}
impl hash::Hash for BytesMut {
    fn hash<H: hash::Hasher>(&self, state: &mut H) {
        let s: &[u8] = self.as_ref();
        s.hash(state);
    }
}
impl Borrow<[u8]> for BytesMut {
    fn borrow(&self) -> &[u8] {
        self.as_ref()
    }
}
impl BorrowMut<[u8]> for BytesMut {
    fn borrow_mut(&mut self) -> &mut [u8] {
        self.as_mut()
    }
}
impl fmt::Write for BytesMut {
    #[inline]
    fn write_str(&mut self, s: &str) -> fmt::Result {
        self.put_slice(s.as_bytes());
        Ok(())
    }
    #[inline]
    fn write_fmt(&mut self, args: fmt::Arguments<'_>) -> fmt::Result {
        fmt::write(self, args)
    }
}
impl Clone for BytesMut {
    fn clone(&self) -> BytesMut {
        BytesMut { buf: self.buf.clone() }
    }
}
impl IntoIterator for BytesMut {
    type Item = u8;
    type IntoIter = IntoIter<BytesMut>;
    fn into_iter(self) -> Self::IntoIter {
        IntoIter::new(self)
    }
}
impl<'a> IntoIterator for &'a BytesMut {
    type Item = &'a u8;
    type IntoIter = core::slice::Iter<'a, u8>;
    fn into_iter(self) -> Self::IntoIter {
        self.as_ref().iter()
    }
}
impl Extend<u8> for BytesMut {
    fn extend<T>(&mut self, iter: T)
    where
        T: IntoIterator<Item = u8>,
    {
        self.buf.extend(iter);
    }
}
impl<'a> Extend<&'a u8> for BytesMut {
    fn extend<T>(&mut self, iter: T)
    where
        T: IntoIterator<Item = &'a u8>,
    {
        self.extend(iter.into_iter().copied())
    }
}
impl Extend<Bytes> for BytesMut {
    fn extend<T>(&mut self, iter: T)
    where
        T: IntoIterator<Item = Bytes>,
    {
        for bytes in iter {
            self.extend_from_slice(&bytes)
        }
    }
}
impl FromIterator<u8> for BytesMut {
    fn from_iter<T: IntoIterator<Item = u8>>(into_iter: T) -> Self {
        BytesMut { buf: Vec::from_iter(into_iter) }
    }
}
impl<'a> FromIterator<&'a u8> for BytesMut {
    fn from_iter<T: IntoIterator<Item = &'a u8>>(into_iter: T) -> Self {
        BytesMut::from_iter(into_iter.into_iter().copied())
    }
}

impl PartialEq<[u8]> for BytesMut {
    fn eq(&self, other: &[u8]) -> bool {
        &**self == other
    }
}
impl PartialOrd<[u8]> for BytesMut {
    fn partial_cmp(&self, other: &[u8]) -> Option<cmp::Ordering> {
        (**self).partial_cmp(other)
    }
}
impl PartialEq<BytesMut> for [u8] {
    fn eq(&self, other: &BytesMut) -> bool {
        *other == *self
    }
}
impl PartialOrd<BytesMut> for [u8] {
    fn partial_cmp(&self, other: &BytesMut) -> Option<cmp::Ordering> {
        <[u8] as PartialOrd<[u8]>>::partial_cmp(self, other)
    }
}
impl PartialEq<str> for BytesMut {
    fn eq(&self, other: &str) -> bool {
        &**self == other.as_bytes()
    }
}
impl PartialOrd<str> for BytesMut {
    fn partial_cmp(&self, other: &str) -> Option<cmp::Ordering> {
        (**self).partial_cmp(other.as_bytes())
    }
}
impl PartialEq<BytesMut> for str {
    fn eq(&self, other: &BytesMut) -> bool {
        *other == *self
    }
}
impl PartialOrd<BytesMut> for str {
    fn partial_cmp(&self, other: &BytesMut) -> Option<cmp::Ordering> {
        <[u8] as PartialOrd<[u8]>>::partial_cmp(self.as_bytes(), other)
    }
}
impl PartialEq<Vec<u8>> for BytesMut {
    fn eq(&self, other: &Vec<u8>) -> bool {
        *self == other[..]
    }
}
impl PartialOrd<Vec<u8>> for BytesMut {
    fn partial_cmp(&self, other: &Vec<u8>) -> Option<cmp::Ordering> {
        (**self).partial_cmp(&other[..])
    }
}
impl PartialEq<BytesMut> for Vec<u8> {
    fn eq(&self, other: &BytesMut) -> bool {
        *other == *self
    }
}
impl PartialOrd<BytesMut> for Vec<u8> {
    fn partial_cmp(&self, other: &BytesMut) -> Option<cmp::Ordering> {
        other.partial_cmp(self)
    }
}
impl PartialEq<String> for BytesMut {
    fn eq(&self, other: &String) -> bool {
        *self == other[..]
    }
}
impl PartialOrd<String> for BytesMut {
    fn partial_cmp(&self, other: &String) -> Option<cmp::Ordering> {
        (**self).partial_cmp(other.as_bytes())
    }
}
impl PartialEq<BytesMut> for String {
    fn eq(&self, other: &BytesMut) -> bool {
        *other == *self
    }
}
impl PartialOrd<BytesMut> for String {
    fn partial_cmp(&self, other: &BytesMut) -> Option<cmp::Ordering> {
        <[u8] as PartialOrd<[u8]>>::partial_cmp(self.as_bytes(), other)
    }
}
impl<'a, T: ?Sized> PartialEq<&'a T> for BytesMut
where
    BytesMut: PartialEq<T>,
{
    fn eq(&self, other: &&'a T) -> bool {
        *self == **other
    }
}
impl<'a, T: ?Sized> PartialOrd<&'a T> for BytesMut
where
    BytesMut: PartialOrd<T>,
{
    fn partial_cmp(&self, other: &&'a T) -> Option<cmp::Ordering> {
        self.partial_cmp(*other)
    }
}
impl PartialEq<BytesMut> for &[u8] {
    fn eq(&self, other: &BytesMut) -> bool {
        *other == *self
    }
}
impl PartialOrd<BytesMut> for &[u8] {
    fn partial_cmp(&self, other: &BytesMut) -> Option<cmp::Ordering> {
        <[u8] as PartialOrd<[u8]>>::partial_cmp(self, other)
    }
}
impl PartialEq<BytesMut> for &str {
    fn eq(&self, other: &BytesMut) -> bool {
        *other == *self
    }
}
impl PartialOrd<BytesMut> for &str {
    fn partial_cmp(&self, other: &BytesMut) -> Option<cmp::Ordering> {
        other.partial_cmp(self)
    }
}
impl PartialEq<BytesMut> for Bytes {
    fn eq(&self, other: &BytesMut) -> bool {
        other[..] == self[..]
    }
}
impl PartialEq<Bytes> for BytesMut {
    fn eq(&self, other: &Bytes) -> bool {
        other[..] == self[..]
    }
}
impl From<BytesMut> for Vec<u8> {
    fn from(bytes: BytesMut) -> Self {
        bytes.buf
    }
}
