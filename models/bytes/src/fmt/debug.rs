use core::fmt::{Debug, Formatter, Result};

use super::BytesRef;
use crate::{Bytes, BytesMut};

/// Alternative implementation of `std::fmt::Debug` for byte slice.
///
/// Standard `Debug` implementation for `[u8]` is comma separated
/// list of numbers. Since large amount of byte strings are in fact
/// ASCII strings or contain a lot of ASCII strings (e. g. HTTP),
/// it is convenient to print strings as ASCII when possible.
impl Debug for BytesRef<'_> {
    fn fmt(&self, f: &mut Formatter<'_>) -> Result {
        write!(f, "b\"")?;
        for &b in self.0 {
            // https://doc.rust-lang.org/reference/tokens.html#byte-escapes
            if b == b'\n' {
                write!(f, "\\n")?;
            } else if b == b'\r' {
                write!(f, "\\r")?;
            } else if b == b'\t' {
                write!(f, "\\t")?;
            } else if b == b'\\' || b == b'"' {
                write!(f, "\\{}", b as char)?;
            } else if b == b'\0' {
                write!(f, "\\0")?;
            // ASCII printable
            } else if (0x20..0x7f).contains(&b) {
                write!(f, "{}", b as char)?;
            } else {
                write!(f, "\\x{:02x}", b)?;
            }
        }
        write!(f, "\"")?;
        Ok(())
    }
}

fmt_impl!(Debug, Bytes);
fmt_impl!(Debug, BytesMut);
