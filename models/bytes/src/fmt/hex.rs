use core::fmt::{Formatter, LowerHex, Result, UpperHex};

use super::BytesRef;
use crate::{Bytes, BytesMut};

impl LowerHex for BytesRef<'_> {
    fn fmt(&self, f: &mut Formatter<'_>) -> Result {
        for &b in self.0 {
            write!(f, "{:02x}", b)?;
        }
        Ok(())
    }
}

impl UpperHex for BytesRef<'_> {
    fn fmt(&self, f: &mut Formatter<'_>) -> Result {
        for &b in self.0 {
            write!(f, "{:02X}", b)?;
        }
        Ok(())
    }
}

fmt_impl!(LowerHex, Bytes);
fmt_impl!(LowerHex, BytesMut);
fmt_impl!(UpperHex, Bytes);
fmt_impl!(UpperHex, BytesMut);
