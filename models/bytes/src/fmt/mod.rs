macro_rules! fmt_impl {
    ($tr:ident, $ty:ty) => {
        impl $tr for $ty {
            fn fmt(&self, f: &mut Formatter<'_>) -> Result {
                $tr::fmt(&BytesRef(self.as_ref()), f)
            }
        }
    };
}

mod debug;
mod hex;

/// `BytesRef` is not a part of public API of bytes crate.
struct BytesRef<'a>(&'a [u8]);
