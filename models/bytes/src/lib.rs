#![allow(missing_docs)]
#![doc(test(
    no_crate_inject,
    attr(deny(warnings, rust_2018_idioms), allow(dead_code, unused_variables))
))]
#![no_std]
#![cfg_attr(docsrs, feature(doc_cfg))]

//! Provides abstractions for working with bytes.
//!
//! The `bytes` crate provides an efficient byte buffer structure
//! ([`Bytes`]) and traits for working with buffer
//! implementations ([`Buf`], [`BufMut`]).
//!
//! # `Bytes`
//!
//! `Bytes` is an efficient container for storing and operating on contiguous
//! slices of memory. It is intended for use primarily in networking code, but
//! could have applications elsewhere as well.
//!
//! `Bytes` values facilitate zero-copy network programming by allowing multiple
//! `Bytes` objects to point to the same underlying memory. This is managed by
//! using a reference count to track when the memory is no longer needed and can
//! be freed.
//!
//! A `Bytes` handle can be created directly from an existing byte store (such as `&[u8]`
//! or `Vec<u8>`), but usually a `BytesMut` is used first and written to. For
//! example:
//!
//! ```rust
//! use bytes::{BytesMut, BufMut};
//!
//! let mut buf = BytesMut::with_capacity(1024);
//! buf.put(&b"hello world"[..]);
//! buf.put_u16(1234);
//!
//! let a = buf.split();
//! assert_eq!(a, b"hello world\x04\xD2"[..]);
//!
//! buf.put(&b"goodbye world"[..]);
//!
//! let b = buf.split();
//! assert_eq!(b, b"goodbye world"[..]);
//!
//! assert_eq!(buf.capacity(), 998);
//! ```
//!
//! In the above example, only a single buffer of 1024 is allocated. The handles
//! `a` and `b` will share the underlying buffer and maintain indices tracking
//! the view into the buffer represented by the handle.
//!
//! See the [struct docs](`Bytes`) for more details.
//!
//! # `Buf`, `BufMut`
//!
//! These two traits provide read and write access to buffers. The underlying
//! storage may or may not be in contiguous memory. For example, `Bytes` is a
//! buffer that guarantees contiguous memory, but a [rope] stores the bytes in
//! disjoint chunks. `Buf` and `BufMut` maintain cursors tracking the current
//! position in the underlying byte storage. When bytes are read or written, the
//! cursor is advanced.
//!
//! [rope]: https://en.wikipedia.org/wiki/Rope_(data_structure)
//!
//! ## Relation with `Read` and `Write`
//!
//! At first glance, it may seem that `Buf` and `BufMut` overlap in
//! functionality with [`std::io::Read`] and [`std::io::Write`]. However, they
//! serve different purposes. A buffer is the value that is provided as an
//! argument to `Read::read` and `Write::write`. `Read` and `Write` may then
//! perform a syscall, which has the potential of failing. Operations on `Buf`
//! and `BufMut` are infallible.

extern crate alloc;

#[cfg(feature = "std")]
extern crate std;

pub mod buf;
pub use crate::buf::{Buf, BufMut};

mod bytes;
mod bytes_mut;
mod fmt;

pub use crate::bytes::Bytes;
pub use crate::bytes_mut::BytesMut;

// Optional Serde support
#[cfg(feature = "serde")]
mod serde;

#[inline(never)]
#[cold]
fn abort() -> ! {
    #[cfg(feature = "std")]
    {
        std::process::abort();
    }

    #[cfg(not(feature = "std"))]
    {
        struct Abort;
        impl Drop for Abort {
            fn drop(&mut self) {
                panic!();
            }
        }
        let _a = Abort;
        panic!("abort");
    }
}

#[inline(always)]
#[cfg(feature = "std")]
fn saturating_sub_usize_u64(a: usize, b: u64) -> usize {
    match usize::try_from(b) {
        Ok(b) => a.saturating_sub(b),
        Err(_) => 0,
    }
}

#[inline(always)]
#[cfg(feature = "std")]
fn min_u64_usize(a: u64, b: usize) -> usize {
    match usize::try_from(a) {
        Ok(a) => usize::min(a, b),
        Err(_) => b,
    }
}

/// Performs bounds checking of a range.
///
/// This is a spiritual copy of [core::slice::index::range] because that
/// function is currently unstable.
#[inline(always)]
#[track_caller]
fn range(range: impl core::ops::RangeBounds<usize>, len: usize) -> (usize, usize) {
    use core::ops::Bound;

    let begin = match range.start_bound() {
        Bound::Included(&n) => n,
        Bound::Excluded(&n) => n.checked_add(1).expect("out of range"),
        Bound::Unbounded => 0,
    };

    let end = match range.end_bound() {
        Bound::Included(&n) => n.checked_add(1).expect("out of range"),
        Bound::Excluded(&n) => n,
        Bound::Unbounded => len,
    };

    assert!(
        begin <= end,
        "range start must not be greater than end: {:?} <= {:?}",
        begin,
        end,
    );
    assert!(
        end <= len,
        "range end out of bounds: {:?} <= {:?}",
        end,
        len,
    );

    (begin, end)
}

/// Error type for the `try_get_` methods of [`Buf`].
/// Indicates that there were not enough remaining
/// bytes in the buffer while attempting
/// to get a value from a [`Buf`] with one
/// of the `try_get_` methods.
#[derive(Debug, PartialEq, Eq)]
pub struct TryGetError {
    /// The number of bytes necessary to get the value
    pub requested: usize,

    /// The number of bytes available in the buffer
    pub available: usize,
}

impl core::fmt::Display for TryGetError {
    fn fmt(&self, f: &mut core::fmt::Formatter<'_>) -> Result<(), core::fmt::Error> {
        write!(
            f,
            "Not enough bytes remaining in buffer to read value (requested {} but only {} available)",
            self.requested,
            self.available
        )
    }
}

#[cfg(feature = "std")]
impl std::error::Error for TryGetError {}

#[cfg(feature = "std")]
impl From<TryGetError> for std::io::Error {
    fn from(error: TryGetError) -> Self {
        std::io::Error::new(std::io::ErrorKind::Other, error)
    }
}

/// Panic with a nice error message.
#[cold]
fn panic_advance(error_info: &TryGetError) -> ! {
    panic!(
        "advance out of bounds: the len is {} but advancing by {}",
        error_info.available, error_info.requested
    );
}

#[cold]
fn panic_does_not_fit(size: usize, nbytes: usize) -> ! {
    panic!(
        "size too large: the integer type can fit {} bytes, but nbytes is {}",
        size, nbytes
    );
}
