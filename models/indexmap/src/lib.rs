//! Verification model of the `indexmap` crate (API subset used by turmoil).
//!
//! Contract kept (indexmap 2.x): key uniqueness, iteration in insertion order, `swap_remove` moves
//! the last entry into the hole, `shift_remove` preserves order, `retain` preserves order, entry API,
//! `get_index`, `Index<&K>` panics on a missing key.
//!
//! Representation: linear search over an insertion-ordered sequence whose first `INLINE` entries live
//! *inline* in the map value (`[Option<(K, V)>; INLINE]`) and whose remaining entries spill into a
//! `Vec`. Rationale (measured, see DESIGN.md §1): CBMC constant-propagates through fields of local
//! aggregates but not through heap arrays of structs that contain niche-encoded `Option`s, so a table
//! that keeps its first few entries inline lets symbolic execution resolve lookups on concrete keys
//! without consulting the solver. The same code (inline + spill) runs natively when the repository's
//! test-suites are executed against this model.
use std::borrow::Borrow;
use std::hash::Hash;

pub const INLINE: usize = 3;

pub mod map {
    pub use super::{Entry, IndexMap, OccupiedEntry, VacantEntry};
    pub type Iter<'a, K, V> = super::MapIter<'a, K, V>;
    pub type IterMut<'a, K, V> = super::MapIterMut<'a, K, V>;
}
pub mod set {
    pub use super::IndexSet;
    pub type Iter<'a, T> = super::SetIter<'a, T>;
}

// ------------------------------------------------------------------------------------------------
// ordered sequence with inline prefix

pub struct Seq<T> {
    len: usize,
    inl: [Option<T>; INLINE],
    spill: Vec<T>,
}

impl<T> Seq<T> {
    pub const fn new() -> Self {
        Seq { len: 0, inl: [const { None }; INLINE], spill: Vec::new() }
    }
    #[inline]
    pub fn len(&self) -> usize {
        self.len
    }
    #[inline]
    pub fn get(&self, i: usize) -> Option<&T> {
        if i >= self.len {
            None
        } else if i < INLINE {
            self.inl[i].as_ref()
        } else {
            self.spill.get(i - INLINE)
        }
    }
    #[inline]
    pub fn get_mut(&mut self, i: usize) -> Option<&mut T> {
        if i >= self.len {
            None
        } else if i < INLINE {
            self.inl[i].as_mut()
        } else {
            self.spill.get_mut(i - INLINE)
        }
    }
    #[inline]
    fn at(&self, i: usize) -> &T {
        match self.get(i) {
            Some(t) => t,
            None => panic!("index out of bounds"),
        }
    }
    #[inline]
    fn at_mut(&mut self, i: usize) -> &mut T {
        match self.get_mut(i) {
            Some(t) => t,
            None => panic!("index out of bounds"),
        }
    }
    /// Store into an inline slot that is `None` by the representation invariant (slots >= len are
    /// empty) WITHOUT running drop glue for the old value: a plain assignment makes the symbolic
    /// executor walk the whole destructor of `T` under a guard it cannot always fold.
    #[inline]
    fn put(slot: &mut Option<T>, v: Option<T>) {
        debug_assert!(slot.is_none());
        std::mem::forget(std::mem::replace(slot, v));
    }
    pub fn push(&mut self, t: T) {
        if self.len < INLINE {
            Self::put(&mut self.inl[self.len], Some(t));
        } else {
            self.spill.push(t);
        }
        self.len += 1;
    }
    pub fn pop(&mut self) -> Option<T> {
        if self.len == 0 {
            return None;
        }
        self.len -= 1;
        if self.len < INLINE {
            self.inl[self.len].take()
        } else {
            self.spill.pop()
        }
    }
    /// take the element at `i` out, leaving a hole (caller restores the invariant)
    fn take_raw(&mut self, i: usize) -> T {
        if i < INLINE {
            match self.inl[i].take() {
                Some(t) => t,
                None => panic!("hole"),
            }
        } else {
            // order-preserving removal from the spill; only used by `remove` on the last spill index
            // or via `shift` below
            self.spill.remove(i - INLINE)
        }
    }
    /// order-preserving removal
    pub fn remove(&mut self, i: usize) -> T {
        assert!(i < self.len, "removal index out of bounds");
        if i >= INLINE {
            self.len -= 1;
            return self.spill.remove(i - INLINE);
        }
        let out = self.take_raw(i);
        // shift the inline tail down
        let mut j = i;
        while j + 1 < INLINE && j + 1 < self.len {
            let next = self.inl[j + 1].take();
            Self::put(&mut self.inl[j], next);
            j += 1;
        }
        // pull the first spilled element into the last inline slot
        if self.len > INLINE {
            let first = self.spill.remove(0);
            Self::put(&mut self.inl[INLINE - 1], Some(first));
        }
        self.len -= 1;
        out
    }
    /// removal that moves the last element into the hole
    pub fn swap_remove(&mut self, i: usize) -> T {
        assert!(i < self.len, "removal index out of bounds");
        let last = match self.pop() {
            Some(t) => t,
            None => panic!("empty"),
        };
        if i == self.len {
            last
        } else {
            std::mem::replace(self.at_mut(i), last)
        }
    }
    pub fn clear(&mut self) {
        while self.pop().is_some() {}
    }
    pub fn retain_mut<F: FnMut(&mut T) -> bool>(&mut self, mut f: F) {
        let n = self.len;
        let mut kept = Seq::new();
        // drain front-to-back preserving order
        let mut all = Vec::new();
        std::mem::swap(&mut all, &mut self.spill);
        let mut i = 0;
        while i < n && i < INLINE {
            if let Some(mut t) = self.inl[i].take() {
                if f(&mut t) {
                    kept.push(t);
                }
            }
            i += 1;
        }
        for mut t in all {
            if f(&mut t) {
                kept.push(t);
            }
        }
        *self = kept;
    }
    pub fn iter(&self) -> SeqIter<'_, T> {
        SeqIter { seq: self, front: 0, back: self.len }
    }
    pub fn iter_mut(&mut self) -> SeqIterMut<'_, T> {
        SeqIterMut { inl: self.inl.iter_mut(), spill: self.spill.iter_mut() }
    }
    pub fn into_vec(mut self) -> Vec<T> {
        let mut v = Vec::with_capacity(self.len);
        let mut i = 0;
        while i < self.len && i < INLINE {
            if let Some(t) = self.inl[i].take() {
                v.push(t);
            }
            i += 1;
        }
        v.append(&mut self.spill);
        v
    }
    pub fn drain_all(&mut self) -> Vec<T> {
        let s = std::mem::replace(self, Seq::new());
        s.into_vec()
    }
}

impl<T: Clone> Clone for Seq<T> {
    fn clone(&self) -> Self {
        let mut s = Seq::new();
        let mut i = 0;
        while i < self.len {
            s.push(self.at(i).clone());
            i += 1;
        }
        s
    }
}

pub struct SeqIter<'a, T> {
    seq: &'a Seq<T>,
    front: usize,
    back: usize,
}
impl<'a, T> Iterator for SeqIter<'a, T> {
    type Item = &'a T;
    #[inline]
    fn next(&mut self) -> Option<&'a T> {
        if self.front >= self.back {
            return None;
        }
        let r = self.seq.get(self.front);
        self.front += 1;
        r
    }
    fn size_hint(&self) -> (usize, Option<usize>) {
        let n = self.back - self.front;
        (n, Some(n))
    }
}
impl<'a, T> DoubleEndedIterator for SeqIter<'a, T> {
    fn next_back(&mut self) -> Option<&'a T> {
        if self.front >= self.back {
            return None;
        }
        self.back -= 1;
        self.seq.get(self.back)
    }
}
impl<'a, T> ExactSizeIterator for SeqIter<'a, T> {}
impl<'a, T> Clone for SeqIter<'a, T> {
    fn clone(&self) -> Self {
        SeqIter { seq: self.seq, front: self.front, back: self.back }
    }
}

pub struct SeqIterMut<'a, T> {
    inl: std::slice::IterMut<'a, Option<T>>,
    spill: std::slice::IterMut<'a, T>,
}
impl<'a, T> Iterator for SeqIterMut<'a, T> {
    type Item = &'a mut T;
    #[inline]
    fn next(&mut self) -> Option<&'a mut T> {
        // invariant: inline slots are `Some` exactly for the first min(len, INLINE) positions
        if let Some(slot) = self.inl.next() {
            if let Some(t) = slot.as_mut() {
                return Some(t);
            }
        }
        self.spill.next()
    }
}

// ------------------------------------------------------------------------------------------------
// IndexMap

pub struct IndexMap<K, V> {
    entries: Seq<(K, V)>,
    /// key of the vacant entry currently handed out by `entry()` (see `mod stash`)
    pending_key: Option<K>,
}

impl<K: Clone, V: Clone> Clone for IndexMap<K, V> {
    fn clone(&self) -> Self {
        IndexMap { entries: self.entries.clone(), pending_key: None }
    }
}

impl<K: std::fmt::Debug, V: std::fmt::Debug> std::fmt::Debug for IndexMap<K, V> {
    fn fmt(&self, f: &mut std::fmt::Formatter<'_>) -> std::fmt::Result {
        f.debug_map().entries(self.iter()).finish()
    }
}

impl<K, V> Default for IndexMap<K, V> {
    fn default() -> Self {
        Self::new()
    }
}

pub struct MapIter<'a, K, V>(SeqIter<'a, (K, V)>);
impl<'a, K, V> Iterator for MapIter<'a, K, V> {
    type Item = (&'a K, &'a V);
    #[inline]
    fn next(&mut self) -> Option<Self::Item> {
        match self.0.next() {
            Some((k, v)) => Some((k, v)),
            None => None,
        }
    }
    fn size_hint(&self) -> (usize, Option<usize>) {
        self.0.size_hint()
    }
}
impl<'a, K, V> DoubleEndedIterator for MapIter<'a, K, V> {
    fn next_back(&mut self) -> Option<Self::Item> {
        match self.0.next_back() {
            Some((k, v)) => Some((k, v)),
            None => None,
        }
    }
}
impl<'a, K, V> ExactSizeIterator for MapIter<'a, K, V> {}
impl<'a, K, V> Clone for MapIter<'a, K, V> {
    fn clone(&self) -> Self {
        MapIter(self.0.clone())
    }
}

pub struct MapIterMut<'a, K, V>(SeqIterMut<'a, (K, V)>);
impl<'a, K, V> Iterator for MapIterMut<'a, K, V> {
    type Item = (&'a K, &'a mut V);
    #[inline]
    fn next(&mut self) -> Option<Self::Item> {
        match self.0.next() {
            Some((k, v)) => Some((&*k, v)),
            None => None,
        }
    }
}

pub struct Keys<'a, K, V>(SeqIter<'a, (K, V)>);
impl<'a, K, V> Iterator for Keys<'a, K, V> {
    type Item = &'a K;
    #[inline]
    fn next(&mut self) -> Option<&'a K> {
        match self.0.next() {
            Some((k, _)) => Some(k),
            None => None,
        }
    }
    fn size_hint(&self) -> (usize, Option<usize>) {
        self.0.size_hint()
    }
}
impl<'a, K, V> DoubleEndedIterator for Keys<'a, K, V> {
    fn next_back(&mut self) -> Option<&'a K> {
        match self.0.next_back() {
            Some((k, _)) => Some(k),
            None => None,
        }
    }
}
impl<'a, K, V> ExactSizeIterator for Keys<'a, K, V> {}

pub struct Values<'a, K, V>(SeqIter<'a, (K, V)>);
impl<'a, K, V> Iterator for Values<'a, K, V> {
    type Item = &'a V;
    #[inline]
    fn next(&mut self) -> Option<&'a V> {
        match self.0.next() {
            Some((_, v)) => Some(v),
            None => None,
        }
    }
    fn size_hint(&self) -> (usize, Option<usize>) {
        self.0.size_hint()
    }
}
impl<'a, K, V> DoubleEndedIterator for Values<'a, K, V> {
    fn next_back(&mut self) -> Option<&'a V> {
        match self.0.next_back() {
            Some((_, v)) => Some(v),
            None => None,
        }
    }
}
impl<'a, K, V> ExactSizeIterator for Values<'a, K, V> {}

pub struct ValuesMut<'a, K, V>(SeqIterMut<'a, (K, V)>);
impl<'a, K, V> Iterator for ValuesMut<'a, K, V> {
    type Item = &'a mut V;
    #[inline]
    fn next(&mut self) -> Option<&'a mut V> {
        match self.0.next() {
            Some((_, v)) => Some(v),
            None => None,
        }
    }
}

impl<K, V> IndexMap<K, V> {
    pub const fn new() -> Self {
        Self { entries: Seq::new(), pending_key: None }
    }
    pub fn with_capacity(_n: usize) -> Self {
        Self::new()
    }
    #[inline]
    pub fn len(&self) -> usize {
        self.entries.len()
    }
    #[inline]
    pub fn is_empty(&self) -> bool {
        self.entries.len() == 0
    }
    pub fn clear(&mut self) {
        self.entries.clear()
    }
    pub fn iter(&self) -> MapIter<'_, K, V> {
        MapIter(self.entries.iter())
    }
    pub fn iter_mut(&mut self) -> MapIterMut<'_, K, V> {
        MapIterMut(self.entries.iter_mut())
    }
    pub fn keys(&self) -> Keys<'_, K, V> {
        Keys(self.entries.iter())
    }
    pub fn values(&self) -> Values<'_, K, V> {
        Values(self.entries.iter())
    }
    pub fn values_mut(&mut self) -> ValuesMut<'_, K, V> {
        ValuesMut(self.entries.iter_mut())
    }
    pub fn get_index(&self, i: usize) -> Option<(&K, &V)> {
        match self.entries.get(i) {
            Some((k, v)) => Some((k, v)),
            None => None,
        }
    }
    pub fn get_index_mut(&mut self, i: usize) -> Option<(&K, &mut V)> {
        match self.entries.get_mut(i) {
            Some((k, v)) => Some((&*k, v)),
            None => None,
        }
    }
    pub fn swap_remove_index(&mut self, i: usize) -> Option<(K, V)> {
        if i < self.entries.len() {
            Some(self.entries.swap_remove(i))
        } else {
            None
        }
    }
    pub fn shift_remove_index(&mut self, i: usize) -> Option<(K, V)> {
        if i < self.entries.len() {
            Some(self.entries.remove(i))
        } else {
            None
        }
    }
    pub fn retain<F: FnMut(&K, &mut V) -> bool>(&mut self, mut f: F) {
        self.entries.retain_mut(|(k, v)| f(&*k, v))
    }
    /// Only the full range is supported by this model (the only form turmoil uses).
    pub fn drain(&mut self, _r: std::ops::RangeFull) -> std::vec::IntoIter<(K, V)> {
        self.entries.drain_all().into_iter()
    }
    pub fn first(&self) -> Option<(&K, &V)> {
        self.get_index(0)
    }
    pub fn last(&self) -> Option<(&K, &V)> {
        if self.entries.len() == 0 {
            None
        } else {
            self.get_index(self.entries.len() - 1)
        }
    }
    pub fn pop(&mut self) -> Option<(K, V)> {
        self.entries.pop()
    }
}

impl<K: Hash + Eq, V> IndexMap<K, V> {
    fn find<Q: ?Sized + Eq>(&self, q: &Q) -> Option<usize>
    where
        K: Borrow<Q>,
    {
        let mut i = 0;
        while i < self.entries.len() {
            if self.entries.at(i).0.borrow() == q {
                return Some(i);
            }
            i += 1;
        }
        None
    }
    pub fn get_index_of<Q: ?Sized + Hash + Eq>(&self, q: &Q) -> Option<usize>
    where
        K: Borrow<Q>,
    {
        self.find(q)
    }
    pub fn contains_key<Q: ?Sized + Hash + Eq>(&self, q: &Q) -> bool
    where
        K: Borrow<Q>,
    {
        self.find(q).is_some()
    }
    pub fn get<Q: ?Sized + Hash + Eq>(&self, q: &Q) -> Option<&V>
    where
        K: Borrow<Q>,
    {
        match self.find(q) {
            Some(i) => Some(&self.entries.at(i).1),
            None => None,
        }
    }
    pub fn get_mut<Q: ?Sized + Hash + Eq>(&mut self, q: &Q) -> Option<&mut V>
    where
        K: Borrow<Q>,
    {
        match self.find(q) {
            Some(i) => Some(&mut self.entries.at_mut(i).1),
            None => None,
        }
    }
    pub fn get_full<Q: ?Sized + Hash + Eq>(&self, q: &Q) -> Option<(usize, &K, &V)>
    where
        K: Borrow<Q>,
    {
        match self.find(q) {
            Some(i) => {
                let e = self.entries.at(i);
                Some((i, &e.0, &e.1))
            }
            None => None,
        }
    }
    pub fn insert(&mut self, k: K, v: V) -> Option<V> {
        match self.find(&k) {
            Some(i) => Some(std::mem::replace(&mut self.entries.at_mut(i).1, v)),
            None => {
                self.entries.push((k, v));
                None
            }
        }
    }
    pub fn insert_full(&mut self, k: K, v: V) -> (usize, Option<V>) {
        match self.find(&k) {
            Some(i) => (i, Some(std::mem::replace(&mut self.entries.at_mut(i).1, v))),
            None => {
                self.entries.push((k, v));
                (self.entries.len() - 1, None)
            }
        }
    }
    pub fn swap_remove<Q: ?Sized + Hash + Eq>(&mut self, q: &Q) -> Option<V>
    where
        K: Borrow<Q>,
    {
        match self.find(q) {
            Some(i) => Some(self.entries.swap_remove(i).1),
            None => None,
        }
    }
    pub fn shift_remove<Q: ?Sized + Hash + Eq>(&mut self, q: &Q) -> Option<V>
    where
        K: Borrow<Q>,
    {
        match self.find(q) {
            Some(i) => Some(self.entries.remove(i).1),
            None => None,
        }
    }
    pub fn entry(&mut self, k: K) -> Entry<'_, K, V> {
        let slot = stash::put(self as *mut IndexMap<K, V> as *mut ());
        match self.find(&k) {
            Some(i) => Entry::Occupied(OccupiedEntry { slot, index: i, _m: std::marker::PhantomData }),
            None => {
                // the key does not travel through the enum either (same union problem)
                std::mem::forget(std::mem::replace(&mut self.pending_key, Some(k)));
                Entry::Vacant(VacantEntry { slot, _m: std::marker::PhantomData })
            }
        }
    }
}

/// The entry types do NOT carry the `&mut IndexMap` inside the `Entry` enum: Kani lowers a
/// data-carrying enum to a tag plus a union, and a pointer that travels through a union loses its
/// provenance in CBMC (every later access through it becomes a case split over all objects; measured:
/// two `entry().or_default().push_back()` calls exhausted 8 GB, `get_mut().push_back()` took 1 s).
/// The map pointer is parked in a small per-thread table instead and the entry carries the table
/// index; the `'a` borrow in `PhantomData` keeps the usual exclusivity, so this is sound as long as
/// at most `stash::SLOTS` entries are alive at once per thread.
mod stash {
    pub const SLOTS: usize = 4;
    // Under Kani (single-threaded by construction) a plain static keeps the pointer a first-class
    // value for the symbolic executor; natively the table is per thread.
    #[cfg(kani)]
    mod imp {
        use super::SLOTS;
        static mut PTRS: [*mut (); SLOTS] = [std::ptr::null_mut(); SLOTS];
        static mut NEXT: usize = 0;
        pub fn put(p: *mut ()) -> usize {
            unsafe {
                let i = NEXT;
                NEXT = (i + 1) % SLOTS;
                PTRS[i] = p;
                i
            }
        }
        pub fn get(i: usize) -> *mut () {
            unsafe { PTRS[i] }
        }
    }
    #[cfg(not(kani))]
    mod imp {
        use super::SLOTS;
        use std::cell::Cell;
        thread_local! {
            static PTRS: [Cell<*mut ()>; SLOTS] = const { [const { Cell::new(std::ptr::null_mut()) }; SLOTS] };
            static NEXT: Cell<usize> = const { Cell::new(0) };
        }
        pub fn put(p: *mut ()) -> usize {
            let i = NEXT.with(|n| {
                let i = n.get();
                n.set((i + 1) % SLOTS);
                i
            });
            PTRS.with(|t| t[i].set(p));
            i
        }
        pub fn get(i: usize) -> *mut () {
            PTRS.with(|t| t[i].get())
        }
    }
    pub use imp::{get, put};
}

pub enum Entry<'a, K, V> {
    Occupied(OccupiedEntry<'a, K, V>),
    Vacant(VacantEntry<'a, K, V>),
}
pub struct OccupiedEntry<'a, K, V> {
    slot: usize,
    index: usize,
    _m: std::marker::PhantomData<&'a mut IndexMap<K, V>>,
}
pub struct VacantEntry<'a, K, V> {
    slot: usize,
    _m: std::marker::PhantomData<&'a mut IndexMap<K, V>>,
}
impl<'a, K, V> Drop for VacantEntry<'a, K, V> {
    fn drop(&mut self) {
        // an entry that was not used gives its key up
        let map = unsafe { &mut *(stash::get(self.slot) as *mut IndexMap<K, V>) };
        map.pending_key = None;
    }
}

impl<'a, K, V> OccupiedEntry<'a, K, V> {
    #[inline]
    fn map(&self) -> &'a mut IndexMap<K, V> {
        unsafe { &mut *(stash::get(self.slot) as *mut IndexMap<K, V>) }
    }
    pub fn get(&self) -> &V {
        &self.map().entries.at(self.index).1
    }
    pub fn get_mut(&mut self) -> &mut V {
        &mut self.map().entries.at_mut(self.index).1
    }
    pub fn into_mut(self) -> &'a mut V {
        &mut self.map().entries.at_mut(self.index).1
    }
    pub fn index(&self) -> usize {
        self.index
    }
    pub fn key(&self) -> &K {
        &self.map().entries.at(self.index).0
    }
    pub fn insert(&mut self, v: V) -> V {
        std::mem::replace(&mut self.map().entries.at_mut(self.index).1, v)
    }
    pub fn swap_remove(self) -> V {
        self.map().entries.swap_remove(self.index).1
    }
    pub fn shift_remove(self) -> V {
        self.map().entries.remove(self.index).1
    }
}
impl<'a, K, V> VacantEntry<'a, K, V> {
    #[inline]
    fn map(&self) -> &'a mut IndexMap<K, V> {
        unsafe { &mut *(stash::get(self.slot) as *mut IndexMap<K, V>) }
    }
    pub fn insert(self, v: V) -> &'a mut V {
        let map = self.map();
        std::mem::forget(self);
        let key = match map.pending_key.take() {
            Some(k) => k,
            None => panic!("vacant entry without key"),
        };
        map.entries.push((key, v));
        let n = map.entries.len() - 1;
        &mut map.entries.at_mut(n).1
    }
    pub fn index(&self) -> usize {
        self.map().entries.len()
    }
    pub fn key(&self) -> &K {
        match self.map().pending_key.as_ref() {
            Some(k) => k,
            None => panic!("vacant entry without key"),
        }
    }
}
impl<'a, K, V> Entry<'a, K, V> {
    pub fn or_insert(self, v: V) -> &'a mut V {
        match self {
            Entry::Occupied(e) => e.into_mut(),
            Entry::Vacant(e) => e.insert(v),
        }
    }
    pub fn or_insert_with<F: FnOnce() -> V>(self, f: F) -> &'a mut V {
        match self {
            Entry::Occupied(e) => e.into_mut(),
            Entry::Vacant(e) => e.insert(f()),
        }
    }
    pub fn or_default(self) -> &'a mut V
    where
        V: Default,
    {
        match self {
            Entry::Occupied(e) => e.into_mut(),
            Entry::Vacant(e) => e.insert(V::default()),
        }
    }
    pub fn and_modify<F: FnOnce(&mut V)>(mut self, f: F) -> Self {
        if let Entry::Occupied(e) = &mut self {
            f(e.get_mut());
        }
        self
    }
    pub fn index(&self) -> usize {
        match self {
            Entry::Occupied(e) => e.index(),
            Entry::Vacant(e) => e.index(),
        }
    }
    pub fn key(&self) -> &K {
        match self {
            Entry::Occupied(e) => e.key(),
            Entry::Vacant(e) => e.key(),
        }
    }
}

impl<K: Hash + Eq, V, Q: ?Sized + Hash + Eq> std::ops::Index<&Q> for IndexMap<K, V>
where
    K: Borrow<Q>,
{
    type Output = V;
    fn index(&self, q: &Q) -> &V {
        match self.get(q) {
            Some(v) => v,
            None => panic!("IndexMap: key not found"),
        }
    }
}
impl<K: Hash + Eq, V, Q: ?Sized + Hash + Eq> std::ops::IndexMut<&Q> for IndexMap<K, V>
where
    K: Borrow<Q>,
{
    fn index_mut(&mut self, q: &Q) -> &mut V {
        match self.get_mut(q) {
            Some(v) => v,
            None => panic!("IndexMap: key not found"),
        }
    }
}
impl<K, V> std::ops::Index<usize> for IndexMap<K, V> {
    type Output = V;
    fn index(&self, i: usize) -> &V {
        &self.entries.at(i).1
    }
}
impl<K, V> IntoIterator for IndexMap<K, V> {
    type Item = (K, V);
    type IntoIter = std::vec::IntoIter<(K, V)>;
    fn into_iter(self) -> Self::IntoIter {
        self.entries.into_vec().into_iter()
    }
}
impl<'a, K, V> IntoIterator for &'a IndexMap<K, V> {
    type Item = (&'a K, &'a V);
    type IntoIter = MapIter<'a, K, V>;
    fn into_iter(self) -> Self::IntoIter {
        self.iter()
    }
}
impl<'a, K, V> IntoIterator for &'a mut IndexMap<K, V> {
    type Item = (&'a K, &'a mut V);
    type IntoIter = MapIterMut<'a, K, V>;
    fn into_iter(self) -> Self::IntoIter {
        self.iter_mut()
    }
}
impl<K: Hash + Eq, V> FromIterator<(K, V)> for IndexMap<K, V> {
    fn from_iter<I: IntoIterator<Item = (K, V)>>(it: I) -> Self {
        let mut m = Self::new();
        for (k, v) in it {
            m.insert(k, v);
        }
        m
    }
}
impl<K: Hash + Eq, V> Extend<(K, V)> for IndexMap<K, V> {
    fn extend<I: IntoIterator<Item = (K, V)>>(&mut self, it: I) {
        for (k, v) in it {
            self.insert(k, v);
        }
    }
}
impl<K: Hash + Eq, V, const N: usize> From<[(K, V); N]> for IndexMap<K, V> {
    fn from(a: [(K, V); N]) -> Self {
        a.into_iter().collect()
    }
}
impl<K: Hash + Eq, V: PartialEq> PartialEq for IndexMap<K, V> {
    fn eq(&self, o: &Self) -> bool {
        self.len() == o.len() && self.iter().all(|(k, v)| o.get(k).map_or(false, |w| v == w))
    }
}
impl<K: Hash + Eq, V: Eq> Eq for IndexMap<K, V> {}

// ------------------------------------------------------------------------------------------------
// IndexSet

pub struct IndexSet<T> {
    items: Seq<T>,
}
impl<T: Clone> Clone for IndexSet<T> {
    fn clone(&self) -> Self {
        IndexSet { items: self.items.clone() }
    }
}
impl<T: std::fmt::Debug> std::fmt::Debug for IndexSet<T> {
    fn fmt(&self, f: &mut std::fmt::Formatter<'_>) -> std::fmt::Result {
        f.debug_set().entries(self.iter()).finish()
    }
}
impl<T> Default for IndexSet<T> {
    fn default() -> Self {
        Self::new()
    }
}
pub type SetIter<'a, T> = SeqIter<'a, T>;

impl<T> IndexSet<T> {
    pub const fn new() -> Self {
        Self { items: Seq::new() }
    }
    pub fn with_capacity(_n: usize) -> Self {
        Self::new()
    }
    pub fn len(&self) -> usize {
        self.items.len()
    }
    pub fn is_empty(&self) -> bool {
        self.items.len() == 0
    }
    pub fn clear(&mut self) {
        self.items.clear()
    }
    pub fn iter(&self) -> SetIter<'_, T> {
        self.items.iter()
    }
    pub fn get_index(&self, i: usize) -> Option<&T> {
        self.items.get(i)
    }
    pub fn swap_remove_index(&mut self, i: usize) -> Option<T> {
        if i < self.items.len() {
            Some(self.items.swap_remove(i))
        } else {
            None
        }
    }
    pub fn shift_remove_index(&mut self, i: usize) -> Option<T> {
        if i < self.items.len() {
            Some(self.items.remove(i))
        } else {
            None
        }
    }
    pub fn retain<F: FnMut(&T) -> bool>(&mut self, mut f: F) {
        self.items.retain_mut(|t| f(&*t))
    }
    pub fn first(&self) -> Option<&T> {
        self.items.get(0)
    }
    pub fn last(&self) -> Option<&T> {
        if self.items.len() == 0 {
            None
        } else {
            self.items.get(self.items.len() - 1)
        }
    }
    pub fn pop(&mut self) -> Option<T> {
        self.items.pop()
    }
    pub fn drain(&mut self, _r: std::ops::RangeFull) -> std::vec::IntoIter<T> {
        self.items.drain_all().into_iter()
    }
}
impl<T: Hash + Eq> IndexSet<T> {
    fn find<Q: ?Sized + Eq>(&self, q: &Q) -> Option<usize>
    where
        T: Borrow<Q>,
    {
        let mut i = 0;
        while i < self.items.len() {
            if self.items.at(i).borrow() == q {
                return Some(i);
            }
            i += 1;
        }
        None
    }
    pub fn contains<Q: ?Sized + Hash + Eq>(&self, q: &Q) -> bool
    where
        T: Borrow<Q>,
    {
        self.find(q).is_some()
    }
    pub fn get<Q: ?Sized + Hash + Eq>(&self, q: &Q) -> Option<&T>
    where
        T: Borrow<Q>,
    {
        match self.find(q) {
            Some(i) => self.items.get(i),
            None => None,
        }
    }
    pub fn get_index_of<Q: ?Sized + Hash + Eq>(&self, q: &Q) -> Option<usize>
    where
        T: Borrow<Q>,
    {
        self.find(q)
    }
    pub fn insert(&mut self, t: T) -> bool {
        if self.find(&t).is_some() {
            false
        } else {
            self.items.push(t);
            true
        }
    }
    pub fn insert_full(&mut self, t: T) -> (usize, bool) {
        match self.find(&t) {
            Some(i) => (i, false),
            None => {
                self.items.push(t);
                (self.items.len() - 1, true)
            }
        }
    }
    pub fn swap_remove<Q: ?Sized + Hash + Eq>(&mut self, q: &Q) -> bool
    where
        T: Borrow<Q>,
    {
        match self.find(q) {
            Some(i) => {
                self.items.swap_remove(i);
                true
            }
            None => false,
        }
    }
    pub fn shift_remove<Q: ?Sized + Hash + Eq>(&mut self, q: &Q) -> bool
    where
        T: Borrow<Q>,
    {
        match self.find(q) {
            Some(i) => {
                self.items.remove(i);
                true
            }
            None => false,
        }
    }
    pub fn swap_take<Q: ?Sized + Hash + Eq>(&mut self, q: &Q) -> Option<T>
    where
        T: Borrow<Q>,
    {
        match self.find(q) {
            Some(i) => Some(self.items.swap_remove(i)),
            None => None,
        }
    }
}
impl<T> IntoIterator for IndexSet<T> {
    type Item = T;
    type IntoIter = std::vec::IntoIter<T>;
    fn into_iter(self) -> Self::IntoIter {
        self.items.into_vec().into_iter()
    }
}
impl<'a, T> IntoIterator for &'a IndexSet<T> {
    type Item = &'a T;
    type IntoIter = SetIter<'a, T>;
    fn into_iter(self) -> Self::IntoIter {
        self.items.iter()
    }
}
impl<T: Hash + Eq> FromIterator<T> for IndexSet<T> {
    fn from_iter<I: IntoIterator<Item = T>>(it: I) -> Self {
        let mut s = Self::new();
        for t in it {
            s.insert(t);
        }
        s
    }
}
impl<T: Hash + Eq> Extend<T> for IndexSet<T> {
    fn extend<I: IntoIterator<Item = T>>(&mut self, it: I) {
        for t in it {
            self.insert(t);
        }
    }
}
impl<T: Hash + Eq, const N: usize> From<[T; N]> for IndexSet<T> {
    fn from(a: [T; N]) -> Self {
        a.into_iter().collect()
    }
}
impl<T: Hash + Eq> PartialEq for IndexSet<T> {
    fn eq(&self, o: &Self) -> bool {
        self.len() == o.len() && self.iter().all(|t| o.contains(t))
    }
}
impl<T: Hash + Eq> Eq for IndexSet<T> {}
