//! Verification model of the `indexmap` crate: insertion-ordered map/set backed by a
//! plain Vec with linear search. Same observable contract as indexmap 2.x for the API
//! subset turmoil uses (order of iteration, swap_remove / shift_remove reordering, entry API).
use std::borrow::Borrow;
use std::hash::Hash;

pub mod map {
    pub use super::{Entry, IndexMap, OccupiedEntry, VacantEntry};
    pub type Iter<'a, K, V> = super::MapIter<'a, K, V>;
    pub type IterMut<'a, K, V> = super::MapIterMut<'a, K, V>;
}
pub mod set {
    pub use super::IndexSet;
}

#[derive(Clone)]
pub struct IndexMap<K, V> {
    entries: Vec<(K, V)>,
}

impl<K: std::fmt::Debug, V: std::fmt::Debug> std::fmt::Debug for IndexMap<K, V> {
    fn fmt(&self, f: &mut std::fmt::Formatter<'_>) -> std::fmt::Result {
        f.debug_map().entries(self.entries.iter().map(|(k, v)| (k, v))).finish()
    }
}

impl<K, V> Default for IndexMap<K, V> {
    fn default() -> Self { Self { entries: Vec::new() } }
}

pub struct MapIter<'a, K, V>(std::slice::Iter<'a, (K, V)>);
impl<'a, K, V> Iterator for MapIter<'a, K, V> {
    type Item = (&'a K, &'a V);
    fn next(&mut self) -> Option<Self::Item> { self.0.next().map(|(k, v)| (k, v)) }
    fn size_hint(&self) -> (usize, Option<usize>) { self.0.size_hint() }
}
impl<'a, K, V> DoubleEndedIterator for MapIter<'a, K, V> {
    fn next_back(&mut self) -> Option<Self::Item> { self.0.next_back().map(|(k, v)| (k, v)) }
}
impl<'a, K, V> ExactSizeIterator for MapIter<'a, K, V> {}
pub struct MapIterMut<'a, K, V>(std::slice::IterMut<'a, (K, V)>);
impl<'a, K, V> Iterator for MapIterMut<'a, K, V> {
    type Item = (&'a K, &'a mut V);
    fn next(&mut self) -> Option<Self::Item> { self.0.next().map(|(k, v)| (&*k, v)) }
    fn size_hint(&self) -> (usize, Option<usize>) { self.0.size_hint() }
}

impl<K, V> IndexMap<K, V> {
    pub fn new() -> Self { Self { entries: Vec::new() } }
    pub fn with_capacity(n: usize) -> Self { Self { entries: Vec::with_capacity(n) } }
    pub fn len(&self) -> usize { self.entries.len() }
    pub fn is_empty(&self) -> bool { self.entries.is_empty() }
    pub fn clear(&mut self) { self.entries.clear() }
    pub fn iter(&self) -> MapIter<'_, K, V> { MapIter(self.entries.iter()) }
    pub fn iter_mut(&mut self) -> MapIterMut<'_, K, V> { MapIterMut(self.entries.iter_mut()) }
    pub fn keys(&self) -> impl DoubleEndedIterator<Item = &K> + ExactSizeIterator + '_ { self.entries.iter().map(|(k, _)| k) }
    pub fn values(&self) -> impl DoubleEndedIterator<Item = &V> + ExactSizeIterator + '_ { self.entries.iter().map(|(_, v)| v) }
    pub fn values_mut(&mut self) -> impl Iterator<Item = &mut V> + '_ { self.entries.iter_mut().map(|(_, v)| v) }
    pub fn get_index(&self, i: usize) -> Option<(&K, &V)> { self.entries.get(i).map(|(k, v)| (k, v)) }
    pub fn get_index_mut(&mut self, i: usize) -> Option<(&K, &mut V)> { self.entries.get_mut(i).map(|(k, v)| (&*k, v)) }
    pub fn swap_remove_index(&mut self, i: usize) -> Option<(K, V)> {
        if i < self.entries.len() { Some(self.entries.swap_remove(i)) } else { None }
    }
    pub fn shift_remove_index(&mut self, i: usize) -> Option<(K, V)> {
        if i < self.entries.len() { Some(self.entries.remove(i)) } else { None }
    }
    pub fn retain<F: FnMut(&K, &mut V) -> bool>(&mut self, mut f: F) {
        self.entries.retain_mut(|(k, v)| f(&*k, v))
    }
    pub fn drain<R: std::ops::RangeBounds<usize>>(&mut self, r: R) -> std::vec::Drain<'_, (K, V)> { self.entries.drain(r) }
    pub fn first(&self) -> Option<(&K, &V)> { self.get_index(0) }
    pub fn last(&self) -> Option<(&K, &V)> { self.entries.last().map(|(k, v)| (k, v)) }
    pub fn pop(&mut self) -> Option<(K, V)> { self.entries.pop() }
}

impl<K: Hash + Eq, V> IndexMap<K, V> {
    fn find<Q: ?Sized + Eq>(&self, q: &Q) -> Option<usize> where K: Borrow<Q> {
        let mut i = 0;
        while i < self.entries.len() {
            if self.entries[i].0.borrow() == q { return Some(i); }
            i += 1;
        }
        None
    }
    pub fn get_index_of<Q: ?Sized + Hash + Eq>(&self, q: &Q) -> Option<usize> where K: Borrow<Q> { self.find(q) }
    pub fn contains_key<Q: ?Sized + Hash + Eq>(&self, q: &Q) -> bool where K: Borrow<Q> { self.find(q).is_some() }
    pub fn get<Q: ?Sized + Hash + Eq>(&self, q: &Q) -> Option<&V> where K: Borrow<Q> {
        match self.find(q) { Some(i) => Some(&self.entries[i].1), None => None }
    }
    pub fn get_mut<Q: ?Sized + Hash + Eq>(&mut self, q: &Q) -> Option<&mut V> where K: Borrow<Q> {
        match self.find(q) { Some(i) => Some(&mut self.entries[i].1), None => None }
    }
    pub fn get_full<Q: ?Sized + Hash + Eq>(&self, q: &Q) -> Option<(usize, &K, &V)> where K: Borrow<Q> {
        match self.find(q) { Some(i) => Some((i, &self.entries[i].0, &self.entries[i].1)), None => None }
    }
    pub fn insert(&mut self, k: K, v: V) -> Option<V> {
        match self.find(&k) {
            Some(i) => Some(std::mem::replace(&mut self.entries[i].1, v)),
            None => { self.entries.push((k, v)); None }
        }
    }
    pub fn insert_full(&mut self, k: K, v: V) -> (usize, Option<V>) {
        match self.find(&k) {
            Some(i) => (i, Some(std::mem::replace(&mut self.entries[i].1, v))),
            None => { self.entries.push((k, v)); (self.entries.len() - 1, None) }
        }
    }
    pub fn swap_remove<Q: ?Sized + Hash + Eq>(&mut self, q: &Q) -> Option<V> where K: Borrow<Q> {
        match self.find(q) { Some(i) => Some(self.entries.swap_remove(i).1), None => None }
    }
    pub fn shift_remove<Q: ?Sized + Hash + Eq>(&mut self, q: &Q) -> Option<V> where K: Borrow<Q> {
        match self.find(q) { Some(i) => Some(self.entries.remove(i).1), None => None }
    }
    pub fn entry(&mut self, k: K) -> Entry<'_, K, V> {
        match self.find(&k) {
            Some(i) => Entry::Occupied(OccupiedEntry { map: self, index: i }),
            None => Entry::Vacant(VacantEntry { map: self, key: k }),
        }
    }
}

pub enum Entry<'a, K, V> {
    Occupied(OccupiedEntry<'a, K, V>),
    Vacant(VacantEntry<'a, K, V>),
}
pub struct OccupiedEntry<'a, K, V> { map: &'a mut IndexMap<K, V>, index: usize }
pub struct VacantEntry<'a, K, V> { map: &'a mut IndexMap<K, V>, key: K }

impl<'a, K, V> OccupiedEntry<'a, K, V> {
    pub fn get(&self) -> &V { &self.map.entries[self.index].1 }
    pub fn get_mut(&mut self) -> &mut V { &mut self.map.entries[self.index].1 }
    pub fn into_mut(self) -> &'a mut V { &mut self.map.entries[self.index].1 }
    pub fn index(&self) -> usize { self.index }
    pub fn key(&self) -> &K { &self.map.entries[self.index].0 }
    pub fn insert(&mut self, v: V) -> V { std::mem::replace(&mut self.map.entries[self.index].1, v) }
    pub fn swap_remove(self) -> V { self.map.entries.swap_remove(self.index).1 }
    pub fn shift_remove(self) -> V { self.map.entries.remove(self.index).1 }
}
impl<'a, K, V> VacantEntry<'a, K, V> {
    pub fn insert(self, v: V) -> &'a mut V {
        self.map.entries.push((self.key, v));
        let n = self.map.entries.len() - 1;
        &mut self.map.entries[n].1
    }
    pub fn index(&self) -> usize { self.map.entries.len() }
    pub fn key(&self) -> &K { &self.key }
}
impl<'a, K, V> Entry<'a, K, V> {
    pub fn or_insert(self, v: V) -> &'a mut V {
        match self { Entry::Occupied(e) => e.into_mut(), Entry::Vacant(e) => e.insert(v) }
    }
    pub fn or_insert_with<F: FnOnce() -> V>(self, f: F) -> &'a mut V {
        match self { Entry::Occupied(e) => e.into_mut(), Entry::Vacant(e) => e.insert(f()) }
    }
    pub fn or_default(self) -> &'a mut V where V: Default {
        match self { Entry::Occupied(e) => e.into_mut(), Entry::Vacant(e) => e.insert(V::default()) }
    }
    pub fn and_modify<F: FnOnce(&mut V)>(mut self, f: F) -> Self {
        if let Entry::Occupied(e) = &mut self { f(e.get_mut()); }
        self
    }
    pub fn index(&self) -> usize {
        match self { Entry::Occupied(e) => e.index(), Entry::Vacant(e) => e.index() }
    }
    pub fn key(&self) -> &K {
        match self { Entry::Occupied(e) => e.key(), Entry::Vacant(e) => e.key() }
    }
}

impl<K: Hash + Eq, V, Q: ?Sized + Hash + Eq> std::ops::Index<&Q> for IndexMap<K, V> where K: Borrow<Q> {
    type Output = V;
    fn index(&self, q: &Q) -> &V { self.get(q).expect("IndexMap: key not found") }
}
impl<K: Hash + Eq, V, Q: ?Sized + Hash + Eq> std::ops::IndexMut<&Q> for IndexMap<K, V> where K: Borrow<Q> {
    fn index_mut(&mut self, q: &Q) -> &mut V { self.get_mut(q).expect("IndexMap: key not found") }
}
impl<K, V> std::ops::Index<usize> for IndexMap<K, V> {
    type Output = V;
    fn index(&self, i: usize) -> &V { &self.entries[i].1 }
}
impl<K, V> IntoIterator for IndexMap<K, V> {
    type Item = (K, V);
    type IntoIter = std::vec::IntoIter<(K, V)>;
    fn into_iter(self) -> Self::IntoIter { self.entries.into_iter() }
}
impl<'a, K, V> IntoIterator for &'a IndexMap<K, V> {
    type Item = (&'a K, &'a V);
    type IntoIter = MapIter<'a, K, V>;
    fn into_iter(self) -> Self::IntoIter { self.iter() }
}
impl<'a, K, V> IntoIterator for &'a mut IndexMap<K, V> {
    type Item = (&'a K, &'a mut V);
    type IntoIter = MapIterMut<'a, K, V>;
    fn into_iter(self) -> Self::IntoIter { self.iter_mut() }
}
impl<K: Hash + Eq, V> FromIterator<(K, V)> for IndexMap<K, V> {
    fn from_iter<I: IntoIterator<Item = (K, V)>>(it: I) -> Self {
        let mut m = Self::new();
        for (k, v) in it { m.insert(k, v); }
        m
    }
}
impl<K: Hash + Eq, V> Extend<(K, V)> for IndexMap<K, V> {
    fn extend<I: IntoIterator<Item = (K, V)>>(&mut self, it: I) { for (k, v) in it { self.insert(k, v); } }
}
impl<K: Hash + Eq, V, const N: usize> From<[(K, V); N]> for IndexMap<K, V> {
    fn from(a: [(K, V); N]) -> Self { a.into_iter().collect() }
}
impl<K: Hash + Eq, V: PartialEq> PartialEq for IndexMap<K, V> {
    fn eq(&self, o: &Self) -> bool {
        self.len() == o.len() && self.iter().all(|(k, v)| o.get(k).map_or(false, |w| v == w))
    }
}
impl<K: Hash + Eq, V: Eq> Eq for IndexMap<K, V> {}

// ---------------------------------------------------------------- IndexSet
#[derive(Clone)]
pub struct IndexSet<T> { items: Vec<T> }
impl<T: std::fmt::Debug> std::fmt::Debug for IndexSet<T> {
    fn fmt(&self, f: &mut std::fmt::Formatter<'_>) -> std::fmt::Result { f.debug_set().entries(self.items.iter()).finish() }
}
impl<T> Default for IndexSet<T> { fn default() -> Self { Self { items: Vec::new() } } }
impl<T> IndexSet<T> {
    pub fn new() -> Self { Self { items: Vec::new() } }
    pub fn with_capacity(n: usize) -> Self { Self { items: Vec::with_capacity(n) } }
    pub fn len(&self) -> usize { self.items.len() }
    pub fn is_empty(&self) -> bool { self.items.is_empty() }
    pub fn clear(&mut self) { self.items.clear() }
    pub fn iter(&self) -> std::slice::Iter<'_, T> { self.items.iter() }
    pub fn get_index(&self, i: usize) -> Option<&T> { self.items.get(i) }
    pub fn swap_remove_index(&mut self, i: usize) -> Option<T> { if i < self.items.len() { Some(self.items.swap_remove(i)) } else { None } }
    pub fn shift_remove_index(&mut self, i: usize) -> Option<T> { if i < self.items.len() { Some(self.items.remove(i)) } else { None } }
    pub fn retain<F: FnMut(&T) -> bool>(&mut self, f: F) { self.items.retain(f) }
    pub fn first(&self) -> Option<&T> { self.items.first() }
    pub fn last(&self) -> Option<&T> { self.items.last() }
    pub fn pop(&mut self) -> Option<T> { self.items.pop() }
    pub fn drain<R: std::ops::RangeBounds<usize>>(&mut self, r: R) -> std::vec::Drain<'_, T> { self.items.drain(r) }
}
impl<T: Hash + Eq> IndexSet<T> {
    fn find<Q: ?Sized + Eq>(&self, q: &Q) -> Option<usize> where T: Borrow<Q> {
        let mut i = 0;
        while i < self.items.len() {
            if self.items[i].borrow() == q { return Some(i); }
            i += 1;
        }
        None
    }
    pub fn contains<Q: ?Sized + Hash + Eq>(&self, q: &Q) -> bool where T: Borrow<Q> { self.find(q).is_some() }
    pub fn get<Q: ?Sized + Hash + Eq>(&self, q: &Q) -> Option<&T> where T: Borrow<Q> {
        match self.find(q) { Some(i) => Some(&self.items[i]), None => None }
    }
    pub fn get_index_of<Q: ?Sized + Hash + Eq>(&self, q: &Q) -> Option<usize> where T: Borrow<Q> { self.find(q) }
    pub fn insert(&mut self, t: T) -> bool {
        if self.find(&t).is_some() { false } else { self.items.push(t); true }
    }
    pub fn insert_full(&mut self, t: T) -> (usize, bool) {
        match self.find(&t) { Some(i) => (i, false), None => { self.items.push(t); (self.items.len() - 1, true) } }
    }
    pub fn swap_remove<Q: ?Sized + Hash + Eq>(&mut self, q: &Q) -> bool where T: Borrow<Q> {
        match self.find(q) { Some(i) => { self.items.swap_remove(i); true } None => false }
    }
    pub fn shift_remove<Q: ?Sized + Hash + Eq>(&mut self, q: &Q) -> bool where T: Borrow<Q> {
        match self.find(q) { Some(i) => { self.items.remove(i); true } None => false }
    }
    pub fn swap_take<Q: ?Sized + Hash + Eq>(&mut self, q: &Q) -> Option<T> where T: Borrow<Q> {
        match self.find(q) { Some(i) => Some(self.items.swap_remove(i)), None => None }
    }
}
impl<T> IntoIterator for IndexSet<T> {
    type Item = T; type IntoIter = std::vec::IntoIter<T>;
    fn into_iter(self) -> Self::IntoIter { self.items.into_iter() }
}
impl<'a, T> IntoIterator for &'a IndexSet<T> {
    type Item = &'a T; type IntoIter = std::slice::Iter<'a, T>;
    fn into_iter(self) -> Self::IntoIter { self.items.iter() }
}
impl<T: Hash + Eq> FromIterator<T> for IndexSet<T> {
    fn from_iter<I: IntoIterator<Item = T>>(it: I) -> Self { let mut s = Self::new(); for t in it { s.insert(t); } s }
}
impl<T: Hash + Eq> Extend<T> for IndexSet<T> {
    fn extend<I: IntoIterator<Item = T>>(&mut self, it: I) { for t in it { self.insert(t); } }
}
impl<T: Hash + Eq, const N: usize> From<[T; N]> for IndexSet<T> {
    fn from(a: [T; N]) -> Self { a.into_iter().collect() }
}
impl<T: Hash + Eq> PartialEq for IndexSet<T> {
    fn eq(&self, o: &Self) -> bool { self.len() == o.len() && self.iter().all(|t| o.contains(t)) }
}
impl<T: Hash + Eq> Eq for IndexSet<T> {}
