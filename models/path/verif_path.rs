//! Model of `std::path::{Path, PathBuf}` for turmoil-fs under Kani (dependency model, like
//! models/indexmap). std cannot be swapped with `[patch]`, so `bin/vcheck` rewrites the ONE import
//! line `use std::path::{Path, PathBuf};` of crates/turmoil-fs/src/lib.rs in its scratch overlay to
//! import this module when `cfg(kani)` (or `cfg(verif_path)`, used by the native differential test
//! models/validate_path) is set.
//!
//! Contract (stated, validated natively against std::path by models/validate_path): for
//! NORMALISED unix paths - absolute or relative, no trailing slash except the root itself, no
//! empty / `.` / `..` components - of at most CAP bytes:
//!   * equality / hashing = equality of the byte strings (std compares component-wise, which is the
//!     same thing on normalised paths);
//!   * `parent()`: "/" and "" have none; "/a" -> "/"; "/a/b" -> "/a"; "a" -> ""; "a/b" -> "a";
//!   * `join(p)`: p absolute -> p; otherwise self + "/" + p (no doubled slash after the root or "");
//!   * `file_name()`: bytes after the last '/', none for "/" and "".
//! Storage is inline (no heap pointer): a `PathBuf` inside a data-carrying enum (`PendingOp`) keeps
//! concrete bytes concrete under CBMC, which is what made the real `PathBuf` (a `Vec<u8>`) undecidable.
//! Paths longer than CAP bytes panic (outside every claim).

use std::borrow::Borrow;
use std::hash::{Hash, Hasher};
use std::ops::Deref;

pub const CAP: usize = 6;

#[repr(transparent)]
pub struct Path {
    b: [u8],
}

#[derive(Clone, Copy)]
pub struct PathBuf {
    len: usize,
    b: [u8; CAP],
}

#[repr(transparent)]
pub struct OsStrM {
    b: [u8],
}

impl OsStrM {
    pub fn is_empty(&self) -> bool {
        self.b.is_empty()
    }
    pub fn len(&self) -> usize {
        self.b.len()
    }
    pub fn as_encoded_bytes(&self) -> &[u8] {
        &self.b
    }
}

fn bytes_eq(a: &[u8], b: &[u8]) -> bool {
    let n = a.len();
    if n != b.len() {
        return false;
    }
    // unrolled over the constant capacity (no loop for the model checker to unwind); lengths are
    // at most CAP by construction
    (n < 1 || a[0] == b[0])
        && (n < 2 || a[1] == b[1])
        && (n < 3 || a[2] == b[2])
        && (n < 4 || a[3] == b[3])
        && (n < 5 || a[4] == b[4])
        && (n < 6 || a[5] == b[5])
}
const _: () = assert!(CAP == 6, "bytes_eq / last_slash / from_bytes are unrolled for CAP == 6");

impl Path {
    pub fn new<S: AsRef<[u8]> + ?Sized>(s: &S) -> &Path {
        Path::from_bytes(s.as_ref())
    }
    pub(crate) fn from_bytes(b: &[u8]) -> &Path {
        assert!(b.len() <= CAP, "verif_path: path longer than the model's capacity");
        // SAFETY: Path is repr(transparent) over [u8]
        unsafe { &*(b as *const [u8] as *const Path) }
    }
    pub fn as_bytes(&self) -> &[u8] {
        &self.b
    }
    pub fn as_os_str(&self) -> &OsStrM {
        unsafe { &*(&self.b as *const [u8] as *const OsStrM) }
    }
    pub fn to_path_buf(&self) -> PathBuf {
        PathBuf::from_bytes(&self.b)
    }
    pub fn is_absolute(&self) -> bool {
        !self.b.is_empty() && self.b[0] == b'/'
    }
    fn last_slash(&self) -> Option<usize> {
        let b = &self.b;
        let n = b.len();
        if n > 5 && b[5] == b'/' {
            Some(5)
        } else if n > 4 && b[4] == b'/' {
            Some(4)
        } else if n > 3 && b[3] == b'/' {
            Some(3)
        } else if n > 2 && b[2] == b'/' {
            Some(2)
        } else if n > 1 && b[1] == b'/' {
            Some(1)
        } else if n > 0 && b[0] == b'/' {
            Some(0)
        } else {
            None
        }
    }
    pub fn parent(&self) -> Option<&Path> {
        let n = self.b.len();
        if n == 0 || (n == 1 && self.b[0] == b'/') {
            return None;
        }
        match self.last_slash() {
            None => Some(Path::from_bytes(&self.b[..0])),
            Some(0) => Some(Path::from_bytes(&self.b[..1])),
            Some(i) => Some(Path::from_bytes(&self.b[..i])),
        }
    }
    pub fn file_name(&self) -> Option<&OsStrM> {
        let n = self.b.len();
        if n == 0 || (n == 1 && self.b[0] == b'/') {
            return None;
        }
        let start = match self.last_slash() {
            None => 0,
            Some(i) => i + 1,
        };
        Some(unsafe { &*(&self.b[start..] as *const [u8] as *const OsStrM) })
    }
    pub fn join<P: AsRef<Path>>(&self, p: P) -> PathBuf {
        let p = p.as_ref();
        if p.is_absolute() {
            return p.to_path_buf();
        }
        let mut out = self.to_path_buf();
        if out.len > 0 && out.b[out.len - 1] != b'/' {
            out.push_byte(b'/');
        }
        let mut i = 0;
        while i < CAP {
            if i < p.b.len() {
                out.push_byte(p.b[i]);
            }
            i += 1;
        }
        out
    }
    pub fn starts_with<P: AsRef<Path>>(&self, base: P) -> bool {
        let base = base.as_ref();
        let (a, b) = (&self.b, &base.b);
        if b.len() > a.len() {
            return false;
        }
        if !bytes_eq(&a[..b.len()], b) {
            return false;
        }
        // component boundary
        b.len() == a.len() || b.is_empty() || b[b.len() - 1] == b'/' || a[b.len()] == b'/'
    }
    pub fn display(&self) -> Display<'_> {
        Display(self)
    }
    pub fn to_str(&self) -> Option<&str> {
        std::str::from_utf8(&self.b).ok()
    }
}

pub struct Display<'a>(&'a Path);
impl std::fmt::Display for Display<'_> {
    fn fmt(&self, _f: &mut std::fmt::Formatter<'_>) -> std::fmt::Result {
        Ok(())
    }
}

impl PathBuf {
    pub fn new() -> PathBuf {
        PathBuf { len: 0, b: [0; CAP] }
    }
    pub(crate) fn from_bytes(s: &[u8]) -> PathBuf {
        let n = s.len();
        assert!(n <= CAP, "verif_path: path longer than the model's capacity");
        let g = |i: usize| if i < n { s[i] } else { 0 };
        PathBuf { len: n, b: [g(0), g(1), g(2), g(3), g(4), g(5)] }
    }
    fn push_byte(&mut self, c: u8) {
        assert!(self.len < CAP, "verif_path: path longer than the model's capacity");
        self.b[self.len] = c;
        self.len += 1;
    }
    pub fn as_path(&self) -> &Path {
        Path::from_bytes(&self.b[..self.len])
    }
    pub fn push<P: AsRef<Path>>(&mut self, p: P) {
        *self = self.as_path().join(p);
    }
}

impl Default for PathBuf {
    fn default() -> Self {
        PathBuf::new()
    }
}

impl Deref for PathBuf {
    type Target = Path;
    fn deref(&self) -> &Path {
        self.as_path()
    }
}
impl Borrow<Path> for PathBuf {
    fn borrow(&self) -> &Path {
        self.as_path()
    }
}
impl AsRef<Path> for PathBuf {
    fn as_ref(&self) -> &Path {
        self.as_path()
    }
}
impl AsRef<Path> for Path {
    fn as_ref(&self) -> &Path {
        self
    }
}
impl AsRef<Path> for str {
    fn as_ref(&self) -> &Path {
        Path::from_bytes(self.as_bytes())
    }
}
impl ToOwned for Path {
    type Owned = PathBuf;
    fn to_owned(&self) -> PathBuf {
        self.to_path_buf()
    }
}
impl From<&str> for PathBuf {
    fn from(s: &str) -> PathBuf {
        PathBuf::from_bytes(s.as_bytes())
    }
}
impl From<&Path> for PathBuf {
    fn from(p: &Path) -> PathBuf {
        p.to_path_buf()
    }
}

impl PartialEq for Path {
    fn eq(&self, o: &Path) -> bool {
        bytes_eq(&self.b, &o.b)
    }
}
impl Eq for Path {}
impl PartialEq for PathBuf {
    fn eq(&self, o: &PathBuf) -> bool {
        self.as_path() == o.as_path()
    }
}
impl Eq for PathBuf {}
impl PartialEq<Path> for PathBuf {
    fn eq(&self, o: &Path) -> bool {
        self.as_path() == o
    }
}
impl PartialEq<PathBuf> for Path {
    fn eq(&self, o: &PathBuf) -> bool {
        self == o.as_path()
    }
}
impl PartialEq<&Path> for PathBuf {
    fn eq(&self, o: &&Path) -> bool {
        self.as_path() == *o
    }
}
impl PartialEq<PathBuf> for &Path {
    fn eq(&self, o: &PathBuf) -> bool {
        *self == o.as_path()
    }
}
impl Hash for Path {
    fn hash<H: Hasher>(&self, h: &mut H) {
        self.b.hash(h)
    }
}
impl Hash for PathBuf {
    fn hash<H: Hasher>(&self, h: &mut H) {
        self.as_path().hash(h)
    }
}
impl PartialOrd for PathBuf {
    fn partial_cmp(&self, o: &PathBuf) -> Option<std::cmp::Ordering> {
        Some(self.cmp(o))
    }
}
impl Ord for PathBuf {
    fn cmp(&self, o: &PathBuf) -> std::cmp::Ordering {
        self.as_path().b.cmp(&o.as_path().b)
    }
}
impl std::fmt::Debug for Path {
    fn fmt(&self, _f: &mut std::fmt::Formatter<'_>) -> std::fmt::Result {
        Ok(())
    }
}
impl std::fmt::Debug for PathBuf {
    fn fmt(&self, _f: &mut std::fmt::Formatter<'_>) -> std::fmt::Result {
        Ok(())
    }
}
