//! Verification model of `rand_distr`: `Exp<f64>` samples an ARBITRARY non-negative finite f64
//! derived from one rng word (contract of the exponential distribution's support), so a symbolic
//! rng makes the sample symbolic.
pub use rand::distr::Distribution;
#[derive(Clone, Copy, Debug, PartialEq)]
pub struct Exp<F> { lambda_inverse: F }
#[derive(Clone, Copy, Debug, PartialEq, Eq)]
pub enum ExpError { LambdaTooSmall }
impl std::fmt::Display for ExpError {
    fn fmt(&self, f: &mut std::fmt::Formatter<'_>) -> std::fmt::Result { f.write_str("lambda is negative or NaN in exponential distribution") }
}
impl std::error::Error for ExpError {}
impl Exp<f64> {
    pub fn new(lambda: f64) -> Result<Exp<f64>, ExpError> {
        if !(lambda >= 0.0) { return Err(ExpError::LambdaTooSmall); }
        Ok(Exp { lambda_inverse: 1.0 / lambda })
    }
}
impl Distribution<f64> for Exp<f64> {
    fn sample<R: rand::Rng + ?Sized>(&self, rng: &mut R) -> f64 {
        let x = f64::from_bits(rng.next_u64() & 0x7fff_ffff_ffff_ffff);
        if x.is_finite() { x } else { 0.0 }
    }
}
