//! Model of `scoped-tls` 1.0.1 (same semantics: `set` installs a reference for the duration of a
//! closure and restores the previous value afterwards, `with` reads it, `is_set` tests it).
//! Under `cfg(kani)` the slot is an ordinary static: Kani executes one thread, and a pointer stored
//! in a `thread_local!` cell came back invalid in Kani 0.68 (DESIGN.md section 1).
use std::cell::Cell;
use std::marker;

#[doc(hidden)]
pub struct Slot(Cell<*const ()>);
unsafe impl Sync for Slot {}
impl Slot {
    pub const fn new() -> Slot {
        Slot(Cell::new(std::ptr::null()))
    }
}

#[cfg(kani)]
#[macro_export]
macro_rules! scoped_thread_local {
    ($(#[$attrs:meta])* $vis:vis static $name:ident: $ty:ty) => (
        $(#[$attrs])*
        $vis static $name: $crate::ScopedKey<$ty> = $crate::ScopedKey {
            inner: {
                static FOO: $crate::Slot = $crate::Slot::new();
                &FOO
            },
            _marker: ::std::marker::PhantomData,
        };
    )
}
#[cfg(not(kani))]
#[macro_export]
macro_rules! scoped_thread_local {
    ($(#[$attrs:meta])* $vis:vis static $name:ident: $ty:ty) => (
        $(#[$attrs])*
        $vis static $name: $crate::ScopedKey<$ty> = $crate::ScopedKey {
            inner: {
                ::std::thread_local!(static FOO: $crate::Slot = {
                    $crate::Slot::new()
                });
                &FOO
            },
            _marker: ::std::marker::PhantomData,
        };
    )
}

pub struct ScopedKey<T> {
    #[cfg(kani)]
    #[doc(hidden)]
    pub inner: &'static Slot,
    #[cfg(not(kani))]
    #[doc(hidden)]
    pub inner: &'static std::thread::LocalKey<Slot>,
    #[doc(hidden)]
    pub _marker: marker::PhantomData<T>,
}
unsafe impl<T> Sync for ScopedKey<T> {}

impl<T> ScopedKey<T> {
    #[cfg(kani)]
    fn slot<R>(&'static self, f: impl FnOnce(&Cell<*const ()>) -> R) -> R {
        f(&self.inner.0)
    }
    #[cfg(not(kani))]
    fn slot<R>(&'static self, f: impl FnOnce(&Cell<*const ()>) -> R) -> R {
        self.inner.with(|s| f(&s.0))
    }

    pub fn set<F, R>(&'static self, t: &T, f: F) -> R
    where
        F: FnOnce() -> R,
    {
        struct Reset<T: 'static> {
            key: &'static ScopedKey<T>,
            val: *const (),
        }
        impl<T: 'static> Drop for Reset<T> {
            fn drop(&mut self) {
                let v = self.val;
                self.key.slot(|c| c.set(v));
            }
        }
        let prev = self.slot(|c| {
            let prev = c.get();
            c.set(t as *const T as *const ());
            prev
        });
        let _reset = Reset { key: self, val: prev };
        f()
    }

    pub fn with<F, R>(&'static self, f: F) -> R
    where
        F: FnOnce(&T) -> R,
    {
        let val = self.slot(|c| c.get());
        assert!(!val.is_null(), "cannot access a scoped thread local variable without calling `set` first");
        unsafe { f(&*(val as *const T)) }
    }

    pub fn is_set(&'static self) -> bool {
        self.slot(|c| !c.get().is_null())
    }
}

#[cfg(test)]
mod tests {
    scoped_thread_local!(static FOO: u32);
    #[test]
    fn smoke() {
        assert!(!FOO.is_set());
        FOO.set(&1, || {
            assert!(FOO.is_set());
            FOO.with(|v| assert_eq!(*v, 1));
            FOO.set(&2, || FOO.with(|v| assert_eq!(*v, 2)));
            FOO.with(|v| assert_eq!(*v, 1));
        });
        assert!(!FOO.is_set());
    }
}
