//! Model of tokio::io: `ReadBuf` (initialised buffers only) and the two poll traits.
use std::io;
use std::pin::Pin;
use std::task::{Context, Poll};

pub struct ReadBuf<'a> {
    buf: &'a mut [u8],
    filled: usize,
}

impl<'a> ReadBuf<'a> {
    pub fn new(buf: &'a mut [u8]) -> ReadBuf<'a> {
        ReadBuf { buf, filled: 0 }
    }
    pub fn capacity(&self) -> usize {
        self.buf.len()
    }
    pub fn filled(&self) -> &[u8] {
        &self.buf[..self.filled]
    }
    pub fn filled_mut(&mut self) -> &mut [u8] {
        &mut self.buf[..self.filled]
    }
    pub fn remaining(&self) -> usize {
        self.buf.len() - self.filled
    }
    pub fn clear(&mut self) {
        self.filled = 0;
    }
    pub fn advance(&mut self, n: usize) {
        let new = self.filled.checked_add(n).expect("filled overflow");
        assert!(new <= self.buf.len(), "filled must not become larger than initialized");
        self.filled = new;
    }
    pub fn set_filled(&mut self, n: usize) {
        assert!(n <= self.buf.len(), "filled must not become larger than initialized");
        self.filled = n;
    }
    pub fn initialize_unfilled(&mut self) -> &mut [u8] {
        &mut self.buf[self.filled..]
    }
    pub fn initialized(&self) -> &[u8] {
        &self.buf[..]
    }
    #[track_caller]
    pub fn put_slice(&mut self, src: &[u8]) {
        assert!(
            self.remaining() >= src.len(),
            "buf.len() must fit in remaining()"
        );
        let end = self.filled + src.len();
        let mut i = 0;
        while i < src.len() {
            self.buf[self.filled + i] = src[i];
            i += 1;
        }
        self.filled = end;
    }
}

pub trait AsyncRead {
    fn poll_read(self: Pin<&mut Self>, cx: &mut Context<'_>, buf: &mut ReadBuf<'_>) -> Poll<io::Result<()>>;
}
pub trait AsyncWrite {
    fn poll_write(self: Pin<&mut Self>, cx: &mut Context<'_>, buf: &[u8]) -> Poll<io::Result<usize>>;
    fn poll_flush(self: Pin<&mut Self>, cx: &mut Context<'_>) -> Poll<io::Result<()>>;
    fn poll_shutdown(self: Pin<&mut Self>, cx: &mut Context<'_>) -> Poll<io::Result<()>>;
    fn poll_write_vectored(self: Pin<&mut Self>, cx: &mut Context<'_>, bufs: &[io::IoSlice<'_>]) -> Poll<io::Result<usize>> {
        let buf = bufs.iter().find(|b| !b.is_empty()).map_or(&[][..], |b| &**b);
        self.poll_write(cx, buf)
    }
    fn is_write_vectored(&self) -> bool {
        false
    }
}
impl<T: ?Sized + AsyncRead + Unpin> AsyncRead for &mut T {
    fn poll_read(mut self: Pin<&mut Self>, cx: &mut Context<'_>, buf: &mut ReadBuf<'_>) -> Poll<io::Result<()>> {
        Pin::new(&mut **self).poll_read(cx, buf)
    }
}
impl<T: ?Sized + AsyncWrite + Unpin> AsyncWrite for &mut T {
    fn poll_write(mut self: Pin<&mut Self>, cx: &mut Context<'_>, buf: &[u8]) -> Poll<io::Result<usize>> {
        Pin::new(&mut **self).poll_write(cx, buf)
    }
    fn poll_flush(mut self: Pin<&mut Self>, cx: &mut Context<'_>) -> Poll<io::Result<()>> {
        Pin::new(&mut **self).poll_flush(cx)
    }
    fn poll_shutdown(mut self: Pin<&mut Self>, cx: &mut Context<'_>) -> Poll<io::Result<()>> {
        Pin::new(&mut **self).poll_shutdown(cx)
    }
}
