//! Verification model of `tokio` for the Kani harnesses of crates/turmoil (DESIGN.md §2.7 rung 6).
//!
//! Functional models (value semantics, single-threaded):
//!   sync::mpsc (bounded + unbounded: FIFO, capacity, permits, closed detection),
//!   sync::oneshot, sync::Notify (one stored permit), sync::Mutex,
//!   time::{Instant, Duration} (Instant = Duration since an arbitrary origin; `Instant::now()` reads a
//!   harness-controlled clock), io::{ReadBuf, AsyncRead, AsyncWrite}.
//! Executor model (runtime.rs, task.rs, time.rs): a paused current-thread runtime with a virtual clock
//! per runtime that auto-advances to the earliest pending timer, `LocalSet` tasks polled in spawn
//! order, `JoinHandle`s, `sleep` / `timeout`. Wake-ups between tasks are not modelled (see
//! runtime.rs). `Handle`, `Runtime::spawn`, `spawn_blocking`, `select!` stay `unimplemented!()` - a
//! harness that reached one would fail, never pass silently.
#![allow(dead_code, unused_variables, clippy::all)]

pub mod sync;
pub mod time;
pub mod io;
pub mod runtime;
pub mod task;
pub mod net {
    //! only named in documentation by turmoil
}

pub use task::spawn;

/// `select!` is used by turmoil only inside async bodies that no harness can reach.
#[macro_export]
macro_rules! select {
    ($($t:tt)*) => {
        unimplemented!("tokio model: select! needs an executor")
    };
}
#[macro_export]
macro_rules! pin {
    ($($x:ident),*) => { $( let mut $x = $x; #[allow(unused_mut)] let mut $x = unsafe { ::std::pin::Pin::new_unchecked(&mut $x) }; )* };
}

#[cfg(kani)]
mod proofs;
