//! Self-checks of the executor model under Kani (also used to measure its encoding cost).
use crate::runtime::Builder;
use crate::task::LocalSet;
use crate::time::sleep;
use std::time::Duration;

fn init() -> (crate::runtime::Runtime, LocalSet) {
    let rt = Builder::new_current_thread().enable_time().start_paused(true).build().unwrap();
    rt.block_on(async { sleep(Duration::from_millis(1)).await });
    (rt, LocalSet::new())
}

#[kani::proof]
#[kani::unwind(10)]
fn task_sleep_zero() {
    let (rt, local) = init();
    let h = rt.block_on(async { local.run_until(async { crate::task::spawn_local(async { sleep(Duration::from_millis(0)).await; 5u32 }) }).await });
    rt.block_on(async { local.run_until(async { sleep(Duration::from_millis(2)).await }).await });
    assert!(rt.model_clock() == Duration::from_millis(3));
    assert!(h.is_finished());
    std::mem::forget(local);
}

struct Y(bool);
impl std::future::Future for Y {
    type Output = ();
    fn poll(mut self: std::pin::Pin<&mut Self>, _cx: &mut std::task::Context<'_>) -> std::task::Poll<()> {
        if self.0 { std::task::Poll::Ready(()) } else { self.0 = true; std::task::Poll::Pending }
    }
}
#[kani::proof]
#[kani::unwind(10)]
fn task_custom_await() {
    let (rt, local) = init();
    let h = rt.block_on(async { local.run_until(async { crate::task::spawn_local(async { Y(false).await; 5u32 }) }).await });
    rt.block_on(async { local.run_until(async { sleep(Duration::from_millis(2)).await }).await });
    assert!(rt.model_clock() == Duration::from_millis(3));
    assert!(h.is_finished());
    std::mem::forget(local);
}
#[kani::proof]
#[kani::unwind(10)]
fn task_no_await() {
    let (rt, local) = init();
    let h = rt.block_on(async { local.run_until(async { crate::task::spawn_local(async { 5u32 }) }).await });
    rt.block_on(async { local.run_until(async { sleep(Duration::from_millis(2)).await }).await });
    assert!(rt.model_clock() == Duration::from_millis(3));
    assert!(h.is_finished());
    std::mem::forget(local);
}

#[kani::proof]
#[kani::unwind(10)]
fn only_init() {
    let (rt, local) = init();
    assert!(rt.model_clock() == Duration::from_millis(1));
    std::mem::forget(local);
}
#[kani::proof]
#[kani::unwind(10)]
fn init_and_tick() {
    let (rt, local) = init();
    rt.block_on(async { local.run_until(async { sleep(Duration::from_millis(2)).await }).await });
    assert!(rt.model_clock() == Duration::from_millis(3));
    std::mem::forget(local);
}
#[kani::proof]
#[kani::unwind(10)]
fn init_and_spawn() {
    let (rt, local) = init();
    let h = rt.block_on(async { local.run_until(async { crate::task::spawn_local(async { 5u32 }) }).await });
    assert!(!h.is_finished());
    std::mem::forget(local);
}

fn drive<F: std::future::Future>(f: F) -> usize {
    let mut f = std::pin::pin!(f);
    let mut cx = std::task::Context::from_waker(std::task::Waker::noop());
    let mut n = 0;
    loop {
        if f.as_mut().poll(&mut cx).is_ready() {
            return n;
        }
        n += 1;
    }
}
#[kani::proof]
#[kani::unwind(10)]
fn depth1() {
    assert!(drive(async { Y(false).await }) == 1);
}
#[kani::proof]
#[kani::unwind(10)]
fn depth2() {
    assert!(drive(async { async { Y(false).await }.await }) == 1);
}
struct Wrap<F>(F);
impl<F: std::future::Future> std::future::Future for Wrap<F> {
    type Output = F::Output;
    fn poll(self: std::pin::Pin<&mut Self>, cx: &mut std::task::Context<'_>) -> std::task::Poll<F::Output> {
        let this = unsafe { self.get_unchecked_mut() };
        unsafe { std::pin::Pin::new_unchecked(&mut this.0) }.poll(cx)
    }
}
#[kani::proof]
#[kani::unwind(10)]
fn depth2_wrap() {
    assert!(drive(async { Wrap(async { Y(false).await }).await }) == 1);
}
