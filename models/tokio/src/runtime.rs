//! Compile surface only: no harness may construct or drive a runtime.
use std::future::Future;

pub struct Runtime {
    _p: (),
}
pub struct EnterGuard<'a> {
    _p: std::marker::PhantomData<&'a ()>,
}
#[derive(Clone, Debug)]
pub struct Handle {
    _p: (),
}
impl Handle {
    pub fn current() -> Handle {
        unimplemented!("tokio model: no runtime")
    }
    pub fn try_current() -> Result<Handle, TryCurrentError> {
        Err(TryCurrentError(()))
    }
    pub fn spawn<F>(&self, _f: F) -> crate::task::JoinHandle<F::Output>
    where
        F: Future + 'static,
        F::Output: 'static,
    {
        unimplemented!("tokio model: no runtime")
    }
    pub fn block_on<F: Future>(&self, _f: F) -> F::Output {
        unimplemented!("tokio model: no runtime")
    }
    pub fn enter(&self) -> EnterGuard<'_> {
        unimplemented!("tokio model: no runtime")
    }
}
#[derive(Debug)]
pub struct TryCurrentError(());
impl std::fmt::Display for TryCurrentError {
    fn fmt(&self, f: &mut std::fmt::Formatter<'_>) -> std::fmt::Result {
        f.write_str("no runtime")
    }
}
impl std::error::Error for TryCurrentError {}

impl Runtime {
    pub fn block_on<F: Future>(&self, _f: F) -> F::Output {
        unimplemented!("tokio model: no runtime")
    }
    pub fn enter(&self) -> EnterGuard<'_> {
        unimplemented!("tokio model: no runtime")
    }
    pub fn handle(&self) -> &Handle {
        unimplemented!("tokio model: no runtime")
    }
    pub fn spawn<F>(&self, _f: F) -> crate::task::JoinHandle<F::Output>
    where
        F: Future + 'static,
        F::Output: 'static,
    {
        unimplemented!("tokio model: no runtime")
    }
}

#[derive(Clone, Copy, Debug, PartialEq, Eq)]
#[non_exhaustive]
pub enum UnhandledPanic {
    Ignore,
    ShutdownRuntime,
}
pub struct RngSeed {
    _p: (),
}
impl RngSeed {
    pub fn from_bytes(_b: &[u8]) -> RngSeed {
        RngSeed { _p: () }
    }
}
pub struct Builder {
    _p: (),
}
impl Builder {
    pub fn new_current_thread() -> Builder {
        Builder { _p: () }
    }
    pub fn new_multi_thread() -> Builder {
        Builder { _p: () }
    }
    pub fn enable_time(&mut self) -> &mut Self {
        self
    }
    pub fn enable_io(&mut self) -> &mut Self {
        self
    }
    pub fn enable_all(&mut self) -> &mut Self {
        self
    }
    pub fn start_paused(&mut self, _p: bool) -> &mut Self {
        self
    }
    pub fn unhandled_panic(&mut self, _b: UnhandledPanic) -> &mut Self {
        self
    }
    pub fn rng_seed(&mut self, _s: RngSeed) -> &mut Self {
        self
    }
    pub fn build(&mut self) -> std::io::Result<Runtime> {
        unimplemented!("tokio model: a runtime cannot be built under the model")
    }
}
