//! Model of a paused, current-thread tokio runtime (what turmoil's `Rt` builds): a virtual clock
//! per runtime that only moves when every task is waiting for a timer ("auto-advance"), and then
//! jumps exactly to the earliest pending deadline.
//!
//! Contract modelled (tokio docs, `Builder::start_paused` / `time::pause`):
//!  * `Instant::now()` inside `block_on` / an `enter()` guard reads the runtime's own clock;
//!  * time never advances while some future can make progress; when all are pending the clock is
//!    set to the earliest deadline registered by a pending `Sleep`;
//!  * `block_on` returns as soon as its future is ready.
//! NOT modelled: wake-ups between tasks (wakers are no-ops under the harness stubs): a task that is
//! unblocked by another task (channel, notify, JoinHandle) is only re-polled in the next round, and a
//! round that ends with every future pending and no timer registered is reported as a deadlock
//! (panic), never as progress. Harness programs therefore wait on timers only. Timer granularity
//! (tokio rounds deadlines up to whole milliseconds) is not modelled either: deadlines are exact.
use std::future::Future;
use std::task::{Context, Poll, Waker};
use std::time::Duration;

pub(crate) struct RtState {
    pub clock: Duration,
    pub next_deadline: Option<Duration>,
}
pub(crate) static mut CURRENT_RT: *mut RtState = std::ptr::null_mut();
static mut NEXT_ORIGIN: Duration = Duration::ZERO;
static mut RUNTIMES_BUILT: usize = 0;
static mut MAX_ROUNDS: usize = if cfg!(kani) { 6 } else { usize::MAX };

/// Harness control: how many poll rounds one `block_on` may take (= distinct timer instants inside
/// one call + 1). Nested async blocks are not constant-folded by CBMC, so the round loop is bounded
/// here, explicitly, instead of by the global unwinding bound; a `block_on` that really needs more
/// rounds PANICS (the harness fails), it is never cut short silently.
pub fn model_set_max_rounds(n: usize) {
    unsafe { MAX_ROUNDS = n }
}

/// Harness control: the clock value the NEXT runtime starts from (tokio: the wall-clock instant at
/// which the runtime was built; every runtime has its own).
pub fn model_set_next_runtime_origin(d: Duration) {
    unsafe { NEXT_ORIGIN = d }
}
/// Model-only observer: number of runtimes built so far.
pub fn model_runtimes_built() -> usize {
    unsafe { RUNTIMES_BUILT }
}
pub(crate) fn current_clock() -> Option<Duration> {
    unsafe {
        if CURRENT_RT.is_null() {
            None
        } else {
            Some((*CURRENT_RT).clock)
        }
    }
}
pub(crate) fn register_deadline(d: Duration) {
    unsafe {
        assert!(!CURRENT_RT.is_null(), "tokio model: timer polled outside of a runtime");
        let st = &mut *CURRENT_RT;
        st.next_deadline = match st.next_deadline {
            Some(x) if x <= d => Some(x),
            _ => Some(d),
        };
    }
}

pub struct Runtime {
    st: *mut RtState,
}
pub struct EnterGuard<'a> {
    prev: *mut RtState,
    _p: std::marker::PhantomData<&'a ()>,
}
impl Drop for EnterGuard<'_> {
    fn drop(&mut self) {
        unsafe { CURRENT_RT = self.prev }
    }
}
#[derive(Clone, Debug)]
pub struct Handle {
    _p: (),
}
impl Handle {
    pub fn current() -> Handle {
        unimplemented!("tokio model: Handle")
    }
    pub fn try_current() -> Result<Handle, TryCurrentError> {
        Err(TryCurrentError(()))
    }
    pub fn spawn<F>(&self, _f: F) -> crate::task::JoinHandle<F::Output>
    where
        F: Future + 'static,
        F::Output: 'static,
    {
        unimplemented!("tokio model: Handle")
    }
    pub fn block_on<F: Future>(&self, _f: F) -> F::Output {
        unimplemented!("tokio model: Handle")
    }
    pub fn enter(&self) -> EnterGuard<'_> {
        unimplemented!("tokio model: Handle")
    }
}
#[derive(Debug)]
pub struct TryCurrentError(());
impl std::fmt::Display for TryCurrentError {
    fn fmt(&self, f: &mut std::fmt::Formatter<'_>) -> std::fmt::Result {
        f.write_str("no runtime")
    }
}
impl std::error::Error for TryCurrentError {}

impl Runtime {
    pub fn block_on<F: Future>(&self, f: F) -> F::Output {
        let prev = unsafe { CURRENT_RT };
        unsafe { CURRENT_RT = self.st };
        let mut f = std::pin::pin!(f);
        let mut cx = Context::from_waker(Waker::noop());
        let max_rounds = unsafe { MAX_ROUNDS };
        let mut out: Option<F::Output> = None;
        let mut round = 0;
        while round < max_rounds {
            unsafe { (*self.st).next_deadline = None };
            if let Poll::Ready(v) = f.as_mut().poll(&mut cx) {
                out = Some(v);
                break;
            }
            let st = unsafe { &mut *self.st };
            match st.next_deadline {
                Some(d) => {
                    if d > st.clock {
                        st.clock = d;
                    }
                }
                None => panic!("tokio model: block_on: every future is pending and no timer is registered"),
            }
            round += 1;
        }
        let out = match out {
            Some(v) => v,
            None => panic!("tokio model bound: block_on needed more than MAX_ROUNDS poll rounds"),
        };
        unsafe { CURRENT_RT = prev };
        out
    }
    pub fn enter(&self) -> EnterGuard<'_> {
        let prev = unsafe { CURRENT_RT };
        unsafe { CURRENT_RT = self.st };
        EnterGuard { prev, _p: std::marker::PhantomData }
    }
    pub fn handle(&self) -> &Handle {
        unimplemented!("tokio model: Handle")
    }
    pub fn spawn<F>(&self, _f: F) -> crate::task::JoinHandle<F::Output>
    where
        F: Future + 'static,
        F::Output: 'static,
    {
        unimplemented!("tokio model: only LocalSet tasks are modelled")
    }
    /// model-only observer
    pub fn model_clock(&self) -> Duration {
        unsafe { (*self.st).clock }
    }
}

#[derive(Clone, Copy, Debug, PartialEq, Eq)]
#[non_exhaustive]
pub enum UnhandledPanic {
    Ignore,
    ShutdownRuntime,
}
pub struct RngSeed {
    _p: (),
}
impl RngSeed {
    pub fn from_bytes(_b: &[u8]) -> RngSeed {
        RngSeed { _p: () }
    }
}
pub struct Builder {
    _p: (),
}
impl Builder {
    pub fn new_current_thread() -> Builder {
        Builder { _p: () }
    }
    pub fn new_multi_thread() -> Builder {
        Builder { _p: () }
    }
    pub fn enable_time(&mut self) -> &mut Self {
        self
    }
    pub fn enable_io(&mut self) -> &mut Self {
        self
    }
    pub fn enable_all(&mut self) -> &mut Self {
        self
    }
    pub fn start_paused(&mut self, _p: bool) -> &mut Self {
        self
    }
    pub fn unhandled_panic(&mut self, _b: UnhandledPanic) -> &mut Self {
        self
    }
    pub fn rng_seed(&mut self, _s: RngSeed) -> &mut Self {
        self
    }
    pub fn build(&mut self) -> std::io::Result<Runtime> {
        let st = Box::into_raw(Box::new(RtState { clock: unsafe { NEXT_ORIGIN }, next_deadline: None }));
        unsafe { RUNTIMES_BUILT += 1 };
        Ok(Runtime { st })
    }
}
