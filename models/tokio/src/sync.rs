//! Functional single-threaded models of tokio::sync::{mpsc, oneshot, Notify, Mutex}.
//!
//! Channels are a heap-allocated (leaked, never freed) state block shared through a raw pointer;
//! sender / receiver handles keep explicit liveness counts so that "closed" is observable exactly as
//! with tokio: a send fails with `Closed` once the receiver is dropped or closed, a receive reports
//! disconnection once every sender is gone and the queue is drained. Capacity accounting follows
//! tokio's semaphore: free permits = capacity - queued - reserved.
use std::future::Future;
use std::pin::Pin;
use std::task::{Context, Poll, Waker};

pub mod mpsc {
    use super::*;
    use std::collections::VecDeque;
    use std::ptr::NonNull;

    pub mod error {
        #[derive(PartialEq, Eq, Clone, Copy)]
        pub struct SendError<T>(pub T);
        impl<T> std::fmt::Debug for SendError<T> {
            fn fmt(&self, f: &mut std::fmt::Formatter<'_>) -> std::fmt::Result {
                f.write_str("SendError { .. }")
            }
        }
        impl<T> std::fmt::Display for SendError<T> {
            fn fmt(&self, f: &mut std::fmt::Formatter<'_>) -> std::fmt::Result {
                f.write_str("channel closed")
            }
        }
        impl<T> std::error::Error for SendError<T> {}

        #[derive(PartialEq, Eq, Clone, Copy)]
        pub enum TrySendError<T> {
            Full(T),
            Closed(T),
        }
        impl<T> std::fmt::Debug for TrySendError<T> {
            fn fmt(&self, f: &mut std::fmt::Formatter<'_>) -> std::fmt::Result {
                match self {
                    TrySendError::Full(_) => f.write_str("Full(..)"),
                    TrySendError::Closed(_) => f.write_str("Closed(..)"),
                }
            }
        }
        impl<T> std::fmt::Display for TrySendError<T> {
            fn fmt(&self, f: &mut std::fmt::Formatter<'_>) -> std::fmt::Result {
                match self {
                    TrySendError::Full(_) => f.write_str("no available capacity"),
                    TrySendError::Closed(_) => f.write_str("channel closed"),
                }
            }
        }
        impl<T> std::error::Error for TrySendError<T> {}

        #[derive(PartialEq, Eq, Clone, Copy, Debug)]
        pub enum TryRecvError {
            Empty,
            Disconnected,
        }
        impl std::fmt::Display for TryRecvError {
            fn fmt(&self, f: &mut std::fmt::Formatter<'_>) -> std::fmt::Result {
                match self {
                    TryRecvError::Empty => f.write_str("receiving on an empty channel"),
                    TryRecvError::Disconnected => f.write_str("receiving on a closed channel"),
                }
            }
        }
        impl std::error::Error for TryRecvError {}
    }
    use error::*;

    struct Chan<T> {
        q: VecDeque<T>,
        /// usize::MAX for unbounded channels
        cap: usize,
        reserved: usize,
        senders: usize,
        rx_alive: bool,
        rx_closed: bool,
        rx_waker: Option<Waker>,
    }
    impl<T> Chan<T> {
        fn free(&self) -> usize {
            if self.cap == usize::MAX {
                usize::MAX
            } else {
                self.cap - self.q.len() - self.reserved
            }
        }
        fn closed_for_send(&self) -> bool {
            !self.rx_alive || self.rx_closed
        }
        fn wake_rx(&mut self) {
            if let Some(w) = self.rx_waker.take() {
                w.wake();
            }
        }
    }

    fn alloc<T>(cap: usize) -> NonNull<Chan<T>> {
        let b = Box::new(Chan {
            q: VecDeque::new(),
            cap,
            reserved: 0,
            senders: 1,
            rx_alive: true,
            rx_closed: false,
            rx_waker: None,
        });
        // leaked on purpose: the state block outlives every handle (heap leaks are not part of any
        // property, and freeing would need a second liveness protocol)
        NonNull::from(Box::leak(b))
    }

    pub struct Sender<T> {
        ch: NonNull<Chan<T>>,
    }
    pub struct Receiver<T> {
        ch: NonNull<Chan<T>>,
    }
    pub struct Permit<'a, T> {
        ch: NonNull<Chan<T>>,
        _m: std::marker::PhantomData<&'a Sender<T>>,
    }
    pub struct OwnedPermit<T> {
        sender: Option<Sender<T>>,
    }
    unsafe impl<T: Send> Send for Sender<T> {}
    unsafe impl<T: Send> Sync for Sender<T> {}
    unsafe impl<T: Send> Send for Receiver<T> {}
    unsafe impl<T: Send> Sync for Receiver<T> {}

    #[track_caller]
    pub fn channel<T>(buffer: usize) -> (Sender<T>, Receiver<T>) {
        assert!(buffer > 0, "mpsc bounded channel requires buffer > 0");
        let ch = alloc(buffer);
        (Sender { ch }, Receiver { ch })
    }

    impl<T> Sender<T> {
        fn c(&self) -> &mut Chan<T> {
            unsafe { &mut *self.ch.as_ptr() }
        }
        pub fn try_send(&self, message: T) -> Result<(), TrySendError<T>> {
            let c = self.c();
            if c.closed_for_send() {
                return Err(TrySendError::Closed(message));
            }
            if c.free() == 0 {
                return Err(TrySendError::Full(message));
            }
            c.q.push_back(message);
            c.wake_rx();
            Ok(())
        }
        pub fn try_reserve(&self) -> Result<Permit<'_, T>, TrySendError<()>> {
            let c = self.c();
            if c.closed_for_send() {
                return Err(TrySendError::Closed(()));
            }
            if c.free() == 0 {
                return Err(TrySendError::Full(()));
            }
            c.reserved += 1;
            Ok(Permit { ch: self.ch, _m: std::marker::PhantomData })
        }
        pub fn try_reserve_owned(self) -> Result<OwnedPermit<T>, TrySendError<Self>> {
            let c = self.c();
            if c.closed_for_send() {
                return Err(TrySendError::Closed(self));
            }
            if c.free() == 0 {
                return Err(TrySendError::Full(self));
            }
            c.reserved += 1;
            Ok(OwnedPermit { sender: Some(self) })
        }
        /// Async send: completes immediately when there is room; otherwise it would have to park,
        /// which needs an executor.
        pub async fn send(&self, value: T) -> Result<(), SendError<T>> {
            match self.try_send(value) {
                Ok(()) => Ok(()),
                Err(TrySendError::Closed(v)) => Err(SendError(v)),
                Err(TrySendError::Full(_)) => unimplemented!("tokio model: send on a full channel needs an executor"),
            }
        }
        pub async fn reserve(&self) -> Result<Permit<'_, T>, SendError<()>> {
            match self.try_reserve() {
                Ok(p) => Ok(p),
                Err(TrySendError::Closed(())) => Err(SendError(())),
                Err(TrySendError::Full(())) => unimplemented!("tokio model: reserve on a full channel needs an executor"),
            }
        }
        pub fn capacity(&self) -> usize {
            self.c().free()
        }
        pub fn max_capacity(&self) -> usize {
            self.c().cap
        }
        pub fn is_closed(&self) -> bool {
            self.c().closed_for_send()
        }
        pub fn same_channel(&self, other: &Self) -> bool {
            self.ch == other.ch
        }
        pub async fn closed(&self) {
            if !self.is_closed() {
                unimplemented!("tokio model: closed() needs an executor")
            }
        }
    }
    impl<T> Clone for Sender<T> {
        fn clone(&self) -> Self {
            self.c().senders += 1;
            Sender { ch: self.ch }
        }
    }
    impl<T> Drop for Sender<T> {
        fn drop(&mut self) {
            let c = self.c();
            c.senders -= 1;
            if c.senders == 0 {
                c.wake_rx();
            }
        }
    }
    impl<T> std::fmt::Debug for Sender<T> {
        fn fmt(&self, f: &mut std::fmt::Formatter<'_>) -> std::fmt::Result {
            f.write_str("Sender")
        }
    }

    impl<'a, T> Permit<'a, T> {
        pub fn send(self, value: T) {
            let c = unsafe { &mut *self.ch.as_ptr() };
            c.reserved -= 1;
            c.q.push_back(value);
            c.wake_rx();
            std::mem::forget(self);
        }
    }
    impl<'a, T> Drop for Permit<'a, T> {
        fn drop(&mut self) {
            let c = unsafe { &mut *self.ch.as_ptr() };
            c.reserved -= 1;
        }
    }
    impl<T> OwnedPermit<T> {
        pub fn send(mut self, value: T) -> Sender<T> {
            let s = self.sender.take().unwrap();
            let c = s.c();
            c.reserved -= 1;
            c.q.push_back(value);
            c.wake_rx();
            s
        }
    }
    impl<T> Drop for OwnedPermit<T> {
        fn drop(&mut self) {
            if let Some(s) = self.sender.take() {
                s.c().reserved -= 1;
            }
        }
    }

    impl<T> Receiver<T> {
        fn c(&self) -> &mut Chan<T> {
            unsafe { &mut *self.ch.as_ptr() }
        }
        pub fn try_recv(&mut self) -> Result<T, TryRecvError> {
            let c = self.c();
            match c.q.pop_front() {
                Some(v) => Ok(v),
                None => {
                    if (c.senders == 0 || c.rx_closed) && c.reserved == 0 {
                        Err(TryRecvError::Disconnected)
                    } else {
                        Err(TryRecvError::Empty)
                    }
                }
            }
        }
        pub fn poll_recv(&mut self, cx: &mut Context<'_>) -> Poll<Option<T>> {
            let c = self.c();
            match c.q.pop_front() {
                Some(v) => Poll::Ready(Some(v)),
                None => {
                    if (c.senders == 0 || c.rx_closed) && c.reserved == 0 {
                        Poll::Ready(None)
                    } else {
                        c.rx_waker = Some(cx.waker().clone());
                        Poll::Pending
                    }
                }
            }
        }
        pub async fn recv(&mut self) -> Option<T> {
            std::future::poll_fn(|cx| self.poll_recv(cx)).await
        }
        pub fn close(&mut self) {
            self.c().rx_closed = true;
        }
        pub fn len(&self) -> usize {
            self.c().q.len()
        }
        pub fn is_empty(&self) -> bool {
            self.c().q.is_empty()
        }
        pub fn is_closed(&self) -> bool {
            let c = self.c();
            c.rx_closed || c.senders == 0
        }
        pub fn capacity(&self) -> usize {
            self.c().free()
        }
        pub fn max_capacity(&self) -> usize {
            self.c().cap
        }
    }
    impl<T> Drop for Receiver<T> {
        fn drop(&mut self) {
            let c = self.c();
            c.rx_alive = false;
            // tokio drops the queued messages when the receiver goes away
            while let Some(v) = c.q.pop_front() {
                drop(v);
            }
        }
    }
    impl<T> std::fmt::Debug for Receiver<T> {
        fn fmt(&self, f: &mut std::fmt::Formatter<'_>) -> std::fmt::Result {
            f.write_str("Receiver")
        }
    }

    // ---- unbounded
    pub struct UnboundedSender<T> {
        inner: Sender<T>,
    }
    pub struct UnboundedReceiver<T> {
        inner: Receiver<T>,
    }
    pub fn unbounded_channel<T>() -> (UnboundedSender<T>, UnboundedReceiver<T>) {
        let ch = alloc(usize::MAX);
        (UnboundedSender { inner: Sender { ch } }, UnboundedReceiver { inner: Receiver { ch } })
    }
    impl<T> UnboundedSender<T> {
        pub fn send(&self, message: T) -> Result<(), SendError<T>> {
            match self.inner.try_send(message) {
                Ok(()) => Ok(()),
                Err(TrySendError::Closed(v)) | Err(TrySendError::Full(v)) => Err(SendError(v)),
            }
        }
        pub fn is_closed(&self) -> bool {
            self.inner.is_closed()
        }
    }
    impl<T> Clone for UnboundedSender<T> {
        fn clone(&self) -> Self {
            UnboundedSender { inner: self.inner.clone() }
        }
    }
    impl<T> std::fmt::Debug for UnboundedSender<T> {
        fn fmt(&self, f: &mut std::fmt::Formatter<'_>) -> std::fmt::Result {
            f.write_str("UnboundedSender")
        }
    }
    impl<T> UnboundedReceiver<T> {
        pub fn try_recv(&mut self) -> Result<T, TryRecvError> {
            self.inner.try_recv()
        }
        pub fn poll_recv(&mut self, cx: &mut Context<'_>) -> Poll<Option<T>> {
            self.inner.poll_recv(cx)
        }
        pub async fn recv(&mut self) -> Option<T> {
            self.inner.recv().await
        }
        pub fn close(&mut self) {
            self.inner.close()
        }
        pub fn len(&self) -> usize {
            self.inner.len()
        }
        pub fn is_empty(&self) -> bool {
            self.inner.is_empty()
        }
    }
    impl<T> std::fmt::Debug for UnboundedReceiver<T> {
        fn fmt(&self, f: &mut std::fmt::Formatter<'_>) -> std::fmt::Result {
            f.write_str("UnboundedReceiver")
        }
    }
}

pub mod oneshot {
    use super::*;
    use std::ptr::NonNull;

    pub mod error {
        #[derive(Debug, PartialEq, Eq, Clone)]
        pub struct RecvError(pub(crate) ());
        impl std::fmt::Display for RecvError {
            fn fmt(&self, f: &mut std::fmt::Formatter<'_>) -> std::fmt::Result {
                f.write_str("channel closed")
            }
        }
        impl std::error::Error for RecvError {}
        #[derive(Debug, PartialEq, Eq, Clone)]
        pub enum TryRecvError {
            Empty,
            Closed,
        }
        impl std::fmt::Display for TryRecvError {
            fn fmt(&self, f: &mut std::fmt::Formatter<'_>) -> std::fmt::Result {
                f.write_str("oneshot try_recv error")
            }
        }
        impl std::error::Error for TryRecvError {}
    }

    struct Inner<T> {
        value: Option<T>,
        tx_alive: bool,
        rx_alive: bool,
        rx_waker: Option<Waker>,
    }
    pub struct Sender<T> {
        ch: NonNull<Inner<T>>,
    }
    pub struct Receiver<T> {
        ch: NonNull<Inner<T>>,
    }
    unsafe impl<T: Send> Send for Sender<T> {}
    unsafe impl<T: Send> Sync for Sender<T> {}
    unsafe impl<T: Send> Send for Receiver<T> {}
    unsafe impl<T: Send> Sync for Receiver<T> {}

    pub fn channel<T>() -> (Sender<T>, Receiver<T>) {
        let b = Box::new(Inner { value: None, tx_alive: true, rx_alive: true, rx_waker: None });
        let ch = NonNull::from(Box::leak(b));
        (Sender { ch }, Receiver { ch })
    }
    impl<T> Sender<T> {
        fn c(&self) -> &mut Inner<T> {
            unsafe { &mut *self.ch.as_ptr() }
        }
        pub fn send(self, t: T) -> Result<(), T> {
            let c = self.c();
            if !c.rx_alive {
                return Err(t);
            }
            c.value = Some(t);
            // Drop for Sender marks the sender gone and wakes the receiver
            Ok(())
        }
        pub fn is_closed(&self) -> bool {
            !self.c().rx_alive
        }
        pub async fn closed(&mut self) {
            if !self.is_closed() {
                unimplemented!("tokio model: closed() needs an executor")
            }
        }
    }
    impl<T> Drop for Sender<T> {
        fn drop(&mut self) {
            let c = self.c();
            c.tx_alive = false;
            if let Some(w) = c.rx_waker.take() {
                w.wake();
            }
        }
    }
    impl<T> std::fmt::Debug for Sender<T> {
        fn fmt(&self, f: &mut std::fmt::Formatter<'_>) -> std::fmt::Result {
            f.write_str("oneshot::Sender")
        }
    }
    impl<T> Receiver<T> {
        fn c(&self) -> &mut Inner<T> {
            unsafe { &mut *self.ch.as_ptr() }
        }
        pub fn try_recv(&mut self) -> Result<T, error::TryRecvError> {
            let c = self.c();
            match c.value.take() {
                Some(v) => Ok(v),
                None => {
                    if c.tx_alive {
                        Err(error::TryRecvError::Empty)
                    } else {
                        Err(error::TryRecvError::Closed)
                    }
                }
            }
        }
        pub fn close(&mut self) {
            self.c().rx_alive = false;
        }
        /// model-only observation used by harnesses: has the sender been dropped without a value?
        pub fn model_sender_dropped(&self) -> bool {
            let c = self.c();
            !c.tx_alive && c.value.is_none()
        }
    }
    impl<T> Drop for Receiver<T> {
        fn drop(&mut self) {
            self.c().rx_alive = false;
        }
    }
    impl<T> Unpin for Receiver<T> {}
    impl<T> Future for Receiver<T> {
        type Output = Result<T, error::RecvError>;
        fn poll(self: Pin<&mut Self>, cx: &mut Context<'_>) -> Poll<Self::Output> {
            let c = self.c();
            match c.value.take() {
                Some(v) => Poll::Ready(Ok(v)),
                None => {
                    if !c.tx_alive {
                        Poll::Ready(Err(error::RecvError(())))
                    } else {
                        c.rx_waker = Some(cx.waker().clone());
                        Poll::Pending
                    }
                }
            }
        }
    }
    impl<T> std::fmt::Debug for Receiver<T> {
        fn fmt(&self, f: &mut std::fmt::Formatter<'_>) -> std::fmt::Result {
            f.write_str("oneshot::Receiver")
        }
    }
}

/// `Notify` with one stored permit (tokio semantics for `notify_one` without a waiter).
pub struct Notify {
    permit: std::cell::Cell<bool>,
    notified_waiters: std::cell::Cell<u64>,
}
unsafe impl Send for Notify {}
unsafe impl Sync for Notify {}
impl Notify {
    pub const fn new() -> Notify {
        Notify { permit: std::cell::Cell::new(false), notified_waiters: std::cell::Cell::new(0) }
    }
    pub fn notify_one(&self) {
        self.permit.set(true);
    }
    pub fn notify_waiters(&self) {
        self.notified_waiters.set(self.notified_waiters.get() + 1);
    }
    pub fn notified(&self) -> Notified<'_> {
        Notified { n: self }
    }
    /// model-only observations
    pub fn model_has_permit(&self) -> bool {
        self.permit.get()
    }
    pub fn model_notify_waiters_calls(&self) -> u64 {
        self.notified_waiters.get()
    }
}
impl Default for Notify {
    fn default() -> Self {
        Notify::new()
    }
}
impl std::fmt::Debug for Notify {
    fn fmt(&self, f: &mut std::fmt::Formatter<'_>) -> std::fmt::Result {
        f.write_str("Notify")
    }
}
pub struct Notified<'a> {
    n: &'a Notify,
}
impl<'a> Future for Notified<'a> {
    type Output = ();
    fn poll(self: Pin<&mut Self>, _cx: &mut Context<'_>) -> Poll<()> {
        if self.n.permit.get() {
            self.n.permit.set(false);
            Poll::Ready(())
        } else {
            unimplemented!("tokio model: waiting on Notify needs an executor")
        }
    }
}

/// Async mutex: uncontended lock only.
pub struct Mutex<T: ?Sized> {
    locked: std::cell::Cell<bool>,
    v: std::cell::UnsafeCell<T>,
}
unsafe impl<T: ?Sized + Send> Send for Mutex<T> {}
unsafe impl<T: ?Sized + Send> Sync for Mutex<T> {}
pub struct MutexGuard<'a, T: ?Sized> {
    m: &'a Mutex<T>,
}
#[derive(Debug)]
pub struct TryLockError(());
impl std::fmt::Display for TryLockError {
    fn fmt(&self, f: &mut std::fmt::Formatter<'_>) -> std::fmt::Result {
        f.write_str("operation would block")
    }
}
impl std::error::Error for TryLockError {}
impl<T> Mutex<T> {
    pub const fn new(v: T) -> Mutex<T> {
        Mutex { locked: std::cell::Cell::new(false), v: std::cell::UnsafeCell::new(v) }
    }
    pub fn into_inner(self) -> T {
        self.v.into_inner()
    }
}
impl<T: ?Sized> Mutex<T> {
    pub async fn lock(&self) -> MutexGuard<'_, T> {
        match self.try_lock() {
            Ok(g) => g,
            Err(_) => unimplemented!("tokio model: contended Mutex::lock needs an executor"),
        }
    }
    pub fn try_lock(&self) -> Result<MutexGuard<'_, T>, TryLockError> {
        if self.locked.get() {
            Err(TryLockError(()))
        } else {
            self.locked.set(true);
            Ok(MutexGuard { m: self })
        }
    }
    pub fn get_mut(&mut self) -> &mut T {
        self.v.get_mut()
    }
    pub fn blocking_lock(&self) -> MutexGuard<'_, T> {
        match self.try_lock() {
            Ok(g) => g,
            Err(_) => unimplemented!("tokio model: contended blocking_lock"),
        }
    }
}
impl<'a, T: ?Sized> std::ops::Deref for MutexGuard<'a, T> {
    type Target = T;
    fn deref(&self) -> &T {
        unsafe { &*self.m.v.get() }
    }
}
impl<'a, T: ?Sized> std::ops::DerefMut for MutexGuard<'a, T> {
    fn deref_mut(&mut self) -> &mut T {
        unsafe { &mut *self.m.v.get() }
    }
}
impl<'a, T: ?Sized> Drop for MutexGuard<'a, T> {
    fn drop(&mut self) {
        self.m.locked.set(false);
    }
}
impl<T: ?Sized + std::fmt::Debug> std::fmt::Debug for Mutex<T> {
    fn fmt(&self, f: &mut std::fmt::Formatter<'_>) -> std::fmt::Result {
        f.write_str("Mutex")
    }
}
impl<T: Default> Default for Mutex<T> {
    fn default() -> Self {
        Mutex::new(T::default())
    }
}
