//! Compile surface only.
use std::future::Future;
use std::pin::Pin;
use std::task::{Context, Poll};

pub struct JoinHandle<T> {
    _p: std::marker::PhantomData<T>,
}
impl<T> JoinHandle<T> {
    pub fn is_finished(&self) -> bool {
        unimplemented!("tokio model: no executor")
    }
    pub fn abort(&self) {
        unimplemented!("tokio model: no executor")
    }
}
impl<T> Unpin for JoinHandle<T> {}
impl<T> Future for JoinHandle<T> {
    type Output = Result<T, JoinError>;
    fn poll(self: Pin<&mut Self>, _cx: &mut Context<'_>) -> Poll<Self::Output> {
        unimplemented!("tokio model: no executor")
    }
}
impl<T> std::fmt::Debug for JoinHandle<T> {
    fn fmt(&self, f: &mut std::fmt::Formatter<'_>) -> std::fmt::Result {
        f.write_str("JoinHandle")
    }
}
pub struct JoinError {
    _p: (),
}
impl JoinError {
    pub fn is_cancelled(&self) -> bool {
        unimplemented!()
    }
    pub fn is_panic(&self) -> bool {
        unimplemented!()
    }
    pub fn into_panic(self) -> Box<dyn std::any::Any + Send + 'static> {
        unimplemented!()
    }
    pub fn try_into_panic(self) -> Result<Box<dyn std::any::Any + Send + 'static>, JoinError> {
        unimplemented!()
    }
}
impl std::fmt::Debug for JoinError {
    fn fmt(&self, f: &mut std::fmt::Formatter<'_>) -> std::fmt::Result {
        f.write_str("JoinError")
    }
}
impl std::fmt::Display for JoinError {
    fn fmt(&self, f: &mut std::fmt::Formatter<'_>) -> std::fmt::Result {
        f.write_str("JoinError")
    }
}
impl std::error::Error for JoinError {}

pub struct LocalSet {
    _p: (),
}
impl LocalSet {
    pub fn new() -> LocalSet {
        LocalSet { _p: () }
    }
    pub fn unhandled_panic(&mut self, _b: crate::runtime::UnhandledPanic) -> &mut Self {
        self
    }
    pub fn spawn_local<F>(&self, _f: F) -> JoinHandle<F::Output>
    where
        F: Future + 'static,
        F::Output: 'static,
    {
        unimplemented!("tokio model: no executor")
    }
    pub async fn run_until<F: Future>(&self, _f: F) -> F::Output {
        unimplemented!("tokio model: no executor")
    }
    pub fn block_on<F: Future>(&self, _rt: &crate::runtime::Runtime, _f: F) -> F::Output {
        unimplemented!("tokio model: no executor")
    }
    pub fn enter(&self) -> LocalEnterGuard {
        unimplemented!("tokio model: no executor")
    }
}
pub struct LocalEnterGuard {
    _p: (),
}
impl Default for LocalSet {
    fn default() -> Self {
        LocalSet::new()
    }
}

pub fn spawn_local<F>(_f: F) -> JoinHandle<F::Output>
where
    F: Future + 'static,
    F::Output: 'static,
{
    unimplemented!("tokio model: no executor")
}
pub fn spawn<F>(_f: F) -> JoinHandle<F::Output>
where
    F: Future + 'static,
    F::Output: 'static,
{
    unimplemented!("tokio model: no executor")
}
pub fn spawn_blocking<F, R>(_f: F) -> JoinHandle<R>
where
    F: FnOnce() -> R + 'static,
    R: 'static,
{
    unimplemented!("tokio model: no executor")
}
pub async fn yield_now() {
    unimplemented!("tokio model: no executor")
}
