//! Model of `task::LocalSet` / `spawn_local` / `JoinHandle` for the executor model in runtime.rs.
use std::future::Future;
use std::pin::Pin;
use std::task::{Context, Poll};

pub(crate) struct JoinState<T> {
    result: Option<Result<T, JoinError>>,
    finished: bool,
    abort: bool,
}
impl<T> JoinState<T> {
    /// Stores the result WITHOUT dropping the previous value (always `None`): the drop glue of
    /// `Option<Result<T, _>>` for `T = Result<(), Box<dyn Error>>` walks every error type's
    /// destructor when the discriminant is not a constant for CBMC.
    fn finish(&mut self, r: Result<T, JoinError>) {
        unsafe { std::ptr::write(&mut self.result, Some(r)) };
        self.finished = true;
    }
}
/// The state block is leaked (never freed): handles and tasks refer to it by raw pointer.
pub struct JoinHandle<T> {
    st: *mut JoinState<T>,
}
impl<T> JoinHandle<T> {
    pub fn is_finished(&self) -> bool {
        unsafe { (*self.st).finished }
    }
    pub fn abort(&self) {
        unsafe { (*self.st).abort = true }
    }
}
impl<T> Unpin for JoinHandle<T> {}
impl<T> Future for JoinHandle<T> {
    type Output = Result<T, JoinError>;
    fn poll(self: Pin<&mut Self>, _cx: &mut Context<'_>) -> Poll<Self::Output> {
        let p = self.st;
        let st = unsafe { &mut *p };
        if st.finished {
            // moved out without leaving a value to drop
            let r = unsafe { std::ptr::read(&st.result) };
            unsafe { std::ptr::write(&mut st.result, None) };
            match r {
                Some(r) => Poll::Ready(r),
                None => panic!("tokio model: JoinHandle polled after completion"),
            }
        } else {
            Poll::Pending
        }
    }
}
impl<T> std::fmt::Debug for JoinHandle<T> {
    fn fmt(&self, f: &mut std::fmt::Formatter<'_>) -> std::fmt::Result {
        f.write_str("JoinHandle")
    }
}
pub struct JoinError {
    cancelled: bool,
}
impl JoinError {
    pub fn is_cancelled(&self) -> bool {
        self.cancelled
    }
    pub fn is_panic(&self) -> bool {
        !self.cancelled
    }
    pub fn into_panic(self) -> Box<dyn std::any::Any + Send + 'static> {
        unimplemented!("tokio model: panics are not modelled")
    }
    pub fn try_into_panic(self) -> Result<Box<dyn std::any::Any + Send + 'static>, JoinError> {
        Err(self)
    }
}
impl std::fmt::Debug for JoinError {
    fn fmt(&self, f: &mut std::fmt::Formatter<'_>) -> std::fmt::Result {
        f.write_str("JoinError")
    }
}
impl std::fmt::Display for JoinError {
    fn fmt(&self, f: &mut std::fmt::Formatter<'_>) -> std::fmt::Result {
        f.write_str("JoinError")
    }
}
impl std::error::Error for JoinError {}

/// A spawned task: the user's future plus the join state it reports into. Dropping a task that has
/// not finished (LocalSet dropped = turmoil's crash) runs the future's destructor and reports
/// "cancelled".
struct TaskFut<F: Future> {
    // not an Option<F>: the niche of a coroutine's discriminant makes CBMC lose constant propagation
    fut: std::mem::ManuallyDrop<F>,
    live: bool,
    st: *mut JoinState<F::Output>,
}
impl<F: Future> Future for TaskFut<F> {
    type Output = ();
    fn poll(self: Pin<&mut Self>, cx: &mut Context<'_>) -> Poll<()> {
        let this = unsafe { self.get_unchecked_mut() };
        let st = unsafe { &mut *this.st };
        if !this.live {
            return Poll::Ready(());
        }
        if st.abort && !st.finished {
            unsafe { std::mem::ManuallyDrop::drop(&mut this.fut) };
            this.live = false;
            st.finish(Err(JoinError { cancelled: true }));
            return Poll::Ready(());
        }
        let r = unsafe { Pin::new_unchecked(&mut *this.fut) }.poll(cx);
        match r {
            Poll::Ready(v) => {
                unsafe { std::mem::ManuallyDrop::drop(&mut this.fut) };
                this.live = false;
                st.finish(Ok(v));
                Poll::Ready(())
            }
            Poll::Pending => Poll::Pending,
        }
    }
}
impl<F: Future> Drop for TaskFut<F> {
    fn drop(&mut self) {
        if self.live {
            unsafe { std::mem::ManuallyDrop::drop(&mut self.fut) };
            self.live = false;
        }
        let st = unsafe { &mut *self.st };
        if !st.finished {
            st.finish(Err(JoinError { cancelled: true }));
        }
    }
}

/// A type-erased task WITHOUT `dyn Future`: CBMC resolves an indirect call by signature over every
/// address-taken function, and `dyn Future<Output = ()>::poll` has the shape of every `Debug::fmt`
/// in the program (measured: a three-line executor harness wandered through `io::Error`'s Debug
/// impl and timed out). The two trampolines below have signatures of their own (`TaskPoll` /
/// `TaskDropped` exist for nothing else), so the candidate set is exactly the spawned task types.
pub(crate) enum TaskPoll {
    Done,
    Waiting,
}
pub(crate) struct TaskDropped(u64, u64, u64);
/// By-value parameter that exists only to make the trampoline signatures unlike any other function
/// in the program (CBMC matches indirect-call candidates by parameter and return types).
#[derive(Clone, Copy)]
pub(crate) struct TaskTag(u64, u64, u64);
const TAG: TaskTag = TaskTag(1, 2, 3);
pub(crate) struct Task {
    data: *mut (),
    poll: unsafe fn(*mut (), &mut Context<'_>, TaskTag) -> TaskPoll,
    drop: unsafe fn(*mut (), TaskTag, TaskTag) -> TaskDropped,
}
unsafe fn poll_tramp<F: Future>(p: *mut (), cx: &mut Context<'_>, _t: TaskTag) -> TaskPoll {
    let t = &mut *(p as *mut TaskFut<F>);
    match Pin::new_unchecked(t).poll(cx) {
        Poll::Ready(()) => TaskPoll::Done,
        Poll::Pending => TaskPoll::Waiting,
    }
}
unsafe fn drop_tramp<F: Future>(p: *mut (), _a: TaskTag, _b: TaskTag) -> TaskDropped {
    drop(Box::from_raw(p as *mut TaskFut<F>));
    TaskDropped(0, 0, 0)
}
impl Drop for Task {
    fn drop(&mut self) {
        unsafe { (self.drop)(self.data, TAG, TAG) };
    }
}
/// Tasks live in a fixed inline array: growing a `Vec` goes through `realloc`, whose byte-wise copy
/// makes CBMC forget which function / object the pointers inside `Task` refer to. Model bound: at
/// most `MAX_TASKS` tasks are ever spawned on one LocalSet (exceeding it panics).
pub const MAX_TASKS: usize = 8;
pub(crate) struct TaskList {
    slots: [Option<Task>; MAX_TASKS],
    len: usize,
}
impl TaskList {
    fn new() -> TaskList {
        TaskList { slots: [None, None, None, None, None, None, None, None], len: 0 }
    }
    fn len(&self) -> usize {
        self.len
    }
    fn push(&mut self, t: Option<Task>) {
        assert!(self.len < MAX_TASKS, "tokio model bound: more than MAX_TASKS tasks on one LocalSet");
        let i = self.len;
        // the slot is None: plain store, no destructor of interest
        let old = std::mem::replace(&mut self.slots[i], t);
        std::mem::forget(old);
        self.len += 1;
    }
}
impl std::ops::Index<usize> for TaskList {
    type Output = Option<Task>;
    fn index(&self, i: usize) -> &Option<Task> {
        &self.slots[i]
    }
}
impl std::ops::IndexMut<usize> for TaskList {
    fn index_mut(&mut self, i: usize) -> &mut Option<Task> {
        &mut self.slots[i]
    }
}
pub(crate) struct LocalState {
    tasks: TaskList,
    polls: usize,
}
static mut CURRENT_LOCAL: *mut LocalState = std::ptr::null_mut();

pub struct LocalSet {
    st: *mut LocalState,
}
impl LocalSet {
    pub fn new() -> LocalSet {
        LocalSet { st: Box::into_raw(Box::new(LocalState { tasks: TaskList::new(), polls: 0 })) }
    }
    pub fn unhandled_panic(&mut self, _b: crate::runtime::UnhandledPanic) -> &mut Self {
        self
    }
    pub fn spawn_local<F>(&self, f: F) -> JoinHandle<F::Output>
    where
        F: Future + 'static,
        F::Output: 'static,
    {
        push_task(self.st, f)
    }
    /// tokio: `async fn run_until`; the model returns a named future with the same `.await` surface.
    pub fn run_until<F: Future>(&self, f: F) -> RunUntil<'_, F> {
        RunUntil { local: self, fut: f }
    }
    pub fn block_on<F: Future>(&self, rt: &crate::runtime::Runtime, f: F) -> F::Output {
        rt.block_on(self.run_until(f))
    }
    pub fn enter(&self) -> LocalEnterGuard {
        let prev = unsafe { CURRENT_LOCAL };
        unsafe { CURRENT_LOCAL = self.st };
        LocalEnterGuard { prev }
    }
    /// model-only observers
    pub fn model_live_tasks(&self) -> usize {
        let st = unsafe { &*self.st };
        let mut n = 0;
        let mut i = 0;
        while i < st.tasks.len() {
            if st.tasks[i].is_some() {
                n += 1;
            }
            i += 1;
        }
        n
    }
    pub fn model_task_polls(&self) -> usize {
        unsafe { (*self.st).polls }
    }
}
impl Drop for LocalSet {
    fn drop(&mut self) {
        // every task is dropped (its destructors run) in spawn order
        let st = unsafe { Box::from_raw(self.st) };
        drop(st);
    }
}
pub struct LocalEnterGuard {
    prev: *mut LocalState,
}
impl Drop for LocalEnterGuard {
    fn drop(&mut self) {
        unsafe { CURRENT_LOCAL = self.prev }
    }
}
impl Default for LocalSet {
    fn default() -> Self {
        LocalSet::new()
    }
}

fn push_task<F>(ls: *mut LocalState, f: F) -> JoinHandle<F::Output>
where
    F: Future + 'static,
    F::Output: 'static,
{
    let st = Box::into_raw(Box::new(JoinState { result: None, finished: false, abort: false }));
    let data = Box::into_raw(Box::new(TaskFut { fut: std::mem::ManuallyDrop::new(f), live: true, st })) as *mut ();
    let task = Task { data, poll: poll_tramp::<F>, drop: drop_tramp::<F> };
    unsafe { (*ls).tasks.push(Some(task)) };
    JoinHandle { st }
}

/// tokio's `RunUntil`: poll the main future first; if it is not ready give every queued task one
/// poll (spawn order; tasks spawned during the round are polled in the same round).
pub struct RunUntil<'a, F> {
    local: &'a LocalSet,
    fut: F,
}
impl<F: Future> Future for RunUntil<'_, F> {
    type Output = F::Output;
    fn poll(self: Pin<&mut Self>, cx: &mut Context<'_>) -> Poll<F::Output> {
        let this = unsafe { self.get_unchecked_mut() };
        let ls = this.local.st;
        let prev = unsafe { CURRENT_LOCAL };
        unsafe { CURRENT_LOCAL = ls };
        let r = unsafe { Pin::new_unchecked(&mut this.fut) }.poll(cx);
        if r.is_pending() {
            let mut i = 0;
            while i < MAX_TASKS {
                let n = unsafe { (*ls).tasks.len() };
                if i >= n {
                    break;
                }
                // the slot is read, not moved (the list never reallocates, a running task may push)
                let entry = unsafe {
                    match &(&(*ls).tasks)[i] {
                        Some(t) => Some((t.data, t.poll)),
                        None => None,
                    }
                };
                if let Some((data, poll)) = entry {
                    unsafe { (*ls).polls += 1 };
                    match unsafe { poll(data, cx, TAG) } {
                        TaskPoll::Done => {
                            let done = unsafe { (&mut (*ls).tasks)[i].take() };
                            drop(done);
                        }
                        TaskPoll::Waiting => {}
                    }
                }
                i += 1;
            }
        }
        unsafe { CURRENT_LOCAL = prev };
        r
    }
}

pub fn spawn_local<F>(f: F) -> JoinHandle<F::Output>
where
    F: Future + 'static,
    F::Output: 'static,
{
    let ls = unsafe { CURRENT_LOCAL };
    assert!(!ls.is_null(), "`spawn_local` called from outside of a `task::LocalSet`");
    push_task(ls, f)
}
pub fn spawn<F>(_f: F) -> JoinHandle<F::Output>
where
    F: Future + 'static,
    F::Output: 'static,
{
    unimplemented!("tokio model: only LocalSet tasks are modelled")
}
pub fn spawn_blocking<F, R>(_f: F) -> JoinHandle<R>
where
    F: FnOnce() -> R + 'static,
    R: 'static,
{
    unimplemented!("tokio model: no blocking pool")
}
/// Yields once: pending on the first poll without registering a timer. The executor model reports a
/// round without timers as a deadlock, so a program that yields must also have a timer pending.
pub struct YieldNow(bool);
impl Future for YieldNow {
    type Output = ();
    fn poll(mut self: Pin<&mut Self>, _cx: &mut Context<'_>) -> Poll<()> {
        if self.0 {
            Poll::Ready(())
        } else {
            self.0 = true;
            // re-poll at the current instant: a deadline of "now" keeps the clock where it is
            if let Some(c) = crate::runtime::current_clock() {
                crate::runtime::register_deadline(c);
            }
            Poll::Pending
        }
    }
}
pub fn yield_now() -> YieldNow {
    YieldNow(false)
}
