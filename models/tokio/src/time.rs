//! Model of tokio::time. `Instant` is a Duration since an arbitrary origin; the "paused clock" is a
//! global the harness sets with `model_set_now`.
pub use std::time::Duration;
use std::future::Future;
use std::ops::{Add, AddAssign, Sub, SubAssign};
use std::pin::Pin;
use std::task::{Context, Poll};

static mut MODEL_NOW: Duration = Duration::ZERO;

/// Harness control: set the value returned by `Instant::now()`.
pub fn model_set_now(since_origin: Duration) {
    unsafe { MODEL_NOW = since_origin }
}
pub fn model_now() -> Duration {
    unsafe { MODEL_NOW }
}

#[derive(Clone, Copy, Debug, PartialEq, Eq, PartialOrd, Ord, Hash)]
pub struct Instant {
    since_origin: Duration,
}

impl Instant {
    pub fn now() -> Instant {
        // inside a (model) runtime: that runtime's paused clock; otherwise the harness-set value
        match crate::runtime::current_clock() {
            Some(c) => Instant { since_origin: c },
            None => Instant { since_origin: model_now() },
        }
    }
    /// model-only constructor
    pub fn model_at(since_origin: Duration) -> Instant {
        Instant { since_origin }
    }
    pub fn model_since_origin(&self) -> Duration {
        self.since_origin
    }
    pub fn duration_since(&self, earlier: Instant) -> Duration {
        self.since_origin.saturating_sub(earlier.since_origin)
    }
    pub fn saturating_duration_since(&self, earlier: Instant) -> Duration {
        self.since_origin.saturating_sub(earlier.since_origin)
    }
    pub fn checked_duration_since(&self, earlier: Instant) -> Option<Duration> {
        self.since_origin.checked_sub(earlier.since_origin)
    }
    pub fn elapsed(&self) -> Duration {
        Instant::now().duration_since(*self)
    }
    pub fn checked_add(&self, d: Duration) -> Option<Instant> {
        self.since_origin.checked_add(d).map(|s| Instant { since_origin: s })
    }
    pub fn checked_sub(&self, d: Duration) -> Option<Instant> {
        self.since_origin.checked_sub(d).map(|s| Instant { since_origin: s })
    }
}
impl Add<Duration> for Instant {
    type Output = Instant;
    fn add(self, d: Duration) -> Instant {
        match self.checked_add(d) {
            Some(i) => i,
            None => panic!("overflow when adding duration to instant"),
        }
    }
}
impl AddAssign<Duration> for Instant {
    fn add_assign(&mut self, d: Duration) {
        *self = *self + d;
    }
}
impl Sub<Duration> for Instant {
    type Output = Instant;
    fn sub(self, d: Duration) -> Instant {
        match self.checked_sub(d) {
            Some(i) => i,
            None => panic!("overflow when subtracting duration from instant"),
        }
    }
}
impl SubAssign<Duration> for Instant {
    fn sub_assign(&mut self, d: Duration) {
        *self = *self - d;
    }
}
impl Sub<Instant> for Instant {
    type Output = Duration;
    fn sub(self, o: Instant) -> Duration {
        self.duration_since(o)
    }
}

/// A timer of the current (model) runtime: ready once that runtime's clock has reached the deadline;
/// a pending poll registers the deadline so that the idle runtime advances exactly to it.
pub struct Sleep {
    deadline: Duration,
}
impl Sleep {
    pub fn deadline(&self) -> Instant {
        Instant { since_origin: self.deadline }
    }
    pub fn is_elapsed(&self) -> bool {
        Instant::now().since_origin >= self.deadline
    }
}
impl Future for Sleep {
    type Output = ();
    fn poll(self: Pin<&mut Self>, _cx: &mut Context<'_>) -> Poll<()> {
        let now = match crate::runtime::current_clock() {
            Some(c) => c,
            None => panic!("tokio model: there is no reactor running (sleep polled outside of a runtime)"),
        };
        if now >= self.deadline {
            Poll::Ready(())
        } else {
            crate::runtime::register_deadline(self.deadline);
            Poll::Pending
        }
    }
}
pub fn sleep(d: Duration) -> Sleep {
    Sleep { deadline: Instant::now().since_origin + d }
}
pub fn sleep_until(i: Instant) -> Sleep {
    Sleep { deadline: i.since_origin }
}

pub mod error {
    #[derive(Debug, PartialEq, Eq)]
    pub struct Elapsed(pub(crate) ());
    impl std::fmt::Display for Elapsed {
        fn fmt(&self, f: &mut std::fmt::Formatter<'_>) -> std::fmt::Result {
            f.write_str("deadline has elapsed")
        }
    }
    impl std::error::Error for Elapsed {}
}

pub struct Timeout<F> {
    fut: F,
    sleep: Sleep,
}
impl<F: Future> Future for Timeout<F> {
    type Output = Result<F::Output, error::Elapsed>;
    fn poll(self: Pin<&mut Self>, cx: &mut Context<'_>) -> Poll<Self::Output> {
        let this = unsafe { self.get_unchecked_mut() };
        if let Poll::Ready(v) = unsafe { Pin::new_unchecked(&mut this.fut) }.poll(cx) {
            return Poll::Ready(Ok(v));
        }
        match Pin::new(&mut this.sleep).poll(cx) {
            Poll::Ready(()) => Poll::Ready(Err(error::Elapsed(()))),
            Poll::Pending => Poll::Pending,
        }
    }
}
pub fn timeout<F: Future>(d: Duration, f: F) -> Timeout<F> {
    Timeout { fut: f, sleep: sleep(d) }
}
