//! Verification model of `tracing`: every event/span macro expands to nothing observable.
#[derive(Clone, Copy, Debug, PartialEq, Eq)]
pub struct Level(u8);
impl Level {
    pub const ERROR: Level = Level(1);
    pub const WARN: Level = Level(2);
    pub const INFO: Level = Level(3);
    pub const DEBUG: Level = Level(4);
    pub const TRACE: Level = Level(5);
}
pub struct Span;
pub struct Entered;
impl Span {
    pub fn entered(self) -> Entered { Entered }
    pub fn enter(&self) -> Entered { Entered }
    pub fn none() -> Span { Span }
}
#[macro_export] macro_rules! trace { ($($t:tt)*) => {{}} }
#[macro_export] macro_rules! debug { ($($t:tt)*) => {{}} }
#[macro_export] macro_rules! info { ($($t:tt)*) => {{}} }
#[macro_export] macro_rules! warn { ($($t:tt)*) => {{}} }
#[macro_export] macro_rules! error { ($($t:tt)*) => {{}} }
#[macro_export] macro_rules! span { ($($t:tt)*) => {{ $crate::Span }} }
#[macro_export] macro_rules! info_span { ($($t:tt)*) => {{ $crate::Span }} }
#[macro_export] macro_rules! trace_span { ($($t:tt)*) => {{ $crate::Span }} }
