//! Differential validation of /verif/models/path/verif_path.rs against std::path on EVERY
//! normalised unix path (absolute and relative) over the alphabet {'/', 'a', 'b', '.'-free} of at most
//! CAP bytes: equality, parent, file_name, join, starts_with, is_absolute.
#[allow(dead_code)]
#[path = "../../path/verif_path.rs"]
mod verif_path;

#[cfg(test)]
mod tests {
    use super::verif_path as m;
    use std::path::Path as SP;

    fn normalised(s: &str) -> bool {
        if s == "/" || s.is_empty() {
            return true;
        }
        !s.ends_with('/') && !s.contains("//")
    }

    fn all() -> Vec<String> {
        let alpha = ['/', 'a', 'b'];
        let mut out = vec![String::new()];
        let mut cur = vec![String::new()];
        for _ in 0..m::CAP {
            let mut next = vec![];
            for s in &cur {
                for c in alpha {
                    let mut t = s.clone();
                    t.push(c);
                    next.push(t);
                }
            }
            out.extend(next.iter().cloned());
            cur = next;
        }
        out.into_iter().filter(|s| normalised(s)).collect()
    }

    #[test]
    fn model_agrees_with_std_on_all_normalised_paths() {
        let ps = all();
        assert!(ps.len() > 300);
        for s in &ps {
            let sp = SP::new(s);
            let mp = m::Path::new(s.as_str());
            assert_eq!(sp.parent().map(|p| p.to_str().unwrap().to_string()),
                       mp.parent().map(|p| p.to_str().unwrap().to_string()), "parent of {s:?}");
            assert_eq!(sp.file_name().map(|p| p.to_str().unwrap().as_bytes().to_vec()),
                       mp.file_name().map(|p| p.as_encoded_bytes().to_vec()), "file_name of {s:?}");
            assert_eq!(sp.is_absolute(), mp.is_absolute());
            assert_eq!(sp.as_os_str().is_empty(), mp.as_os_str().is_empty());
            assert_eq!(mp.to_path_buf().as_path().to_str().unwrap(), s.as_str());
        }
        // pairs: equality, starts_with, join (where the result fits)
        let small: Vec<&String> = ps.iter().filter(|s| s.len() <= 4).collect();
        for a in &small {
            for b in &small {
                let (sa, sb) = (SP::new(a.as_str()), SP::new(b.as_str()));
                let (ma, mb) = (m::Path::new(a.as_str()), m::Path::new(b.as_str()));
                assert_eq!(sa == sb, ma == mb, "eq {a:?} {b:?}");
                assert_eq!(sa == sb, ma.to_path_buf() == mb.to_path_buf());
                assert_eq!(sa.starts_with(sb), ma.starts_with(mb), "starts_with {a:?} {b:?}");
                let j = sa.join(sb);
                let js = j.to_str().unwrap();
                if js.len() <= m::CAP && normalised(js) && !b.is_empty() {
                    assert_eq!(ma.join(mb).as_path().to_str().unwrap(), js, "join {a:?} {b:?}");
                }
            }
        }
    }
}
