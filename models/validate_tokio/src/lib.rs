//! Differential validation of the tokio MODEL (/verif/models/tokio) against the REAL tokio for the
//! operations the Kani harnesses rely on: deterministic pseudo-random operation sequences are applied
//! to both and every observable result is compared.

#[cfg(test)]
mod tests {
    use std::task::{Context, Poll, Waker};

    struct Lcg(u64);
    impl Lcg {
        fn next(&mut self) -> u64 {
            self.0 = self.0.wrapping_mul(6364136223846793005).wrapping_add(1442695040888963407);
            self.0 >> 33
        }
    }

    fn cx() -> Context<'static> {
        Context::from_waker(Waker::noop())
    }

    #[test]
    fn mpsc_bounded_matches_real_tokio() {
        for seed in 0..400u64 {
            let mut g = Lcg(seed * 7919 + 1);
            let cap = 1 + (g.next() % 3) as usize;
            let (rtx, mut rrx) = real::sync::mpsc::channel::<u32>(cap);
            let (mtx, mut mrx) = model::sync::mpsc::channel::<u32>(cap);
            let mut rtx = Some(rtx);
            let mut mtx = Some(mtx);
            let mut rtx2 = None;
            let mut mtx2 = None;
            let mut rx_open = true;
            for step in 0..40u32 {
                let op = g.next() % 9;
                match op {
                    0 | 1 => {
                        if let (Some(r), Some(m)) = (&rtx, &mtx) {
                            let a = r.try_send(step).map_err(|e| matches!(e, real::sync::mpsc::error::TrySendError::Full(_)));
                            let b = m.try_send(step).map_err(|e| matches!(e, model::sync::mpsc::error::TrySendError::Full(_)));
                            assert_eq!(a, b, "try_send seed {seed} step {step}");
                        }
                    }
                    2 => {
                        if let (Some(r), Some(m)) = (&rtx, &mtx) {
                            let a = r.try_reserve();
                            let b = m.try_reserve();
                            match (a, b) {
                                (Ok(pa), Ok(pb)) => {
                                    // capacity while a permit is outstanding
                                    assert_eq!(r.capacity(), m.capacity());
                                    if g.next() % 2 == 0 {
                                        pa.send(step);
                                        pb.send(step);
                                    } else {
                                        drop(pa);
                                        drop(pb);
                                    }
                                }
                                (Err(ea), Err(eb)) => {
                                    let fa = matches!(ea, real::sync::mpsc::error::TrySendError::Full(()));
                                    let fb = matches!(eb, model::sync::mpsc::error::TrySendError::Full(()));
                                    assert_eq!(fa, fb);
                                }
                                _ => panic!("try_reserve disagrees seed {seed} step {step}"),
                            }
                        }
                    }
                    3 | 4 => {
                        if rx_open {
                            let a = rrx.try_recv().map_err(|e| matches!(e, real::sync::mpsc::error::TryRecvError::Empty));
                            let b = mrx.try_recv().map_err(|e| matches!(e, model::sync::mpsc::error::TryRecvError::Empty));
                            assert_eq!(a, b, "try_recv seed {seed} step {step}");
                        }
                    }
                    5 => {
                        if rx_open {
                            let a = match rrx.poll_recv(&mut cx()) {
                                Poll::Ready(v) => Some(v),
                                Poll::Pending => None,
                            };
                            let b = match mrx.poll_recv(&mut cx()) {
                                Poll::Ready(v) => Some(v),
                                Poll::Pending => None,
                            };
                            assert_eq!(a, b, "poll_recv seed {seed} step {step}");
                        }
                    }
                    6 => {
                        if let (Some(r), Some(m)) = (&rtx, &mtx) {
                            assert_eq!(r.capacity(), m.capacity(), "capacity seed {seed} step {step}");
                            assert_eq!(r.max_capacity(), m.max_capacity());
                            assert_eq!(r.is_closed(), m.is_closed());
                        }
                    }
                    7 => {
                        // clone / drop a sender
                        if rtx2.is_none() {
                            if let (Some(r), Some(m)) = (&rtx, &mtx) {
                                rtx2 = Some(r.clone());
                                mtx2 = Some(m.clone());
                            }
                        } else {
                            rtx2 = None;
                            mtx2 = None;
                        }
                    }
                    _ => {
                        let k = g.next() % 6;
                        if k == 0 {
                            rtx = None;
                            mtx = None;
                        } else if k == 1 && rx_open {
                            rrx.close();
                            mrx.close();
                        }
                    }
                }
                let _ = (&rtx2, &mtx2);
            }
            // drain and compare what is left
            loop {
                let a = rrx.try_recv().ok();
                let b = mrx.try_recv().ok();
                assert_eq!(a, b);
                if a.is_none() {
                    break;
                }
            }
            rx_open = false;
            let _ = rx_open;
        }
    }

    #[test]
    fn receiver_drop_closes_for_senders() {
        let (rtx, rrx) = real::sync::mpsc::channel::<u32>(2);
        let (mtx, mrx) = model::sync::mpsc::channel::<u32>(2);
        drop(rrx);
        drop(mrx);
        assert_eq!(rtx.is_closed(), mtx.is_closed());
        assert!(matches!(rtx.try_send(1), Err(real::sync::mpsc::error::TrySendError::Closed(1))));
        assert!(matches!(mtx.try_send(1), Err(model::sync::mpsc::error::TrySendError::Closed(1))));
        assert!(rtx.try_reserve().is_err() && mtx.try_reserve().is_err());
    }

    #[test]
    fn oneshot_matches_real_tokio() {
        use std::future::Future;
        use std::pin::Pin;
        for scenario in 0..6 {
            let (rtx, mut rrx) = real::sync::oneshot::channel::<u8>();
            let (mtx, mut mrx) = model::sync::oneshot::channel::<u8>();
            match scenario {
                0 => {
                    assert_eq!(rtx.send(7).is_ok(), mtx.send(7).is_ok());
                }
                1 => {
                    drop(rtx);
                    drop(mtx);
                }
                2 => {
                    assert_eq!(rtx.is_closed(), mtx.is_closed());
                    rrx.close();
                    mrx.close();
                    assert_eq!(rtx.is_closed(), mtx.is_closed());
                    assert_eq!(rtx.send(1).is_err(), mtx.send(1).is_err());
                    continue;
                }
                3 => {
                    // pending while the sender is alive
                    let a = Pin::new(&mut rrx).poll(&mut cx()).is_pending();
                    let b = Pin::new(&mut mrx).poll(&mut cx()).is_pending();
                    assert_eq!(a, b);
                    drop(rtx);
                    drop(mtx);
                }
                4 => {
                    assert!(matches!(rrx.try_recv(), Err(real::sync::oneshot::error::TryRecvError::Empty)));
                    assert!(matches!(mrx.try_recv(), Err(model::sync::oneshot::error::TryRecvError::Empty)));
                    drop(rtx);
                    drop(mtx);
                    assert!(matches!(rrx.try_recv(), Err(real::sync::oneshot::error::TryRecvError::Closed)));
                    assert!(matches!(mrx.try_recv(), Err(model::sync::oneshot::error::TryRecvError::Closed)));
                    continue;
                }
                _ => {
                    let _ = rtx.send(9);
                    let _ = mtx.send(9);
                    assert_eq!(rrx.try_recv().ok(), mrx.try_recv().ok());
                    continue;
                }
            }
            let a = match Pin::new(&mut rrx).poll(&mut cx()) {
                Poll::Ready(v) => Some(v.ok()),
                Poll::Pending => None,
            };
            let b = match Pin::new(&mut mrx).poll(&mut cx()) {
                Poll::Ready(v) => Some(v.ok()),
                Poll::Pending => None,
            };
            assert_eq!(a, b, "scenario {scenario}");
        }
    }

    #[test]
    fn unbounded_matches_real_tokio() {
        let (rtx, mut rrx) = real::sync::mpsc::unbounded_channel::<u32>();
        let (mtx, mut mrx) = model::sync::mpsc::unbounded_channel::<u32>();
        for i in 0..10 {
            assert_eq!(rtx.send(i).is_ok(), mtx.send(i).is_ok());
        }
        assert_eq!(rrx.len(), mrx.len());
        for _ in 0..11 {
            assert_eq!(rrx.try_recv().ok(), mrx.try_recv().ok());
        }
        drop(rrx);
        drop(mrx);
        assert_eq!(rtx.send(1).is_err(), mtx.send(1).is_err());
        assert_eq!(rtx.is_closed(), mtx.is_closed());
    }

    #[test]
    fn instant_arithmetic_matches_real_tokio() {
        use std::time::Duration;
        // the model's Instant is a Duration since an origin: differences and ordering must agree
        let rt = real::runtime::Builder::new_current_thread().enable_time().start_paused(true).build().unwrap();
        rt.block_on(async {
            let r0 = real::time::Instant::now();
            model::time::model_set_now(Duration::from_secs(100));
            let m0 = model::time::Instant::now();
            for (a, b) in [(0u64, 5u64), (7, 7), (1_000_000, 3), (2, 999_999_999)] {
                let d1 = Duration::new(a, b as u32 % 1_000_000_000);
                let d2 = Duration::new(b % 1000, a as u32 % 1_000_000_000);
                let (r1, r2) = (r0 + d1, r0 + d2);
                let (m1, m2) = (m0 + d1, m0 + d2);
                assert_eq!(r1 <= r2, m1 <= m2);
                assert_eq!(r1.duration_since(r2), m1.duration_since(m2));
                assert_eq!(r2 - r1, m2 - m1);
                assert_eq!((r1 + d2) - r0, (m1 + d2) - m0);
            }
            real::time::advance(Duration::from_millis(1500)).await;
            model::time::model_set_now(Duration::from_secs(100) + Duration::from_millis(1500));
            assert_eq!(r0.elapsed(), m0.elapsed());
        });
    }

    // ---------------------------------------------------------------------------------------------
    // Executor model: the driver below is what turmoil's `Rt` does (init: build a paused runtime and
    // sleep 1 ms; `with`: spawn_local inside run_until; `tick`: block_on(run_until(sleep(tick)));
    // `cancel_tasks`: replace runtime and LocalSet). The same pseudo-random timer programs run on the
    // REAL tokio and on the MODEL; the complete traces (who observed which virtual time, when each
    // JoinHandle finished, which destructors ran at a crash, the clock after every tick) must agree.
    macro_rules! driver {
        ($tk:ident, $name:ident) => {
            fn $name(seed: u64) -> Vec<String> {
                use std::cell::RefCell;
                use std::rc::Rc;
                use std::time::Duration;
                struct Guard(Rc<RefCell<Vec<String>>>, u32);
                impl Drop for Guard {
                    fn drop(&mut self) {
                        self.0.borrow_mut().push(format!("drop task{}", self.1));
                    }
                }
                let mut g = Lcg(seed * 104729 + 17);
                let log: Rc<RefCell<Vec<String>>> = Rc::new(RefCell::new(Vec::new()));
                let build = || {
                    let rt = $tk::runtime::Builder::new_current_thread().enable_time().start_paused(true).build().unwrap();
                    rt.block_on(async { $tk::time::sleep(Duration::from_millis(1)).await });
                    (rt, $tk::task::LocalSet::new())
                };
                let (mut rt, mut local) = build();
                let start = {
                    let _g = rt.enter();
                    $tk::time::Instant::now()
                };
                let ntasks = 1 + (g.next() % 3) as u32;
                let mut handles = Vec::new();
                for t in 0..ntasks {
                    let n = (g.next() % 4) as usize;
                    let sleeps: Vec<u64> = (0..n).map(|_| g.next() % 9).collect();
                    let nested = g.next() % 4 == 0;
                    let with_timeout = g.next() % 4 == 0;
                    let log2 = log.clone();
                    let fut = async move {
                        let _guard = Guard(log2.clone(), t);
                        let t0 = $tk::time::Instant::now();
                        log2.borrow_mut().push(format!("task{} start at {:?}", t, t0 - start));
                        for (i, ms) in sleeps.iter().enumerate() {
                            if with_timeout && i == 0 {
                                let r = $tk::time::timeout(Duration::from_millis(3), $tk::time::sleep(Duration::from_millis(*ms))).await;
                                log2.borrow_mut().push(format!("task{} timeout#{} ok={} at {:?}", t, i, r.is_ok(), $tk::time::Instant::now() - start));
                            } else {
                                $tk::time::sleep(Duration::from_millis(*ms)).await;
                                log2.borrow_mut().push(format!("task{} woke#{} at {:?}", t, i, $tk::time::Instant::now() - start));
                            }
                            if nested && i == 0 {
                                let log3 = log2.clone();
                                let h = $tk::task::spawn_local(async move {
                                    $tk::time::sleep(Duration::from_millis(2)).await;
                                    log3.borrow_mut().push(format!("child of task{} at {:?}", t, $tk::time::Instant::now() - start));
                                    7u32
                                });
                                std::mem::drop(h);
                            }
                        }
                        t
                    };
                    let h = rt.block_on(async { local.run_until(async { $tk::task::spawn_local(fut) }).await });
                    handles.push(Some(h));
                }
                let tick = 1 + g.next() % 6;
                let steps = 2 + g.next() % 6;
                let crash_at = g.next() % (steps + 2);
                for s in 0..steps {
                    if s == crash_at {
                        log.borrow_mut().push("crash".to_string());
                        for h in handles.iter_mut() {
                            *h = None;
                        }
                        let (rt2, local2) = build();
                        _ = std::mem::replace(&mut rt, rt2);
                        std::mem::drop(std::mem::replace(&mut local, local2));
                        log.borrow_mut().push("crashed".to_string());
                    }
                    let before = {
                        let _g = rt.enter();
                        $tk::time::Instant::now()
                    };
                    rt.block_on(async { local.run_until(async { $tk::time::sleep(Duration::from_millis(tick)).await }).await });
                    let after = {
                        let _g = rt.enter();
                        $tk::time::Instant::now()
                    };
                    log.borrow_mut().push(format!("tick {} advanced {:?}", s, after - before));
                    for (i, slot) in handles.iter_mut().enumerate() {
                        let fin = slot.as_ref().map(|h| h.is_finished());
                        if fin == Some(true) {
                            let h = slot.take().unwrap();
                            let r = rt.block_on(h);
                            log.borrow_mut().push(format!("tick {} joined task{} -> {:?}", s, i, r.ok()));
                        }
                    }
                }
                std::mem::drop(local);
                std::mem::drop(rt);
                let out = log.borrow().clone();
                out
            }
        };
    }
    driver!(real, run_real);
    driver!(model, run_model);

    #[test]
    fn executor_model_matches_real_paused_runtime() {
        for seed in 0..3000u64 {
            let a = run_real(seed);
            let b = run_model(seed);
            // Tasks whose timers fire at the SAME virtual instant are polled in timer-wheel order by
            // tokio and in spawn order by the model; that order is not part of the modelled contract.
            // Compared: (1) per tick, the multiset of events; (2) per source, the exact sequence.
            let segments = |t: &Vec<String>| {
                let mut out: Vec<Vec<String>> = vec![Vec::new()];
                for l in t {
                    out.last_mut().unwrap().push(l.clone());
                    if l.starts_with("tick ") && l.contains("advanced") {
                        out.last_mut().unwrap().sort();
                        out.push(Vec::new());
                    }
                }
                out.last_mut().unwrap().sort();
                out
            };
            assert_eq!(segments(&a), segments(&b), "per-tick events differ for seed {seed}\n{a:#?}\n{b:#?}");
            let project = |t: &Vec<String>, key: &str| t.iter().filter(|l| l.starts_with(&format!("{key} "))).cloned().collect::<Vec<_>>();
            for key in ["task0", "task1", "task2", "child of task0", "child of task1", "child of task2", "tick"] {
                assert_eq!(project(&a, key), project(&b, key), "sequence of {key} differs for seed {seed}");
            }
        }
    }
}
