//! Kernel-level witness (native, real dependencies): attached as a #[cfg(test)] child module of
//! crates/turmoil-net/src/kernel/mod.rs by bin/vwitness, because `Kernel` is crate-private and the
//! symptom (a leaked socket-table entry) is deliberately hidden from netstat (Closed sockets).
//! It drives two real kernels through the public kernel API, passing packets by hand.
use super::*;
use std::net::{IpAddr, Ipv4Addr, SocketAddr};
use std::task::{Context, Waker};

fn cx() -> Context<'static> {
    Context::from_waker(Waker::noop())
}

fn pump(from: &mut Kernel, to: &mut Kernel) -> usize {
    let mut out = Vec::new();
    from.egress(&mut out);
    let n = out.len();
    for p in out {
        to.deliver(p);
    }
    n
}

/// C13 / D1: a connect that is cancelled after the server already answered. The client socket is
/// closed in SynSent (reaped silently); the server's SYN-ACK then hits an unknown 4-tuple and is
/// answered with a RST, which aborts the server's never-accepted child. Nobody holds a handle to
/// that child, so it must be reclaimed - otherwise the table grows by one entry per cancelled connect
/// and the stale 4-tuple swallows a later SYN from the same address and port.
#[test]
fn c13_aborted_unaccepted_child_is_reclaimed() {
    let sip = IpAddr::V4(Ipv4Addr::new(10, 0, 0, 1));
    let cip = IpAddr::V4(Ipv4Addr::new(10, 0, 0, 2));
    let mut server = Kernel::new();
    server.add_address(sip);
    let mut client = Kernel::new();
    client.add_address(cip);
    let l = server.bind(&Addr::Inet(SocketAddr::new(sip, 80)), Type::Stream).unwrap();
    server.listen(l, 8).unwrap();

    let c = client.open(Domain::Inet, Type::Stream);
    assert!(client.poll_connect(c, &mut cx(), &Addr::Inet(SocketAddr::new(sip, 80))).is_pending());
    assert_eq!(pump(&mut client, &mut server), 1, "SYN");
    assert_eq!(server.sockets().count(), 2, "listener + handshaking child");
    // the connector gives up (timeout / select!): its fd guard closes the socket
    client.close(c);
    assert_eq!(client.sockets().count(), 0);
    assert_eq!(pump(&mut server, &mut client), 1, "SYN-ACK reaches a client that no longer knows the connection");
    assert_eq!(pump(&mut client, &mut server), 1, "client answers with RST");
    // a few more egress passes on the server: reaping happens at the end of egress
    for _ in 0..20 {
        pump(&mut server, &mut client);
        pump(&mut client, &mut server);
    }
    assert_eq!(
        server.sockets().count(),
        1,
        "the aborted, never-accepted child is still in the server's socket table (leak); only the listener should remain"
    );
}
