//! End-to-end witnesses (native, real dependencies, public API only) for derived obligations of the
//! Kani harnesses. A witness PASSES when the property-level symptom is absent. Each is referenced by
//! `witness=<name>` in a harness annotation; bin/vcheck runs it before a derived-obligation
//! counterexample is reported as a violation (DESIGN.md §2.6).
use std::time::Duration;

use tokio::io::{AsyncReadExt, AsyncWriteExt};
use turmoil_net::fixture::{self, ClientServer};
use turmoil_net::shim::tokio::net::{TcpListener, TcpStream};
use turmoil_net::{rule, KernelConfig, Packet, Transport, Verdict};

const LIMIT: Duration = Duration::from_secs(120); // virtual time

/// C06 / D2: a reader that drains a FULL receive window in reads smaller than half the cap. No packet
/// is lost. Every written byte and then EOF must arrive.
#[test]
fn c06_small_reads_of_full_window() {
    let cfg = KernelConfig::default().recv_buf_cap(4).send_buf_cap(64);
    let ok = fixture::lo_with_config(cfg, async {
        let listener = TcpListener::bind("127.0.0.1:7100").await.unwrap();
        let (mut client, (mut server, _)) =
            tokio::try_join!(TcpStream::connect("127.0.0.1:7100"), listener.accept()).unwrap();
        let writer = tokio::task::spawn_local(async move {
            client.write_all(b"abcdefghijkl").await.unwrap();
            client.shutdown().await.unwrap();
            // keep the socket alive until the reader is done
            tokio::time::sleep(LIMIT).await;
        });
        let reader = async move {
            // let the receive buffer fill up completely first
            tokio::time::sleep(Duration::from_millis(50)).await;
            let mut got = Vec::new();
            let mut b = [0u8; 1];
            loop {
                let n = server.read(&mut b).await.unwrap();
                if n == 0 {
                    break;
                }
                got.push(b[0]);
            }
            got
        };
        let r = tokio::time::timeout(LIMIT / 2, reader).await;
        writer.abort();
        r
    });
    let got = ok.expect("reader stalled: the sender never learned that the window re-opened");
    assert_eq!(&got[..], b"abcdefghijkl");
}
