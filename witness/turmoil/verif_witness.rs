//! End-to-end witnesses (native, real dependencies, public turmoil API only) for obligations of the
//! Kani harnesses. A witness PASSES when the property-level symptom is absent.
use std::net::{IpAddr, Ipv4Addr};
use std::sync::atomic::{AtomicUsize, Ordering};
use std::sync::Arc;
use std::time::Duration;

use tokio::io::{AsyncReadExt, AsyncWriteExt};
use turmoil::net::{TcpListener, TcpStream, UdpSocket};
use turmoil::{Builder, Result};

/// C03: the direction a -> b is explicitly partitioned (one way); fail_rate and repair_rate are 1, so
/// the random partition / repair process runs on every send. Traffic b -> a triggers the random
/// partition, the next a -> b send triggers the random repair. Nothing a sends may reach b.
#[test]
fn c03_oneway_partition_survives_random_failures() -> Result {
    let mut sim = Builder::new()
        .fail_rate(1.0)
        .repair_rate(1.0)
        .min_message_latency(Duration::from_millis(1))
        .max_message_latency(Duration::from_millis(1))
        .build();
    let b_received = Arc::new(AtomicUsize::new(0));
    let counter = b_received.clone();
    sim.host("b", move || {
        let counter = counter.clone();
        async move {
            let sock = UdpSocket::bind((IpAddr::V4(Ipv4Addr::UNSPECIFIED), 9000)).await?;
            // keep b -> a traffic going so that the random process has a healthy direction to hit
            let tx = UdpSocket::bind((IpAddr::V4(Ipv4Addr::UNSPECIFIED), 9001)).await?;
            tokio::spawn(async move {
                loop {
                    let _ = tx.send_to(b"from-b", ("a", 9000)).await;
                    tokio::time::sleep(Duration::from_millis(3)).await;
                }
            });
            let mut buf = [0u8; 16];
            loop {
                let (_n, _from) = sock.recv_from(&mut buf).await?;
                counter.fetch_add(1, Ordering::SeqCst);
            }
        }
    });
    sim.client("a", async move {
        let sock = UdpSocket::bind((IpAddr::V4(Ipv4Addr::UNSPECIFIED), 9000)).await?;
        for _ in 0..40 {
            let _ = sock.send_to(b"from-a", ("b", 9000)).await;
            tokio::time::sleep(Duration::from_millis(2)).await;
        }
        tokio::time::sleep(Duration::from_millis(50)).await;
        Ok(())
    });
    sim.partition_oneway("a", "b");
    sim.run()?;
    assert_eq!(
        b_received.load(Ordering::SeqCst),
        0,
        "b received datagrams that a sent across the explicitly partitioned direction a -> b"
    );
    Ok(())
}

/// C02 / D1: tcp_capacity(1); the writer writes one segment and shuts down while the reader is not
/// reading yet. The FIN arrives while the receive queue holds `capacity` unread data segments. The
/// reader must still observe end-of-file after the data.
#[test]
fn c02_fin_with_full_receive_queue() -> Result {
    let mut sim = Builder::new()
        .tcp_capacity(1)
        .simulation_duration(Duration::from_secs(30))
        .build();
    sim.host("server", || async move {
        let listener = TcpListener::bind((IpAddr::V4(Ipv4Addr::UNSPECIFIED), 1738)).await?;
        let (mut s, _) = listener.accept().await?;
        s.write_all(b"x").await?;
        s.shutdown().await?;
        // keep the host (and the socket) alive
        tokio::time::sleep(Duration::from_secs(3600)).await;
        Ok(())
    });
    sim.client("client", async move {
        let mut c = TcpStream::connect(("server", 1738)).await?;
        // let data and FIN both arrive before the first read
        tokio::time::sleep(Duration::from_secs(2)).await;
        let mut got = Vec::new();
        let mut b = [0u8; 4];
        loop {
            let n = c.read(&mut b).await?;
            if n == 0 {
                break;
            }
            got.extend_from_slice(&b[..n]);
        }
        assert_eq!(&got[..], b"x");
        Ok(())
    });
    sim.run()
}

/// F-C10-1: bytes cut off by a truncation must not come back when the file is extended again
/// (POSIX: the extended part reads as zeros), whether or not anything was synced in between.
#[test]
fn c10_truncate_then_extend_reads_zeros() -> Result {
    use std::os::unix::fs::FileExt;
    use turmoil::fs::shim::std::fs::OpenOptions;
    let mut sim = Builder::new().build();
    sim.client("test", async {
        let file = OpenOptions::new().read(true).write(true).create(true).open("/f")?;
        file.write_all_at(b"ab", 0)?;
        file.set_len(0)?;
        file.set_len(2)?;
        assert_eq!(file.metadata()?.len(), 2);
        let mut buf = [7u8; 2];
        let n = file.read_at(&mut buf, 0)?;
        assert_eq!(n, 2);
        assert_eq!(buf, [0u8, 0u8], "truncated bytes reappeared after the file was extended");
        Ok(())
    });
    sim.run()
}

/// F-C10-2 (open): a file that is removed and created again under the same name is a new, empty
/// file; the simulated filesystem shows the removed file's unsynced data again.
#[test]
fn c10_recreated_file_is_empty() -> Result {
    use std::os::unix::fs::FileExt;
    use turmoil::fs::shim::std::fs::{remove_file, OpenOptions};
    let mut sim = Builder::new().build();
    sim.client("test", async {
        {
            let file = OpenOptions::new().read(true).write(true).create(true).open("/f")?;
            file.write_all_at(b"ab", 0)?;
        }
        remove_file("/f")?;
        let file = OpenOptions::new().read(true).write(true).create(true).open("/f")?;
        assert_eq!(file.metadata()?.len(), 0, "a re-created file inherited the removed file's length");
        let mut buf = [7u8; 2];
        assert_eq!(file.read_at(&mut buf, 0)?, 0, "a re-created file inherited the removed file's data");
        Ok(())
    });
    sim.run()
}
